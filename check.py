#!/venv/bin/python
"""Entry point.  Usage (cwd=/verif):
    /venv/bin/python check.py run C05 --tier quick|thorough
    /venv/bin/python check.py replay replays/C05/<file>.json
    /venv/bin/python check.py selftest
Exit: 0 property held / 1 VIOLATION line printed / 2 harness error.
Env: VERIF_SEED, VERIF_TIER, PCVERIF_REPO (default /repo), PCVERIF_NPROC, PCVERIF_LEGS.
"""
import os
import sys

HERE = os.path.dirname(os.path.abspath(__file__))
os.chdir(HERE)
sys.path.insert(1, HERE)
os.environ.setdefault('PYTHONHASHSEED', '0')


def main(argv):
    if len(argv) < 2:
        print(__doc__)
        return 2
    cmd = argv[1]
    if cmd == 'run':
        prop = argv[2].upper()
        tier = os.environ.get('VERIF_TIER', 'quick')
        if '--tier' in argv:
            tier = argv[argv.index('--tier') + 1]
        from pcverif import core
        return core.run_property(prop, tier)
    if cmd == 'replay':
        from pcverif import core
        return core.replay(argv[2])
    if cmd == 'selftest':
        from pcverif import selftest
        return selftest.main()
    print(__doc__)
    return 2


if __name__ == '__main__':
    try:
        rc = main(sys.argv)
    except SystemExit:
        raise
    except BaseException:
        import traceback
        traceback.print_exc()
        print('HARNESS-ERROR: uncaught exception')
        rc = 2
    sys.stdout.flush()
    sys.exit(rc)
