"""Shared machinery for stabilizer-state explorations (C05, C06, C07, C12, C14, C19)."""
import functools
import numpy as np
from . import ref, dom, lib, rng


@functools.lru_cache(maxsize=None)
def tableaux(N):
    return dom.valid_tableaux(N)


def key_arrays(gs, ps, r):
    return (np.asarray(gs).astype(np.int64).tobytes(), (np.asarray(ps).astype(np.int64) % 4).tobytes(), int(r))


@functools.lru_cache(maxsize=None)
def valid_keyset(N):
    return frozenset(key_arrays(gs, ps, r) for gs, ps, r in tableaux(N))


_rho_cache = {}


def rho_of(gs, ps, r):
    """Density matrix of a tableau; memoised on (active stabilizers, r)."""
    gs = np.asarray(gs).astype(np.int64)
    ps = np.asarray(ps).astype(np.int64) % 4
    N = gs.shape[0] // 2
    k = (N, gs[r:N].tobytes(), ps[r:N].tobytes(), int(r))
    m = _rho_cache.get(k)
    if m is None:
        m = ref.rho(gs, ps, int(r))
        _rho_cache[k] = m
    return m


_chk_cache = {}


def state_check(st, N=None, dense=True):
    """C05 invariant of a live library state.  '' if valid, else description.
    Fast path: concrete key is a member of the independently enumerated valid set;
    slow path: the statement's invariant (pairing, Hermitian active phases, 0<=r<=N) and,
    for N<=2, positivity / trace / rank of the denoted matrix."""
    gs = np.asarray(st.gs)
    ps = np.asarray(st.ps)
    r = st.r
    if gs.ndim != 2 or gs.shape[0] != gs.shape[1] or ps.shape != (gs.shape[0],):
        return 'shape gs=%s ps=%s' % (gs.shape, ps.shape)
    if gs.dtype.kind not in 'iu' or ps.dtype.kind not in 'iu':
        # representation drift (float bits / phases) is reported unless values are exact integers
        if not (np.all(gs == np.rint(gs)) and np.all(ps == np.rint(ps))):
            return 'non-integer entries'
    n = gs.shape[0] // 2
    if N is not None and n != N:
        return 'N changed to %d' % n
    try:
        ri = int(r)
    except Exception:
        return 'r=%r' % (r,)
    if ri != r:
        return 'r=%r' % (r,)
    k = key_arrays(gs, ps, ri)
    if n <= 2 and k in valid_keyset(n):
        return ''
    c = _chk_cache.get(k)
    if c is not None:
        return c
    c = ref.tableau_invariant(gs, ps, ri)
    if not c and dense and n <= 3:
        if not ref.is_density(ref.rho(gs.astype(np.int64), ps.astype(np.int64), ri), rank=2 ** ri):
            c = 'denoted matrix is not a density matrix of rank 2^r'
    _chk_cache[k] = c
    return c


@functools.lru_cache(maxsize=None)
def rho_representatives(N):
    """One tableau index per distinct density matrix (first in enumeration order), plus
    the list of all indices per density matrix."""
    groups = {}
    for i, (gs, ps, r) in enumerate(tableaux(N)):
        k = ref.rho_key(rho_of(gs, ps, r))
        groups.setdefault(k, []).append(i)
    return groups


def representatives(N, seed=0):
    """One representative index per density matrix; VERIF_SEED rotates the choice."""
    out = []
    for k, idxs in sorted(rho_representatives(N).items()):
        out.append(idxs[seed % len(idxs)])
    return out


def fresh(N, idx):
    gs, ps, r = tableaux(N)[idx]
    return lib.ST(gs, ps, r)


def describe(gs, ps, r):
    gs = np.asarray(gs)
    N = gs.shape[0] // 2
    rows = [ref.g_to_str(gs[i], int(ps[i]) % 4) for i in range(2 * N)]
    return {'r': int(r), 'standby_stab': rows[:r], 'active_stab': rows[r:N], 'destab': rows[N:]}


def measure_scripted(st, obs, coins):
    """Run st.measure(obs) with scripted numba coins; returns (out, log2prob, consumed)."""
    rng.script(coins, None)
    out, lp = st.measure(obs)
    return np.asarray(out).tolist(), float(lp), rng.consumed()[0]
