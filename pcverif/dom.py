"""Complete enumerators of the finite domains (generated without the library)."""
import itertools
import functools
import numpy as np
from . import ref

SP_ORDER = {1: 6, 2: 720, 3: 1451520}


@functools.lru_cache(maxsize=None)
def symplectic_tables(N):
    """All 2N x 2N binary tables whose rows (images of X0,Z0,X1,Z1..) satisfy the
    canonical commutation relations.  Brute force row by row with CCR filter."""
    assert N in (1, 2)
    G = ref.all_g(N)
    A = ref.anti_mat(G)
    n2 = 2 * N
    out = []

    def rec(rows):
        j = len(rows)
        if j == n2:
            out.append(G[list(rows)].copy())
            return
        for c in range(len(G)):
            ok = True
            for i, rj in enumerate(rows):
                want = 1 if (i // 2 == j // 2) else 0
                if A[rj, c] != want:
                    ok = False
                    break
            if ok:
                rec(rows + (c,))
    rec(())
    assert len(out) == SP_ORDER[N], len(out)
    return out


def sign_patterns(n):
    """All phase vectors in {0,2}^n."""
    return [2 * np.array(b, dtype=np.int64) for b in itertools.product((0, 1), repeat=n)]


@functools.lru_cache(maxsize=None)
def valid_maps(N):
    """All valid maps (table, signs): 24 for N=1, 11520 for N=2."""
    out = []
    for t in symplectic_tables(N):
        for s in sign_patterns(2 * N):
            out.append((t, s))
    assert len(out) == SP_ORDER[N] * 4 ** N
    return out


def map_to_tableau(gs_map, ps_map):
    """Reference reordering map rows -> tableau rows (Z images = stabilizers first)."""
    N = gs_map.shape[0] // 2
    gs = np.empty_like(gs_map)
    ps = np.empty_like(ps_map)
    for i in range(N):
        gs[i] = gs_map[2 * i + 1]
        ps[i] = ps_map[2 * i + 1]
        gs[N + i] = gs_map[2 * i]
        ps[N + i] = ps_map[2 * i]
    return gs, ps


def tableau_to_map(gs, ps):
    N = gs.shape[0] // 2
    gm = np.empty_like(gs)
    pm = np.empty_like(ps)
    for i in range(N):
        gm[2 * i + 1] = gs[i]
        pm[2 * i + 1] = ps[i]
        gm[2 * i] = gs[N + i]
        pm[2 * i] = ps[N + i]
    return gm, pm


@functools.lru_cache(maxsize=None)
def valid_tableaux(N):
    """All valid tableaux (gs, ps, r): 48 for N=1, 34560 for N=2."""
    out = []
    for t, s in valid_maps(N):
        gs, ps = map_to_tableau(t, s)
        for r in range(N + 1):
            out.append((gs, ps, r))
    return out


def hermitian_paulis(N, include_identity=True):
    """All (g,p) with p in {0,2}."""
    out = []
    for g in ref.all_g(N):
        if not include_identity and not g.any():
            continue
        for p in (0, 2):
            out.append((g, p))
    return out


def all_paulis(N):
    G = ref.all_g(N)
    return [(g, p) for p in range(4) for g in G]


def z2_rank(rows):
    """Independent GF(2) rank (row reduction on Python ints)."""
    vals = []
    for r in rows:
        v = 0
        for b in r:
            v = (v << 1) | int(b)
        vals.append(v)
    rank = 0
    basis = []
    for v in vals:
        for b in basis:
            v = min(v, v ^ b)
        if v:
            basis.append(v)
            rank += 1
    return rank


@functools.lru_cache(maxsize=None)
def commuting_lists(N, L):
    """All ordered lists of L independent, mutually commuting, non-identity strings
    (unsigned) as index tuples into ref.all_g(N)."""
    G = ref.all_g(N)
    A = ref.anti_mat(G)
    ints = [int(ref.gindex(g)) for g in G]
    out = []

    def span(basis_ints):
        s = {0}
        for b in basis_ints:
            s |= {x ^ b for x in s}
        return s

    def rec(sel, sp):
        if len(sel) == L:
            out.append(tuple(sel))
            return
        for c in range(1, len(G)):
            if ints[c] in sp:
                continue
            if any(A[c, s] for s in sel):
                continue
            rec(sel + [c], sp | {x ^ ints[c] for x in sp})
    rec([], {0})
    return out


def count_commuting_lists(N, L):
    """Closed form: prod_{k<L} (4^N/2^k - 2^k) ... number of ordered independent
    commuting L-lists = prod_{k=0}^{L-1} (2^(2N-k) - 2^k)."""
    n = 1
    for k in range(L):
        n *= (2 ** (2 * N - k) - 2 ** k)
    return n


def subsets(N):
    out = []
    for k in range(N + 1):
        for c in itertools.combinations(range(N), k):
            out.append(list(c))
    return out


def selfcheck():
    out = {}
    for N in (1, 2):
        out['sp_tables_N%d' % N] = len(symplectic_tables(N))
        assert out['sp_tables_N%d' % N] == SP_ORDER[N]
    for (N, L) in ((1, 1), (2, 1), (2, 2)):
        n = len(commuting_lists(N, L))
        assert n == count_commuting_lists(N, L), (N, L, n)
        out['commuting_lists_N%d_L%d' % (N, L)] = n
    return out
