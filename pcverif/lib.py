"""Binding to the working tree under test (PCVERIF_REPO, default /repo)."""
import os
import sys
import warnings

REPO = os.environ.get('PCVERIF_REPO', '/repo')
if sys.path[0] != REPO:
    sys.path.insert(0, REPO)
warnings.filterwarnings('ignore')
os.environ.setdefault('OMP_NUM_THREADS', '1')
os.environ.setdefault('MKL_NUM_THREADS', '1')
os.environ.setdefault('NUMBA_NUM_THREADS', '1')

import numpy as np  # noqa: E402
import pyclifford as pc  # noqa: E402
from pyclifford import utils as pu  # noqa: E402
from pyclifford import paulialg as ppa  # noqa: E402
from pyclifford import stabilizer as pst  # noqa: E402
from pyclifford import circuit as pci  # noqa: E402

assert os.path.realpath(pc.__file__).startswith(os.path.realpath(REPO) + os.sep), \
    'pyclifford imported from %s, not from %s' % (pc.__file__, REPO)

INT = np.int_


def P(g, p=0):
    return pc.Pauli(np.array(g, dtype=INT), int(p))


def PL(gs, ps=None):
    gs = np.array(gs, dtype=INT)
    if gs.ndim == 1:
        gs = gs.reshape(0, 0) if gs.size == 0 else gs[None, :]
    ps = np.zeros(gs.shape[0], dtype=INT) if ps is None else np.array(ps, dtype=INT)
    return pc.PauliList(gs, ps)


def CM(gs, ps):
    return pc.CliffordMap(np.array(gs, dtype=INT), np.array(ps, dtype=INT))


def ST(gs, ps, r):
    return pc.StabilizerState(np.array(gs, dtype=INT), ps=np.array(ps, dtype=INT), r=int(r))


def POLY(gs, ps, cs):
    gs = np.array(gs, dtype=INT)
    poly = pc.PauliPolynomial(gs, np.array(ps, dtype=INT))
    poly.set_cs(np.array(cs, dtype=np.complex128))
    return poly


def MONO(g, p, c):
    return pc.PauliMonomial(np.array(g, dtype=INT), int(p)).set_c(complex(c))


def key_state(st):
    """Concrete state key incl. representation flags (DESIGN 2.3)."""
    gs = np.asarray(st.gs)
    ps = np.asarray(st.ps)
    return (gs.shape, str(gs.dtype.kind), gs.astype(np.int64).tobytes(),
            (ps.astype(np.int64) % 4).tobytes(), int(st.r))


# ------------------------------------------------------------------ torch side
_tc = None


def torch_mods():
    """Lazy import of torch + torchclifford (4.5 s)."""
    global _tc
    if _tc is None:
        import torch
        torch.set_num_threads(1)
        import torchclifford as tc
        from torchclifford import utils as tu, paulialg as tpa, stabilizer as tst, circuit as tci
        assert os.path.realpath(tc.__file__).startswith(os.path.realpath(REPO) + os.sep)
        _tc = dict(torch=torch, tc=tc, tu=tu, tpa=tpa, tst=tst, tci=tci)
    return _tc


def tT(a):
    t = torch_mods()['torch']
    return t.tensor(np.array(a, dtype=np.float32), dtype=t.float32)


def tP(g, p=0):
    m = torch_mods()
    return m['tpa'].Pauli(tT(g), int(p))


def tPL(gs, ps=None):
    m = torch_mods()
    gs = np.array(gs, dtype=np.float32)
    if gs.ndim == 1:
        gs = gs[None, :]
    ps = np.zeros(gs.shape[0]) if ps is None else ps
    return m['tpa'].PauliList(tT(gs), tT(ps))


def tCM(gs, ps):
    m = torch_mods()
    return m['tst'].CliffordMap(tT(gs), tT(ps))


def tST(gs, ps, r):
    m = torch_mods()
    return m['tst'].StabilizerState(tT(gs), ps=tT(ps), r=int(r))


def tPOLY(gs, ps, cs):
    m = torch_mods()
    t = m['torch']
    poly = m['tpa'].PauliPolynomial(tT(gs), tT(ps))
    poly.set_cs(t.tensor(np.array(cs, dtype=np.complex64), dtype=t.complex64))
    return poly


def t2n(x):
    """tensor / scalar -> numpy int64 array (exact for the small integers used)."""
    t = torch_mods()['torch']
    if t.is_tensor(x):
        a = x.detach().cpu().numpy()
    else:
        a = np.asarray(x)
    if np.iscomplexobj(a):
        return a
    r = np.rint(a)
    if not np.allclose(a, r):
        return a
    return r.astype(np.int64)
