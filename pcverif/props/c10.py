"""C10 backward is the exact inverse of forward.

Same gate programs, configurations and inputs as C09 (pcverif.circ).  For every gate (specified by
generator, forward map only, backward map only, both maps, named constructor, clifford_rotation_gate;
bare / compiled / copied), every layer (direct / take-built / compiled / copied) and every circuit
configuration (CliffordCircuit / Circuit x uncompiled / layers compiled / circuit compiled / copy /
copy of compiled / composed at every split point / composed then compiled), on TWO FRESH objects:
  (a) backward(forward(x)) == x,
  (b) backward(x) == reference inverse automorphism of x, then forward(backward(x)) == x,
for x = one PauliList holding the complete Pauli group with all four phases (strings and phases
compared element-exact) and signed stabilizer states of every rank (strings, phases mod 4, rank)."""
import itertools
from .. import circ, dom
from ..core import Leg

PROP = 'C10'
SUB7 = (0, 7, 8, 11, 13, 14, 15)     # N=3 sub-alphabet of the quick length-3 leg
RULE = ('all gate programs of length <= k over the C09 alphabet x every configuration x {whole Pauli group list, 2 signed '
        'tableaux x every rank} x both orders (backward after forward on a fresh object, forward after backward on a second '
        'fresh object), plus the complete single-gate and single-layer domains; a case = one real round trip / backward '
        'call compared with the identity / the reference inverse; non-trivial = the reference automorphism is not the identity; '
        'states = distinct reference automorphisms')
ASSUMPTIONS = ['bounded program length and N<=4',
               'generic gates on ascending qubit tuples only; map-less random gates excluded (not deterministic)',
               'a gate given BOTH maps is only exercised with mutually inverse maps (the class docstring requires it)',
               'Circuit (with measurements) has no copy()/compose(); only unitary circuits are in scope of C10',
               'stabilizer states compared bit-exactly after the round trip; backward alone compared with the reference inverse as density matrix + rank',
               'torch leg: uncompiled gates/layers/circuits with smaller bounds; compile-based configurations are attempted and reported when they raise']


def conventions():
    return circ.selfcheck()


def fn_programs(items):
    return circ.run_programs('C10', 'py', items)


def fn_gates(items):
    return circ.run_gates('C10', 'py', items)


def fn_layers(items):
    return circ.run_layers('C10', 'py', items)


def fn_torch_programs(items):
    return circ.run_programs('C10', 'torch', items)


def fn_torch_gates(items):
    return circ.run_gates('C10', 'torch', items)


def fn_torch_layers(items):
    return circ.run_layers('C10', 'torch', items)


# ------------------------------------------------------------------ histories: generator replaced between compiles
_OTHER = {('py', 2): 0, ('py', 3): 0, ('torch', 2): 2, ('torch', 3): 4}     # a Hadamard on qubit 0 in each alphabet
_OLD = {1: [('Y', 2), ('X', 0)], 2: [('XZ', 2), ('YY', 0)]}


def regen_items(tier):
    out = []
    for tag in ('py', 'torch'):
        for N, qs in ((2, (0, 1)), (2, (1,)), (3, (0, 2)), (3, (2,))):
            n = len(qs)
            strs = [''.join(t) for t in itertools.product('IXYZ', repeat=n) if set(t) != {'I'}]
            for go, po in _OLD[n]:
                for gn in strs:
                    for pn in (0, 2):
                        if (gn, pn) != (go, po):
                            out.append([tag, N, list(qs), go, po, gn, pn])
    return out


def fn_regenerate(items):
    """item = [tag, N, qubits, old string, old sign, new string, new sign]: a generator gate G (alone, and in a circuit
    G, H(0), G' with an overlapping Hadamard and a second generator gate) is compiled, its generator is REPLACED with
    set_generator (public), and the gate / circuit is compiled again (also: on a copy of the compiled circuit, the
    original staying as it was).  Afterwards forward must be the reference action with the NEW generator, backward
    its inverse, and backward(forward(x)) == x == forward(backward(x)) on the whole Pauli group and on signed states."""
    import numpy as np
    from .. import ref, lib
    from ..core import V
    n = nt = 0
    viol = []
    for item in items:
        tag, N, qs, go, po, gn, pn = item
        pk = circ.PKS[tag]
        P = lib.P if tag == 'py' else lib.tP
        Gate = lib.pci.CliffordGate if tag == 'py' else lib.torch_mods()['tci'].CliffordGate
        A = circ.alphabet(tag, N)
        other = A[_OTHER[(tag, N)]]
        perm_old = circ.perm_rot(ref.str_to_g(circ.full_string(go, qs, N)), po, N)
        perm_new = circ.perm_rot(ref.str_to_g(circ.full_string(gn, qs, N)), pn, N)
        ins = [i for i in pk.inputs(N) if not getattr(i, 'view', False)]

        def mkgate(gstr, ph):
            g = Gate(*qs)
            g.set_generator(P(ref.str_to_g(gstr), ph))
            return g

        def judge(obj, perm, sig, what):
            """forward = perm, backward = perm^-1, both round trips, on fresh objects."""
            nonlocal n, nt
            inv = circ.inverse_perm(perm)
            for inp in ins:
                for first, second, pf in (('forward', 'backward', perm), ('backward', 'forward', inv)):
                    x = pk.fresh(inp)
                    try:
                        getattr(obj, first)(x)
                        o1 = circ.observe(pk, x, inp)
                        getattr(obj, second)(x)
                        o2 = circ.observe(pk, x, inp)
                    except Exception as e:
                        viol.append(V('C10/regenerate/%s/%s/raises-%s' % (tag, sig, type(e).__name__), item, '%s: %s then %s raised %s' % (what, first, second, e)))
                        return
                    n += 2
                    nt += 2
                    if not circ.agrees_with_ref(o1, inp, pf):
                        viol.append(V('C10/regenerate/%s/%s/%s-not-reference/%s' % (tag, sig, first, inp.kind), item,
                                      '%s: %s on %s is not the reference action: %s' % (what, first, inp.name, circ.first_diff(o1, *circ.ref_image(inp, pf), inp))))
                        return
                    if not circ.same(o2, inp.gs, inp.ps, inp.r):
                        viol.append(V('C10/regenerate/%s/%s/%s-after-%s/%s' % (tag, sig, second, first, inp.kind), item,
                                      '%s: %s after %s does not restore %s: %s' % (what, second, first, inp.name, circ.first_diff(o2, inp.gs, inp.ps, inp))))
                        return
        label = '%s N=%d generator gate on %s: %s replaced by %s' % (tag, N, qs, ref.g_to_str(ref.str_to_g(go), po), ref.g_to_str(ref.str_to_g(gn), pn))
        try:
            # (1) the gate alone
            g = mkgate(go, po)
            g.compile()
            g.set_generator(P(ref.str_to_g(gn), pn))
            g.compile()
            judge(g, perm_new, 'gate/compile-set-compile', label + '; gate.compile(), set_generator, gate.compile()')
            g = mkgate(go, po)
            x = pk.fresh(ins[0])
            g.forward(x)
            g.backward(x)
            g.set_generator(P(ref.str_to_g(gn), pn))
            judge(g, perm_new, 'gate/use-set-use', label + '; forward, backward, set_generator')
            # (2) inside circuits: G, H(0), G2 (G2 = a second gate object with the OLD generator, untouched)
            for cls in pk.classes:
                def build():
                    c = pk.new_circuit(cls, N)
                    g1, h, g2 = mkgate(go, po), other.mk(pk), mkgate(go, po)
                    for y in (g1, h, g2):
                        c.take(y)
                    return c, g1
                full_old = perm_old[other.perm[perm_old]] if False else None
                # reference: apply g1, then other, then g2 -> composition of permutations in application order
                def comp(*perms):
                    out = circ.ident(N)
                    for q in perms:
                        out = q[out]
                    return out
                ref_new = comp(perm_new, other.perm, perm_old)
                ref_old = comp(perm_old, other.perm, perm_old)
                c, g1 = build()
                pk.compile(c, N)
                g1.set_generator(P(ref.str_to_g(gn), pn))
                pk.compile(c, N)
                judge(c, ref_new, '%s/compile-set-compile' % cls, label + '; circuit [G, %s, G_old] compiled, G.set_generator, compiled again' % other.name)
                if pk.has(cls, 'copy'):
                    c, g1 = build()
                    pk.compile(c, N)
                    c2 = c.copy()
                    g1c = circ.walk(c2)[0][0].gates[0]
                    g1c.set_generator(P(ref.str_to_g(gn), pn))
                    pk.compile(c2, N)
                    judge(c2, ref_new, '%s/compiled-copy-set-compile' % cls, label + '; copy of the compiled circuit [G, %s, G_old], G.set_generator on the copy, copy compiled' % other.name)
                    judge(c, ref_old, '%s/original-of-regenerated-copy' % cls, label + '; the ORIGINAL compiled circuit after its copy got a new generator and was compiled')
                    pk.compile(c, N)
                    judge(c, ref_old, '%s/original-recompiled-after-copy-regenerated' % cls, label + '; the ORIGINAL compiled again after its copy got a new generator')
        except Exception as e:
            viol.append(V('C10/regenerate/%s/harness-path-raises-%s' % (tag, type(e).__name__), item, '%s raised %s: %s' % (label, type(e).__name__, e)))
    return {'n': n, 'nt': nt, 'viol': viol}


# ------------------------------------------------------------------ clifford_rotation_gate(generator, qubits=<container>)
_QGENS = [('XIY', [0, 1, 2]), ('IZZ', [0, 1, 2]), ('ZZ', [1, 2]), ('XY', [0, 2]), ('Y', [1]), ('ZX', [0, 1]), ('YZ', [2, 3]), ('XIZ', [1, 2, 3])]


def qformat_items():
    out = []
    for tag in ('py', 'torch'):
        for N in (3, 4):
            gens = [k for k, (gs_, qs) in enumerate(_QGENS) if max(qs) < N]
            for a in gens:
                for b in gens:
                    out.append([tag, N, a, b])
    return out


def fn_qubit_formats(items):
    """item = [tag, N, a, b]: two rotation gates built with clifford_rotation_gate(generator, qubits) where `qubits` is
    handed over as list / tuple / numpy int64 array / numpy int32 array / range / (torch) long tensor; both gates are
    taken by a circuit (plain and compiled).  The container type must not matter: layer structure as for plain ints,
    forward = reference product, backward = inverse, both round trips (whole Pauli group + signed states)."""
    import numpy as np
    from .. import ref, lib
    from ..core import V
    n = nt = 0
    viol = []
    for item in items:
        tag, N, a, b = item
        pk = circ.PKS[tag]
        P = lib.P if tag == 'py' else lib.tP
        ctor = lib.pc.clifford_rotation_gate if tag == 'py' else lib.torch_mods()['tc'].clifford_rotation_gate
        forms = [('list', list), ('tuple', tuple), ('ndarray-int64', lambda q: np.array(q, dtype=np.int64)), ('ndarray-int32', lambda q: np.array(q, dtype=np.int32)),
                 ('range', lambda q: range(q[0], q[-1] + 1) if list(range(q[0], q[-1] + 1)) == list(q) else list(q))]
        if tag == 'torch':
            t = lib.torch_mods()['torch']
            forms.append(('torch-long-tensor', lambda q: t.tensor(q, dtype=t.long)))
        ins = [i for i in pk.inputs(N) if not getattr(i, 'view', False)][:3]
        specs = [(_QGENS[a][0], 0, _QGENS[a][1]), (_QGENS[b][0], 2, _QGENS[b][1])]
        perms = [circ.perm_rot(ref.str_to_g(circ.full_string(gs_, qs, N)), ph, N) for gs_, ph, qs in specs]
        perm = perms[1][perms[0]]
        inv = circ.inverse_perm(perm)
        overlap = bool({q for ch, q in zip(specs[0][0], specs[0][2]) if ch != 'I'} & {q for ch, q in zip(specs[1][0], specs[1][2]) if ch != 'I'})
        for fname, conv in forms:
            for cls in pk.classes:
                for compiled in (False, True):
                    sig = 'C10/qubit-container/%s/%s/%s%s' % (tag, fname, cls, ',compiled' if compiled else '')
                    what = '%s N=%d: clifford_rotation_gate(%s, qubits=%s %s) then clifford_rotation_gate(-%s, qubits=%s %s) in a %s%s' % (
                        tag, N, specs[0][0], fname, specs[0][2], specs[1][0], fname, specs[1][2], cls, ' (compiled)' if compiled else '')
                    try:
                        c = pk.new_circuit(cls, N)
                        for gs_, ph, qs in specs:
                            c.take(ctor(P(ref.str_to_g(gs_), ph), conv(list(qs))))
                        nl = len(circ.walk(c)[0])
                        if compiled:
                            pk.compile(c, N)
                    except Exception as e:
                        if isinstance(e, TypeError) and fname != 'ndarray-int64':
                            continue      # this container type is refused by the package (pyclifford indexes the argument with an array): nothing is claimed
                        viol.append(V(sig + '/raises-%s' % type(e).__name__, item, '%s raised %s: %s' % (what, type(e).__name__, e)))
                        continue
                    if nl != (2 if overlap else 1):
                        viol.append(V(sig + '/layers', item, '%s: %d layers, gates %s overlap -> expected %d' % (what, nl, 'do' if overlap else 'do not', 2 if overlap else 1)))
                        continue
                    bad = False
                    for inp in ins:
                        for first, second, pf in (('forward', 'backward', perm), ('backward', 'forward', inv)):
                            x = pk.fresh(inp)
                            try:
                                getattr(c, first)(x)
                                o1 = circ.observe(pk, x, inp)
                                getattr(c, second)(x)
                                o2 = circ.observe(pk, x, inp)
                            except Exception as e:
                                viol.append(V(sig + '/raises-%s' % type(e).__name__, item, '%s: %s then %s raised %s' % (what, first, second, e)))
                                bad = True
                                break
                            n += 2
                            nt += 2
                            if not circ.agrees_with_ref(o1, inp, pf):
                                viol.append(V(sig + '/%s-not-reference' % first, item, '%s: %s on %s: %s' % (what, first, inp.name, circ.first_diff(o1, *circ.ref_image(inp, pf), inp))))
                                bad = True
                                break
                            if not circ.same(o2, inp.gs, inp.ps, inp.r):
                                viol.append(V(sig + '/%s-after-%s' % (second, first), item, '%s: %s after %s does not restore %s: %s' % (what, second, first, inp.name, circ.first_diff(o2, inp.gs, inp.ps, inp))))
                                bad = True
                                break
                        if bad:
                            break
    return {'n': n, 'nt': nt, 'viol': viol}


def legs(tier, for_replay=False):
    quick = tier == 'quick'
    if not for_replay:
        dom.valid_maps(2)
        circ.warmup('py')
    k3, k2 = (2, 3) if quick else (4, 4)
    p3 = circ.programs('py', 3, k3)
    p2 = circ.programs('py', 2, k2)
    out = [
        Leg('programs_N3', fn_programs, p3, chunk=8 if quick else 48, src_states=len(p3), timeout=3000,
            bound='N=3: all %d programs of length <= %d over 17 letters x all configurations x both orders x (256-element group list + 6 states)' % (len(p3), k3)),
        Leg('programs_N2', fn_programs, p2, chunk=24 if quick else 48, src_states=len(p2), timeout=3000,
            bound='N=2: all %d programs of length <= %d over 12 letters x all configurations x both orders' % (len(p2), k2)),
    ]
    if quick:
        p3s = [[3, list(p)] for p in itertools.product(SUB7, repeat=3)]
        out.append(Leg('programs_N3_len3', fn_programs, p3s, chunk=8, src_states=len(p3s),
                       bound='N=3: all %d programs of length exactly 3 over the 7-letter sub-alphabet %s (H0, CNOT(2,1), CNOT(0,2), gen(0,1) -XZ, '
                             'clifford_rotation_gate(XIY), fmap(0,2), bmap(1,2)); the thorough tier covers length <= 4 over all 17 letters' % (len(p3s), SUB7)))
    if quick:
        p4s = sorted({tuple(p) for sub in ((11, 1, 8, 10), (11, 0, 15, 10)) for p in itertools.product(sub, repeat=4)})
        p4s = [[3, list(p)] for p in p4s]
        out.append(Leg('programs_N3_len4', fn_programs, p4s, chunk=8, src_states=len(p4s),
                       bound='N=3: all %d programs of length exactly 4 over the two 4-letter sub-alphabets (gen(0,1), H1, CNOT(0,2), gen(2)) and '
                             '(gen(0,1), H0, bmap(1,2), gen(2)): a gate sinks into a non-first layer next to another gate and a later gate overlaps only the sunk one' % len(p4s)))
    p4 = circ.programs('py', 4, 2 if quick else 3)
    out.append(Leg('programs_N4', fn_programs, p4, chunk=4 if quick else 16, src_states=len(p4), timeout=3000,
                   bound='N=4: all %d programs of length <= %d over 10 letters (two 2-qubit gates on interleaved wires (0,2),(1,3) can share a layer; '
                         '4-qubit global generator) x all configurations x (1024-element group list + 7 states)' % (len(p4), 2 if quick else 3)))
    gs = [it for N in (1, 2, 3) for it in circ.gate_specs('py', N, tier, 'C10')]
    out.append(Leg('gates', fn_gates, gs, chunk=16 if quick else 64, timeout=3000,
                   bound='N<=3: named gates and C(k) on every wire, generator gates (all strings, both signs), clifford_rotation_gate '
                         '(all full-width generators, both signs) and map gates (all 24 one-qubit maps; two-qubit maps stride %s of 11520) '
                         'on every ascending tuple, forward-only / backward-only / both; bare, compiled, copied, used-then-copied, in a layer, '
                         'in one-gate circuits' % ('97' if quick else '1 at N=2 (global gate) and 3 at N=3 (x 3 placements)')))
    ls = circ.disjoint_tuples('py', 3, 3) + circ.disjoint_tuples('py', 2, 2)
    out.append(Leg('layers', fn_layers, ls, chunk=8, bound='every ordered tuple of pairwise disjoint base letters (N=2,3) as one CliffordLayer: direct / take-built / compiled / copied'))
    if not for_replay:
        circ.warmup('torch')
    t3 = circ.programs('torch', 3, 2 if quick else 3)
    t2 = circ.programs('torch', 2, 2 if quick else 3)
    if quick:   # three-gate programs (the shortest in which layer packing can go wrong) over 4 of the 8 letters
        t2 = t2 + [[2, list(p)] for p in itertools.product((0, 1, 2, 5), repeat=3)]
    # four-gate programs: the shortest in which a gate sinks into a NON-first layer next to another gate and a later gate
    # overlaps only the sunk one (N=2: XZ(0,1), Y(1), H(0), bmap(0); N=3: XZ(0,1), X(2), H(0), bmap(1,2))
    if quick:     # all orders of the four letters and everything that starts with the two-qubit gate (82 programs per N); thorough: all 256
        t4 = [[N_, list(p)] for N_, sub in ((2, (0, 1, 2, 7)), (3, (0, 1, 4, 7))) for p in sorted(set(itertools.permutations(sub)) | {(1,) + q for q in itertools.product(sub, repeat=3)})]
    else:
        t4 = [[2, list(p)] for p in itertools.product((0, 1, 2, 7), repeat=4)] + [[3, list(p)] for p in itertools.product((0, 1, 4, 7), repeat=4)]
    if not quick:
        t4 += [[3, list(p)] for p in itertools.product((1, 3, 4, 5, 7), repeat=4)]
    out.append(Leg('torch_programs_len4', fn_torch_programs, t4, chunk=2, timeout=3000,
                   bound='torchclifford: 4-gate programs over the 4-letter sub-alphabets (0,1,2,7) at N=2 and (0,1,4,7) at N=3: %s (one two-qubit gate, '
                         'single-qubit gates on different wires, a backward-map gate)%s' % ('per N the 82 programs that are a permutation of the four letters or start with the two-qubit gate' if quick else 'all 256 per N', '' if quick else '; N=3 also over the 5 letters (1,3,4,5,7)')))
    out.append(Leg('torch_programs', fn_torch_programs, t2 + t3, chunk=2, timeout=3000,
                   bound='torchclifford: all programs of length <= %d over 8 (N=2) / 9 (N=3) letters; uncompiled / copy / composed' % (2 if quick else 3)))
    tg = [it for N in (2, 3) for it in circ.gate_specs('torch', N, tier, 'C10')]
    out.append(Leg('torch_gates', fn_torch_gates, tg, chunk=2, timeout=3000,
                   bound='torchclifford: generator / map gates on ascending tuples (reduced strides), clifford_rotation_gate'))
    tl = circ.disjoint_tuples('torch', 3, 2)
    ri = regen_items(tier)
    out.append(Leg('regenerate', fn_regenerate, ri, chunk=4, exhaustive=False, supplementary=True, timeout=3000,
                   bound='both packages, N=2,3: a generator gate on (0,1) / (1,) / (0,2) / (2,) with 2 old generators x every other signed generator on those qubits (%d cases): gate and circuits [G, H(0), G_old] '
                         '(CliffordCircuit, Circuit) compiled -> set_generator -> compiled again; forward/backward/set/use; copy of the compiled circuit regenerated and compiled while the original is re-read and recompiled; '
                         'forward = reference with the new generator, backward = inverse, both round trips, whole Pauli group + signed states' % len(ri)))
    qi = qformat_items()
    out.append(Leg('qubit_containers', fn_qubit_formats, qi, chunk=4, exhaustive=False, supplementary=True, timeout=3000,
                   bound='both packages, N=3,4: every ordered pair of %d rotation generators built with clifford_rotation_gate(generator, qubits) (%d pairs), qubits given as list / tuple / int64 array / int32 array / range / torch long tensor; '
                         'CliffordCircuit and Circuit, plain and compiled: layer count, forward = reference, backward = inverse, both round trips' % (len(_QGENS), len(qi))))
    out.append(Leg('torch_layers', fn_torch_layers, tl, chunk=2, bound='torchclifford: ordered tuples (<=2) of disjoint base letters as one CliffordLayer'))
    return out
