"""C10 backward is the exact inverse of forward.

Same gate programs, configurations and inputs as C09 (pcverif.circ).  For every gate (specified by
generator, forward map only, backward map only, both maps, named constructor, clifford_rotation_gate;
bare / compiled / copied), every layer (direct / take-built / compiled / copied) and every circuit
configuration (CliffordCircuit / Circuit x uncompiled / layers compiled / circuit compiled / copy /
copy of compiled / composed at every split point / composed then compiled), on TWO FRESH objects:
  (a) backward(forward(x)) == x,
  (b) backward(x) == reference inverse automorphism of x, then forward(backward(x)) == x,
for x = one PauliList holding the complete Pauli group with all four phases (strings and phases
compared element-exact) and signed stabilizer states of every rank (strings, phases mod 4, rank)."""
import itertools
from .. import circ, dom
from ..core import Leg

PROP = 'C10'
SUB7 = (0, 7, 8, 11, 13, 14, 15)     # N=3 sub-alphabet of the quick length-3 leg
RULE = ('all gate programs of length <= k over the C09 alphabet x every configuration x {whole Pauli group list, 2 signed '
        'tableaux x every rank} x both orders (backward after forward on a fresh object, forward after backward on a second '
        'fresh object), plus the complete single-gate and single-layer domains; a case = one real round trip / backward '
        'call compared with the identity / the reference inverse; non-trivial = the reference automorphism is not the identity; '
        'states = distinct reference automorphisms')
ASSUMPTIONS = ['bounded program length and N<=4',
               'generic gates on ascending qubit tuples only; map-less random gates excluded (not deterministic)',
               'a gate given BOTH maps is only exercised with mutually inverse maps (the class docstring requires it)',
               'Circuit (with measurements) has no copy()/compose(); only unitary circuits are in scope of C10',
               'stabilizer states compared bit-exactly after the round trip; backward alone compared with the reference inverse as density matrix + rank',
               'torch leg: uncompiled gates/layers/circuits with smaller bounds; compile-based configurations are attempted and reported when they raise']


def conventions():
    return circ.selfcheck()


def fn_programs(items):
    return circ.run_programs('C10', 'py', items)


def fn_gates(items):
    return circ.run_gates('C10', 'py', items)


def fn_layers(items):
    return circ.run_layers('C10', 'py', items)


def fn_torch_programs(items):
    return circ.run_programs('C10', 'torch', items)


def fn_torch_gates(items):
    return circ.run_gates('C10', 'torch', items)


def fn_torch_layers(items):
    return circ.run_layers('C10', 'torch', items)


def legs(tier, for_replay=False):
    quick = tier == 'quick'
    if not for_replay:
        dom.valid_maps(2)
        circ.warmup('py')
    k3, k2 = (2, 3) if quick else (4, 4)
    p3 = circ.programs('py', 3, k3)
    p2 = circ.programs('py', 2, k2)
    out = [
        Leg('programs_N3', fn_programs, p3, chunk=8 if quick else 48, src_states=len(p3), timeout=3000,
            bound='N=3: all %d programs of length <= %d over 17 letters x all configurations x both orders x (256-element group list + 6 states)' % (len(p3), k3)),
        Leg('programs_N2', fn_programs, p2, chunk=24 if quick else 48, src_states=len(p2), timeout=3000,
            bound='N=2: all %d programs of length <= %d over 12 letters x all configurations x both orders' % (len(p2), k2)),
    ]
    if quick:
        p3s = [[3, list(p)] for p in itertools.product(SUB7, repeat=3)]
        out.append(Leg('programs_N3_len3', fn_programs, p3s, chunk=8, src_states=len(p3s),
                       bound='N=3: all %d programs of length exactly 3 over the 7-letter sub-alphabet %s (H0, CNOT(2,1), CNOT(0,2), gen(0,1) -XZ, '
                             'clifford_rotation_gate(XIY), fmap(0,2), bmap(1,2)); the thorough tier covers length <= 4 over all 17 letters' % (len(p3s), SUB7)))
    if quick:
        p4s = sorted({tuple(p) for sub in ((11, 1, 8, 10), (11, 0, 15, 10)) for p in itertools.product(sub, repeat=4)})
        p4s = [[3, list(p)] for p in p4s]
        out.append(Leg('programs_N3_len4', fn_programs, p4s, chunk=8, src_states=len(p4s),
                       bound='N=3: all %d programs of length exactly 4 over the two 4-letter sub-alphabets (gen(0,1), H1, CNOT(0,2), gen(2)) and '
                             '(gen(0,1), H0, bmap(1,2), gen(2)): a gate sinks into a non-first layer next to another gate and a later gate overlaps only the sunk one' % len(p4s)))
    p4 = circ.programs('py', 4, 2 if quick else 3)
    out.append(Leg('programs_N4', fn_programs, p4, chunk=4 if quick else 16, src_states=len(p4), timeout=3000,
                   bound='N=4: all %d programs of length <= %d over 10 letters (two 2-qubit gates on interleaved wires (0,2),(1,3) can share a layer; '
                         '4-qubit global generator) x all configurations x (1024-element group list + 7 states)' % (len(p4), 2 if quick else 3)))
    gs = [it for N in (1, 2, 3) for it in circ.gate_specs('py', N, tier, 'C10')]
    out.append(Leg('gates', fn_gates, gs, chunk=16 if quick else 64, timeout=3000,
                   bound='N<=3: named gates and C(k) on every wire, generator gates (all strings, both signs), clifford_rotation_gate '
                         '(all full-width generators, both signs) and map gates (all 24 one-qubit maps; two-qubit maps stride %s of 11520) '
                         'on every ascending tuple, forward-only / backward-only / both; bare, compiled, copied, used-then-copied, in a layer, '
                         'in one-gate circuits' % ('97' if quick else '1 at N=2 (global gate) and 3 at N=3 (x 3 placements)')))
    ls = circ.disjoint_tuples('py', 3, 3) + circ.disjoint_tuples('py', 2, 2)
    out.append(Leg('layers', fn_layers, ls, chunk=8, bound='every ordered tuple of pairwise disjoint base letters (N=2,3) as one CliffordLayer: direct / take-built / compiled / copied'))
    if not for_replay:
        circ.warmup('torch')
    t3 = circ.programs('torch', 3, 2 if quick else 3)
    t2 = circ.programs('torch', 2, 2 if quick else 3)
    if quick:   # three-gate programs (the shortest in which layer packing can go wrong) over 4 of the 8 letters
        t2 = t2 + [[2, list(p)] for p in itertools.product((0, 1, 2, 5), repeat=3)]
    # four-gate programs: the shortest in which a gate sinks into a NON-first layer next to another gate and a later gate
    # overlaps only the sunk one (N=2: XZ(0,1), Y(1), H(0), bmap(0); N=3: XZ(0,1), X(2), H(0), bmap(1,2))
    if quick:     # all orders of the four letters and everything that starts with the two-qubit gate (82 programs per N); thorough: all 256
        t4 = [[N_, list(p)] for N_, sub in ((2, (0, 1, 2, 7)), (3, (0, 1, 4, 7))) for p in sorted(set(itertools.permutations(sub)) | {(1,) + q for q in itertools.product(sub, repeat=3)})]
    else:
        t4 = [[2, list(p)] for p in itertools.product((0, 1, 2, 7), repeat=4)] + [[3, list(p)] for p in itertools.product((0, 1, 4, 7), repeat=4)]
    if not quick:
        t4 += [[3, list(p)] for p in itertools.product((1, 3, 4, 5, 7), repeat=4)]
    out.append(Leg('torch_programs_len4', fn_torch_programs, t4, chunk=2, timeout=3000,
                   bound='torchclifford: 4-gate programs over the 4-letter sub-alphabets (0,1,2,7) at N=2 and (0,1,4,7) at N=3: %s (one two-qubit gate, '
                         'single-qubit gates on different wires, a backward-map gate)%s' % ('per N the 82 programs that are a permutation of the four letters or start with the two-qubit gate' if quick else 'all 256 per N', '' if quick else '; N=3 also over the 5 letters (1,3,4,5,7)')))
    out.append(Leg('torch_programs', fn_torch_programs, t2 + t3, chunk=2, timeout=3000,
                   bound='torchclifford: all programs of length <= %d over 8 (N=2) / 9 (N=3) letters; uncompiled / copy / composed' % (2 if quick else 3)))
    tg = [it for N in (2, 3) for it in circ.gate_specs('torch', N, tier, 'C10')]
    out.append(Leg('torch_gates', fn_torch_gates, tg, chunk=2, timeout=3000,
                   bound='torchclifford: generator / map gates on ascending tuples (reduced strides), clifford_rotation_gate'))
    tl = circ.disjoint_tuples('torch', 3, 2)
    out.append(Leg('torch_layers', fn_torch_layers, tl, chunk=2, bound='torchclifford: ordered tuples (<=2) of disjoint base letters as one CliffordLayer'))
    return out
