"""C02 Clifford rotation by a Pauli generator is conjugation by exp(i*pi/4*G).

All Hermitian generators x the complete Pauli group (as one PauliList, as single Paulis,
as polynomials), all valid maps, all valid tableaux, all masks; sequences G,-G and G^4."""
import itertools
import numpy as np
from .. import ref, dom, lib, stab
from ..core import Leg, V

PROP = 'C02'
RULE = ('(generator, operand) pairs: all Hermitian generators (4^n strings x +-) x every group element (all 4 phases) / '
        'every valid map / every valid tableau / every mask of matching size; non-trivial = operand anticommutes with the '
        'generator; each rotation executed on the real code and compared with U^dag P U from dense matrices and the reference table')
ASSUMPTIONS = ['bounded to N<=3 for operators (N<=2 maps/tableaux); masks embed n<=2 generators into N<=3']


def ref_rotate(g, p, Gs, Ps):
    """Reference: P -> P if [P,G]=0 else i*P*G (exactly signed)."""
    a = ref.anti(np.asarray(g)[None, :], Gs)
    mg, mp = ref.mul(Gs, Ps, np.asarray(g)[None, :], p)
    og = np.where(a[:, None] == 1, mg, Gs)
    op = np.where(a == 1, (mp + 1) % 4, Ps % 4)
    return og, op, a


def group_arrays(N):
    G = ref.all_g(N)
    Gs = np.concatenate([G] * 4)
    Ps = np.repeat(np.arange(4), len(G))
    return Gs, Ps


def embed_gen(g, maskbits, N):
    """n-qubit string placed on the True positions of mask (ascending)."""
    out = np.zeros(2 * N, dtype=np.int64)
    qs = [q for q in range(N) if maskbits[q]]
    for k, q in enumerate(qs):
        out[2 * q] = g[2 * k]
        out[2 * q + 1] = g[2 * k + 1]
    return out


def fn_ops(items):
    """item = [N, gi, pkg]: generator string index; both signs; operands = whole group."""
    n = nt = 0
    viol = []
    samples = []
    for N, gi, pkg in items:
        G = ref.all_g(N)
        g = G[gi]
        Gs, Ps = group_arrays(N)
        for p in (0, 2):
            eg, ep, a = ref_rotate(g, p, Gs, Ps)
            # literal statement on dense matrices (N<=2): U^dag P U
            if N <= 2 and pkg == 'py':
                U = ref.rot_unitary(g, p, N)
                for k in range(len(Gs)):
                    if not np.allclose(U.conj().T @ ref.mat(Gs[k], Ps[k]) @ U, ref.mat(eg[k], ep[k])):
                        raise AssertionError('reference self-check failed')  # oracle bug, not a verdict
            if pkg == 'py':
                gen = lib.P(g, p)
                lst = lib.PL(Gs, Ps)
                ret = lst.rotate_by(gen)
                og, op = np.asarray(lst.gs), np.asarray(lst.ps)
            else:
                gen = lib.tP(g, p)
                lst = lib.tPL(Gs, Ps)
                ret = lst.rotate_by(gen)
                og, op = lib.t2n(lst.gs), lib.t2n(lst.ps)
            n += len(Gs)
            nt += int(a.sum())
            if ret is not lst:
                viol.append(V('C02/list/%s/return' % pkg, [N, gi, pkg], 'rotate_by does not return the receiver'))
            if og.shape != eg.shape or (og != eg).any() or (op % 4 != ep).any():
                bad = np.argwhere((og != eg).any(-1) | (op % 4 != ep))[0][0] if og.shape == eg.shape else 0
                kind = 'anticommuting' if a[bad] else 'commuting'
                viol.append(V('C02/list/%s/%s/sign=%s' % (pkg, kind, '+-'[p // 2]), [N, gi, pkg],
                              'rotate %s by %s -> %s, U^dag P U = %s' % (ref.g_to_str(Gs[bad], Ps[bad]), ref.g_to_str(g, p),
                                                                        (og[bad].tolist(), int(op[bad])) if og.shape == eg.shape else og.shape,
                                                                        ref.g_to_str(eg[bad], ep[bad]))))
            # histories on the live object: then -G restores; G four times restores
            if pkg == 'py':
                lst.rotate_by(lib.P(g, (p + 2) % 4))
                n += len(Gs)
                if (np.asarray(lst.gs) != Gs).any() or (np.asarray(lst.ps) % 4 != Ps).any():
                    viol.append(V('C02/history/py/G,-G', [N, gi, pkg], 'rotate by %s then by its negative does not restore the list' % ref.g_to_str(g, p)))
                for _ in range(4):
                    lst.rotate_by(lib.P(g, p))
                n += 4 * len(Gs)
                if (np.asarray(lst.gs) != Gs).any() or (np.asarray(lst.ps) % 4 != Ps).any():
                    viol.append(V('C02/history/py/G^4', [N, gi, pkg], 'four rotations by %s do not restore the list' % ref.g_to_str(g, p)))
                # single Pauli objects and a polynomial (coefficients untouched)
                if N <= 2:
                    for k in range(len(Gs)):
                        P1 = lib.P(Gs[k], Ps[k])
                        P1.rotate_by(gen)
                        n += 1
                        if (np.asarray(P1.g) != eg[k]).any() or int(P1.p) % 4 != ep[k]:
                            viol.append(V('C02/pauli/py/%s' % ('anticommuting' if a[k] else 'commuting'), [N, gi, pkg],
                                          'Pauli %s rotate_by %s -> %s, expected %s' % (ref.g_to_str(Gs[k], Ps[k]), ref.g_to_str(g, p),
                                                                                      ref.g_to_str(P1.g, P1.p), ref.g_to_str(eg[k], ep[k]))))
                cs = np.array([(1 + k % 3) * (1j ** (k % 4)) / 2 for k in range(len(Gs))])
                try:
                    poly = lib.POLY(Gs, Ps, cs)
                    poly.rotate_by(gen)
                    n += len(Gs)
                    if (np.asarray(poly.gs) != eg).any() or (np.asarray(poly.ps) % 4 != ep).any() or not np.array_equal(np.asarray(poly.cs), cs):
                        viol.append(V('C02/poly/py', [N, gi, pkg], 'polynomial rotate_by %s: terms or coefficients wrong' % ref.g_to_str(g, p)))
                except Exception as e:
                    viol.append(V('C02/poly/py/raises-%s' % type(e).__name__, [N, gi, pkg], 'polynomial rotate_by raised %s' % e))
            else:
                m = lib.torch_mods()
                if N <= 2:
                    for k in range(0, len(Gs), 3):
                        P1 = lib.tP(Gs[k], Ps[k])
                        P1.rotate_by(gen)
                        n += 1
                        if (lib.t2n(P1.g) != eg[k]).any() or int(lib.t2n(P1.p)) % 4 != ep[k]:
                            viol.append(V('C02/pauli/torch', [N, gi, pkg], 'torch Pauli %s rotate_by %s wrong' % (ref.g_to_str(Gs[k], Ps[k]), ref.g_to_str(g, p))))
        if not samples and gi == 4 ** N - 1:
            eg, ep, a = ref_rotate(g, 2, Gs, Ps)
            k = int(np.argmax(a))
            samples.append({'N': N, 'generator': ref.g_to_str(g, 2), 'operand': ref.g_to_str(Gs[k], Ps[k]), 'image': ref.g_to_str(eg[k], ep[k])})
    return {'n': n, 'nt': nt, 'viol': viol, 'samples': samples}


def _layout_views(Gs, Ps, N):
    """Operand lists that are VIEWS / non-default memory layouts of a base list, as the library's own
    slicing produces them: (name, build(lib objects) -> PauliList, row selection, column selection)."""
    L = len(Gs)
    out = []
    for nm, sl in (('[::2]', slice(None, None, 2)), ('[::-1]', slice(None, None, -1)), ('[1::3]', slice(1, None, 3)),
                   ('[5:2:-1]', slice(5, 2, -1)), ('[3:9]', slice(3, 9))):
        out.append((nm, (lambda sl: lambda base: base[sl])(sl), np.arange(L)[sl], None))
    return out


def fn_layouts(items):
    """item = [N, gi, kind]: rotate_by / transform_by on operands that are strided views (slices of a
    PauliList / PauliPolynomial as returned by __getitem__), Fortran-ordered arrays, and column-sliced
    sub-register lists; the result must equal the reference on exactly the selected rows."""
    n = nt = 0
    viol = []
    for N, gi, kind in items:
        g = ref.all_g(N)[gi]
        Gs, Ps = group_arrays(N)
        for p in (0, 2):
            gen = lib.P(g, p)
            eg, ep, a = ref_rotate(g, p, Gs, Ps)
            M = lib.pc.clifford_rotation_map(lib.P(g, p))
            for op in ('rotate_by', 'transform_by'):
                for nm, build, rows, _ in _layout_views(Gs, Ps, N):
                    for cls in ('PauliList', 'PauliPolynomial'):
                        base = lib.PL(Gs, Ps) if cls == 'PauliList' else lib.POLY(Gs, Ps, np.arange(len(Gs)) + 1.0)
                        view = build(base)
                        if op == 'rotate_by':
                            view.rotate_by(gen)
                        else:
                            view.transform_by(M)
                        n += len(rows)
                        nt += int(a[rows].sum())
                        og, opp = np.asarray(view.gs), np.asarray(view.ps) % 4
                        if og.shape != eg[rows].shape or (og != eg[rows]).any() or (opp != ep[rows]).any():
                            viol.append(V('C02/layout/%s/%s/view%s' % (op, cls, nm), [N, gi, kind], '%s of the slice %s of the whole-group %s by %s differs from U^dag P U on the selected rows' % (op, nm, cls, ref.g_to_str(g, p))))
                # Fortran-ordered table and column-sliced sub-register list (first N qubits of an N+1 qubit list)
                F = lib.pc.PauliList(np.asfortranarray(np.array(Gs, dtype=lib.INT)), np.array(Ps, dtype=lib.INT))
                big = np.concatenate([np.array(Gs, dtype=lib.INT), np.ones((len(Gs), 2), dtype=lib.INT)], axis=1)
                Csl = lib.pc.PauliList(big[:, :2 * N], np.array(Ps, dtype=lib.INT))
                for nm, obj in (('fortran', F), ('column-slice', Csl)):
                    if op == 'rotate_by':
                        obj.rotate_by(gen)
                    else:
                        obj.transform_by(M)
                    n += len(Gs)
                    if (np.asarray(obj.gs) != eg).any() or (np.asarray(obj.ps) % 4 != ep).any():
                        viol.append(V('C02/layout/%s/PauliList/%s' % (op, nm), [N, gi, kind], '%s of a %s list by %s differs from U^dag P U' % (op, nm, ref.g_to_str(g, p))))
    return {'n': n, 'nt': nt, 'viol': viol}


def fn_layouts_torch(items):
    """item = [N, gi]: torchclifford rotate_by / transform_by (unmasked and through every 1- and 2-qubit mask) on
    operand lists whose tensors are non-contiguous views: step slices of a PauliList, transposed storage, a
    column window of a wider tensor.  Result must equal the reference on the selected rows."""
    m = lib.torch_mods()
    torch = m['torch']
    n = nt = 0
    viol = []
    for N, gi in items:
        Gs, Ps = group_arrays(N)
        L = len(Gs)
        masks = [None] + [c for k in (1, 2) if k < N for c in itertools.combinations(range(N), k)]
        for qs in masks:
            nn = N if qs is None else len(qs)
            g = ref.all_g(nn)[gi % (4 ** nn)]
            if not g.any():
                g = ref.all_g(nn)[1]
            mb = None
            if qs is not None:
                mb = np.zeros(N, dtype=bool)
                mb[list(qs)] = True
            big = g if qs is None else embed_gen(g, mb, N)
            for p in (0, 2):
                eg, ep, a = ref_rotate(big, p, Gs, Ps)
                gen = lib.tP(g, p)
                M = m['tst'].clifford_rotation_map(lib.tP(g, p))

                def layouts():
                    base = lib.tPL(Gs, Ps)
                    yield 'slice[::2]', base[slice(None, None, 2)], np.arange(L)[::2]
                    base = lib.tPL(Gs, Ps)
                    yield 'slice[1::3]', base[slice(1, None, 3)], np.arange(L)[1::3]
                    t = lib.tT(np.ascontiguousarray(Gs.T)).T            # transposed storage
                    yield 'transposed', m['tpa'].PauliList(t, lib.tT(Ps)), np.arange(L)
                    w = lib.tT(np.concatenate([Gs, np.ones((L, 2))], axis=1))[:, :2 * N]   # column window
                    yield 'column-window', m['tpa'].PauliList(w, lib.tT(Ps)), np.arange(L)
                for opname in ('rotate_by', 'transform_by'):
                    for lname, obj, rows in layouts():
                        try:
                            if opname == 'rotate_by':
                                obj.rotate_by(gen) if mb is None else obj.rotate_by(gen, mask=mb.copy())
                            else:
                                obj.transform_by(M) if mb is None else obj.transform_by(M, mask=torch.tensor(mb.copy()))
                        except Exception as e:
                            viol.append(V('C02/layout/torch/%s/%s/raises-%s' % (opname, lname, type(e).__name__), [N, gi], 'torch %s on a %s list (mask %s) raised %s: %s' % (opname, lname, qs, type(e).__name__, e)))
                            continue
                        og, op_ = lib.t2n(obj.gs), lib.t2n(obj.ps) % 4
                        n += len(rows)
                        nt += int(a[rows].sum())
                        if og.shape != eg[rows].shape or (og != eg[rows]).any() or (op_ != ep[rows]).any():
                            viol.append(V('C02/layout/torch/%s/%s/%s' % (opname, lname, 'unmasked' if mb is None else 'masked'), [N, gi],
                                          'torch %s of a %s list by %s (mask %s) differs from U^dag P U on the selected rows' % (opname, lname, ref.g_to_str(g, p), qs)))
    return {'n': n, 'nt': nt, 'viol': viol}


def fn_mask(items):
    """item = [N, n, mi, pkg]: every generator of n qubits (both signs) through the mi-th mask of
    size n on N qubits; operands = whole N-qubit group.  Untouched columns bit-identical."""
    n_ = nt = 0
    viol = []
    for N, nn, mi, pkg in items:
        masks = [c for c in itertools.combinations(range(N), nn)]
        qs = masks[mi]
        mb = np.zeros(N, dtype=bool)
        mb[list(qs)] = True
        Gs, Ps = group_arrays(N)
        out_cols = np.repeat(~mb, 2)
        for g in ref.all_g(nn):
            for p in (0, 2):
                big = embed_gen(g, mb, N)
                eg, ep, a = ref_rotate(big, p, Gs, Ps)
                try:
                    if pkg == 'py':
                        lst = lib.PL(Gs, Ps)
                        gen = lib.P(g, p)
                        lst.rotate_by(gen, mask=mb.copy())
                        og, op = np.asarray(lst.gs), np.asarray(lst.ps)
                        # the SAME generator object on single operators (Pauli / PauliMonomial), one after another
                        sel = list(range((int(ref.gindex(g)) + p) % 5, len(Gs), max(1, len(Gs) // 24)))
                        for k in sel:
                            for cls in ('Pauli', 'PauliMonomial'):
                                X = lib.P(Gs[k], Ps[k]) if cls == 'Pauli' else lib.MONO(Gs[k], Ps[k], 0.5 - 2j)
                                X.rotate_by(gen, mask=mb.copy())
                                n_ += 1
                                if (np.asarray(X.g) != eg[k]).any() or int(X.p) % 4 != ep[k]:
                                    viol.append(V('C02/mask/%s/single-operand/%s' % (pkg, cls), [N, nn, mi, pkg], '%s %s rotated by %s (the generator object used before) on qubits %s -> %s, expected %s' % (
                                        cls, ref.g_to_str(Gs[k], Ps[k]), ref.g_to_str(g, p), list(qs), ref.g_to_str(np.asarray(X.g), int(X.p)), ref.g_to_str(eg[k], ep[k]))))
                                    break
                        if (np.asarray(gen.g) != g).any() or int(gen.p) % 4 != p:
                            viol.append(V('C02/mask/%s/generator-modified' % pkg, [N, nn, mi, pkg], 'masked rotate_by on qubits %s changed its generator %s into %s' % (
                                list(qs), ref.g_to_str(g, p), ref.g_to_str(np.asarray(gen.g), int(gen.p)))))
                    else:
                        lst = lib.tPL(Gs, Ps)
                        lst.rotate_by(lib.tP(g, p), mask=mb.copy())
                        og, op = lib.t2n(lst.gs), lib.t2n(lst.ps)
                except Exception as e:
                    viol.append(V('C02/mask/%s/raises-%s' % (pkg, type(e).__name__), [N, nn, mi, pkg], 'masked rotate_by raised %s: %s' % (type(e).__name__, e)))
                    continue
                n_ += len(Gs)
                nt += int(a.sum())
                if (og[:, out_cols] != Gs[:, out_cols]).any():
                    viol.append(V('C02/mask/%s/untouched-columns' % pkg, [N, nn, mi, pkg], 'rotation by %s on qubits %s changed other qubits' % (ref.g_to_str(g, p), list(qs))))
                elif (og != eg).any() or (op % 4 != ep).any():
                    bad = np.argwhere((og != eg).any(-1) | (op % 4 != ep))[0][0]
                    viol.append(V('C02/mask/%s/%s' % (pkg, 'prefix' if list(qs) == list(range(nn)) else 'nonprefix'), [N, nn, mi, pkg],
                                  'rotate %s by %s on qubits %s -> %s, expected %s' % (ref.g_to_str(Gs[bad], Ps[bad]), ref.g_to_str(g, p), list(qs),
                                                                                     ref.g_to_str(og[bad], op[bad]), ref.g_to_str(eg[bad], ep[bad]))))
    return {'n': n_, 'nt': nt, 'viol': viol}


def fn_maps(items):
    """item = [N, ti]: ti-th symplectic table x all sign patterns x all generators: rotating a
    CliffordMap rotates every row; the result is again a valid map."""
    n = nt = 0
    viol = []
    for N, ti in items:
        t = dom.symplectic_tables(N)[ti]
        herm = dom.hermitian_paulis(N)
        for s in dom.sign_patterns(2 * N):
            for g, p in herm:
                M = lib.CM(t, s)
                M.rotate_by(lib.P(g, p))
                eg, ep, a = ref_rotate(g, p, t, s)
                n += 1
                nt += int(a.any())
                og, op = np.asarray(M.gs), np.asarray(M.ps)
                if (og != eg).any() or (op % 4 != ep).any():
                    viol.append(V('C02/map/rows', [N, ti], 'map#%d signs %s rotate_by %s: rows wrong' % (ti, s.tolist(), ref.g_to_str(g, p))))
                elif not ref.is_valid_map(og, op):
                    viol.append(V('C02/map/invalid', [N, ti], 'rotated map is not a valid map'))
    return {'n': n, 'nt': nt, 'viol': viol}


def fn_states(items):
    """item = [N, idx]: tableau x all generators: rho -> U^dag rho U, valid, G,-G and G^4 restore
    the concrete tableau; N=2 also 1-qubit generators through both masks."""
    n = nt = 0
    viol = []
    keys = set()
    for N, idx in items:
        gs0, ps0, r0 = stab.tableaux(N)[idx]
        rho0 = stab.rho_of(gs0, ps0, r0)
        kind = 'pure' if r0 == 0 else 'mixed'
        cases = [(g, p, None) for g, p in dom.hermitian_paulis(N)]
        if N >= 2:
            for q in range(N):
                mb = np.zeros(N, dtype=bool)
                mb[q] = True
                cases += [(g, p, mb) for g, p in dom.hermitian_paulis(1)]
        for g, p, mb in cases:
            st = lib.ST(gs0, ps0, r0)
            big = g if mb is None else embed_gen(g, mb, N)
            if mb is None:
                st.rotate_by(lib.P(g, p))
            else:
                st.rotate_by(lib.P(g, p), mask=mb.copy())
            n += 1
            U = ref.rot_unitary(big, p, N)
            exp = U.conj().T @ rho0 @ U
            bad = stab.state_check(st, N)
            keys.add(hash(stab.key_arrays(st.gs, st.ps, st.r)))
            changed = not np.allclose(exp, rho0)
            nt += int(changed)
            where = 'state' if mb is None else 'state-mask'
            if bad:
                viol.append(V('C02/%s/invalid/%s' % (where, kind), [N, idx], 'rotate_by %s on %s gives invalid state: %s' % (ref.g_to_str(g, p), stab.describe(gs0, ps0, r0), bad)))
                continue
            if int(st.r) != r0 or ref.rho_key(stab.rho_of(st.gs, st.ps, st.r)) != ref.rho_key(exp):
                viol.append(V('C02/%s/denotation/%s' % (where, kind), [N, idx], 'rotate_by %s (mask %s) on %s: state is not U^dag rho U' % (
                    ref.g_to_str(g, p), None if mb is None else mb.tolist(), stab.describe(gs0, ps0, r0))))
                continue
            # history: -G restores the concrete tableau (all rows incl. destabilizers)
            if mb is None:
                st.rotate_by(lib.P(g, (p + 2) % 4))
                n += 1
                if stab.key_arrays(st.gs, st.ps, st.r) != stab.key_arrays(gs0, ps0, r0):
                    viol.append(V('C02/state/history/G,-G/%s' % kind, [N, idx], 'rotate by %s then its negative does not restore the tableau' % ref.g_to_str(g, p)))
    return {'n': n, 'nt': nt, 'viol': viol, 'keys': keys}


def fn_states_n3(items):
    """item = [budget, lo, hi]: N=3 states from the deterministic BFS set (c06._n3_states): all 128 generators:
    rho -> U^dag rho U, valid, G then -G restores the tableau."""
    from . import c06
    n = nt = 0
    viol = []
    N = 3
    for budget, lo, hi in items:
        if budget not in c06._N3:
            c06._N3[budget] = c06._n3_states(budget, 0)
        for i in range(lo, min(hi, len(c06._N3[budget]))):
            gs0, ps0, r0 = c06._N3[budget][i]
            rho0 = stab.rho_of(gs0, ps0, r0)
            for g, p in dom.hermitian_paulis(N):
                st = lib.ST(gs0, ps0, r0)
                st.rotate_by(lib.P(g, p))
                n += 1
                U = ref.rot_unitary(g, p, N)
                exp = U.conj().T @ rho0 @ U
                nt += int(not np.allclose(exp, rho0))
                bad = ref.tableau_invariant(np.asarray(st.gs), np.asarray(st.ps), int(st.r))
                if bad or int(st.r) != r0 or not np.allclose(stab.rho_of(st.gs, st.ps, st.r), exp):
                    viol.append(V('C02/state-N3/%s' % ('invalid' if bad else 'denotation'), [budget, i, i + 1], 'N=3 state #%d rotate_by %s wrong (%s)' % (i, ref.g_to_str(g, p), bad)))
                    continue
                st.rotate_by(lib.P(g, (p + 2) % 4))
                if stab.key_arrays(st.gs, st.ps, st.r) != stab.key_arrays(gs0, ps0, r0):
                    viol.append(V('C02/state-N3/history/G,-G', [budget, i, i + 1], 'N=3 state #%d: G then -G does not restore the tableau' % i))
    return {'n': n, 'nt': nt, 'viol': viol}


def fn_borrowed(items):
    """item = [N, pkg, k0, step]: the generator is an ELEMENT taken by indexing from a PauliList of all signed Hermitian
    generators (numpy: a row view + numpy integer phase; torch: row view + 0-dim view of the list's phase tensor) and the
    same element object rotates the whole group twice in a row (fresh receiver each time and the same receiver twice);
    afterwards the lending list must be unchanged."""
    n = nt = 0
    viol = []
    from .. import dom
    for N, pkg, k0, step in items:
        herm = dom.hermitian_paulis(N, include_identity=False)
        Lg = np.array([g for g, p in herm])
        Lp = np.array([p for g, p in herm])
        Gs, Ps = group_arrays(N)
        mkL = lib.PL if pkg == 'py' else lib.tPL
        rd = (lambda x: (np.array(x.gs), np.array(x.ps))) if pkg == "py" else (lambda x: (np.array(lib.t2n(x.gs)), np.array(lib.t2n(x.ps))))
        lender = mkL(Lg, Lp)
        for k in range(k0, len(herm), step):
            g, p = herm[k]
            G = lender[k]
            e1g, e1p, a = ref_rotate(g, p, Gs, Ps)
            e2g, e2p, _ = ref_rotate(g, p, e1g, e1p)
            try:
                lst = mkL(Gs, Ps)
                lst.rotate_by(G)
                o1 = rd(lst)
                lst.rotate_by(G)
                o2 = rd(lst)
                lst3 = mkL(Gs, Ps)
                lst3.rotate_by(G)
                o3 = rd(lst3)
            except Exception as e:
                viol.append(V('C02/borrowed-generator/%s/raises-%s' % (pkg, type(e).__name__), [N, pkg, k0, step], 'rotate_by(list[%d] = %s) raised %s' % (k, ref.g_to_str(g, p), e)))
                continue
            n += 3 * len(Gs)
            nt += 3 * int(a.sum())
            for nm, (og, op), (eg, ep) in (('first-use', o1, (e1g, e1p)), ('second-use-same-receiver', o2, (e2g, e2p)), ('third-use-fresh-receiver', o3, (e1g, e1p))):
                if og.shape != eg.shape or (og != eg).any() or (op % 4 != ep).any():
                    viol.append(V('C02/borrowed-generator/%s/%s' % (pkg, nm), [N, pkg, k0, step], '%s N=%d: generator = element %d (%s) of a PauliList, %s: not U^dag P U' % (pkg, N, k, ref.g_to_str(g, p), nm)))
                    break
        lg, lp = rd(lender)
        if (lg != Lg).any() or (lp % 4 != Lp).any() or (pkg == 'torch' and (lp != Lp).any()):
            viol.append(V('C02/borrowed-generator/%s/lender-changed' % pkg, [N, pkg, k0, step], '%s N=%d: the PauliList whose elements served as generators changed: phases %s, were %s' % (pkg, N, lp.tolist()[:10], Lp.tolist()[:10])))
    return {'n': n, 'nt': nt, 'viol': viol}


def legs(tier):
    out = []
    Ns = (1, 2) if tier == 'quick' else (1, 2, 3)
    oN = (1, 2, 3) if tier == 'quick' else (1, 2, 3, 4)
    out.append(Leg('operators', fn_ops, [[N, gi, 'py'] for N in oN for gi in range(4 ** N)], chunk=4,
                   src_states=sum(4 * 4 ** N for N in oN),
                   bound='N<=%d: all 2*4^N generators x all 4*4^N operands (list, single Pauli N<=2, polynomial); G,-G and G^4 histories' % oN[-1]))
    mitems = []
    for N in (1, 2, 3, 4):
        for nn in (1, 2, 3):
            if nn > N or (nn == N and N == 4) or (tier == 'quick' and N == 4 and nn < 3):
                continue            # nn == N: an explicit all-True mask; quick at N=4: the four 3-qubit masks only
            for mi in range(len(list(itertools.combinations(range(N), nn)))):
                mitems.append([N, nn, mi, 'py'])
    out.append(Leg('masks', fn_mask, mitems, chunk=1, bound='all masks of size n<=N for N<=3 (n=N: explicit all-True mask) and %s of N=4: all generators of n qubits (both signs) x whole N-qubit group as a list; the same generator object reused on single Pauli / PauliMonomial operands; generator unchanged' % ('the 3-qubit masks' if tier == 'quick' else 'all masks of size <=3')))
    out.append(Leg('maps_N1', fn_maps, [[1, i] for i in range(6)], chunk=1, src_states=24, bound='all 24 maps x 8 generators'))
    out.append(Leg('maps_N2', fn_maps, [[2, i] for i in range(720)], chunk=8, src_states=11520, bound='all 11520 maps x 32 generators'))
    for N in (1, 2):
        stab.tableaux(N)
        stab.valid_keyset(N)
    out.append(Leg('states_N1', fn_states, [[1, i] for i in range(48)], chunk=6, src_states=48, bound='all 48 tableaux x 8 generators'))
    out.append(Leg('states_N2', fn_states, [[2, i] for i in range(34560)], chunk=80, src_states=34560,
                   bound='all 34560 tableaux x (32 generators + 16 masked 1-qubit generators)'))
    nb = 204 if tier == "quick" else 4002
    out.append(Leg('states_N3', fn_states_n3, [[nb, lo, lo + 20] for lo in range(0, nb, 20)], chunk=1, exhaustive=False, supplementary=True,
                   bound='%d distinct N=3 tableaux (BFS from constructors, all ranks) x all 128 generators' % nb))
    out.append(Leg('operand_layouts', fn_layouts, [[N, gi, 'views'] for N in (1, 2) for gi in range(4 ** N)] + [[3, gi, 'views'] for gi in range(0, 64, 1 if tier != 'quick' else 5)], chunk=2,
                   bound='rotate_by and transform_by(rotation map) on strided views ([::2], [::-1], [1::3], [5:2:-1], [3:9]) of the whole-group PauliList / PauliPolynomial, on Fortran-ordered and column-sliced lists; all generators N<=2 (N=3: %s)' % ('all' if tier != 'quick' else 'every 5th')))
    from .c03 import fn_rotmap
    out.append(Leg('rotation_map_histories', fn_rotmap, [[N, gi] for N in (1, 2, 3) for gi in range(4 ** N)], chunk=4,
                   bound='all Hermitian generators N<=3: clifford_rotation_map(G) vs rotate_by(G) vs U^dag P U on the whole group; history: mutate the returned map in place, request it again'))
    tN = (1, 2, 3)
    out.append(Leg('torch_operators', fn_ops, [[N, gi, 'torch'] for N in tN for gi in range(4 ** N)], chunk=2,
                   bound='torchclifford N in %s: all generators x whole group' % (tN,)))
    tm = [[N, nn, mi, 'torch'] for N in (2, 3, 4) for nn in (1, 2, 3) if nn < N for mi in range(len(list(itertools.combinations(range(N), nn)))) if N < 4 or nn == 2 or tier != 'quick']
    out.append(Leg('torch_layouts', fn_layouts_torch, [[N, gi] for N in (2, 3) for gi in range(1, 4 ** N, 3 if N == 2 else 13)], chunk=1,
                   bound='torchclifford: rotate_by / transform_by, unmasked and through every 1- and 2-qubit mask, on step-sliced, transposed and column-window operand tensors (N=2,3; generators on a stride)'))
    out.append(Leg('torch_masks', fn_mask, tm, chunk=1,
                   bound='torchclifford: every mask of size n<N for N=2,3 and every 2-qubit mask of N=4 (thorough: every mask of N=4) x all generators of n qubits x whole N-qubit group'))
    bitems = [[N, pkg, k0, 4] for pkg in ('py', 'torch') for N in (1, 2, 3) for k0 in range(4)]
    out.append(Leg('borrowed_generators', fn_borrowed, bitems, chunk=1, bound='both packages, N<=3: every signed Hermitian generator taken as an ELEMENT of a PauliList (row view, 0-dim phase view) and used three times (same receiver twice, fresh receiver) on the whole Pauli group; lending list unchanged'))
    return out
