"""C06 Measurement follows the Born rule and the projection postulate.

From every valid tableau (N<=2) every commuting list of signed Hermitian observables
(L=1, L=2; L=3 thorough) is measured on the real code under EVERY coin string the kernel
consumes (stateless exploration of the coin tree); each leaf is compared with the
density-matrix trajectory: outcome set, probabilities, post-state, rank, repetition."""
import itertools
import math
import numpy as np
from .. import ref, dom, lib, rng, stab
from ..core import Leg, V

PROP = 'C06'
RULE = ('(tableau, signed commuting observable list, coin string) triples; the coin tree of every (tableau, list) is '
        'enumerated completely; non-trivial = at least one observable undetermined (a coin is consumed) or a '
        'deterministic outcome of -1; states = source tableaux + distinct post-measurement tableaux')
ASSUMPTIONS = ['MT19937 bits are fair and independent (each coin string of length n has weight 2^-n)',
               'bounded to N<=2 (all tableaux) and N=3 (reachable representatives)']

_ref_cache = {}


def ref_traj(rho_m, rkey, obs):
    """Reference: all outcome tuples with non-zero probability.
    obs = tuple of (gtuple, p).  Returns (n_random, {outcomes: (prob, post_key, post_rank)})."""
    k = (rkey, obs)
    got = _ref_cache.get(k)
    if got is not None:
        return got
    d = rho_m.shape[0]
    branches = {(): (1.0, rho_m)}
    nrand = 0
    for g, p in obs:
        O = ref.mat(np.array(g), p)
        new = {}
        rand_here = False
        for outs, (pr, rm) in branches.items():
            for b in (0, 1):
                Pi = (np.eye(d) + (-1) ** b * O) / 2
                un = Pi @ rm @ Pi
                q = float(np.trace(un).real)
                if q > 1e-12:
                    new[outs + (b,)] = (pr * q, un / q)
                    if q < 1 - 1e-9:
                        rand_here = True
        branches = new
        nrand += int(rand_here)
    out = {}
    for outs, (pr, rm) in branches.items():
        ev = np.linalg.eigvalsh(rm)
        out[outs] = (pr, ref.rho_key(rm), int((ev > 1e-9).sum()))
    res = (nrand, out)
    if len(_ref_cache) < 400000:
        _ref_cache[k] = res
    return res


def _snap(x):
    return (np.array(x.gs).astype(np.int64).tobytes(), (np.array(x.ps).astype(np.int64) % 4).tobytes(), int(getattr(x, 'r', -1)))


def mk_operand(obs, form, N):
    """The observable list handed to measure() in one of the accepted forms; returns (O, keep) where
    keep = objects whose arrays must be unchanged afterwards."""
    gl = [list(g) for g, p in obs]
    pl = [p for g, p in obs]
    if form == 'list':
        O = lib.PL(gl, pl)
        return O, [O]
    if form == 'fortran':
        O = lib.pc.PauliList(np.asfortranarray(np.array(gl, dtype=lib.INT)), np.array(pl, dtype=lib.INT))
        return O, [O]
    if form in ('view', 'view-rev'):
        junk = [1] * (2 * N)
        rows, phs = [junk], [2]
        for g, p in zip(gl, pl):
            rows += [g, junk]
            phs += [p, 2]
        big = lib.PL(rows, phs)
        if form == 'view':
            O = big[1::2]
        else:
            rb = lib.PL(rows[::-1], phs[::-1])
            big = rb
            O = lib.pc.PauliList(rb.gs[::-1][1::2], rb.ps[::-1][1::2])
        return O, [O, big]
    raise ValueError(form)


def check_one(N, gs0, ps0, r0, obs, where, viol, item, form='list', operand=None):
    """Explore the coin tree of one (state, list); returns (#runs, nontrivial?)."""
    rho0 = stab.rho_of(gs0, ps0, r0)
    rkey = ref.rho_key(rho0)
    nrand, expect = ref_traj(rho0, rkey, obs)
    if operand is not None:
        O, keep = operand, [operand]
    else:
        O, keep = mk_operand(obs, form, N)
    before = [_snap(x) for x in keep]
    kind = 'pure' if r0 == 0 else 'mixed'
    label = [ref.g_to_str(np.array(g), p) for g, p in obs]

    def run(coins):
        st = lib.ST(gs0, ps0, r0)
        rng.script(coins, None)
        out, lp = st.measure(O)
        c = rng.consumed()[0]
        return c, (st, np.asarray(out).tolist(), float(lp))

    runs = 0
    seen = {}
    try:
        leaves = list(rng.explore(run))
    except Exception as e:
        viol.append(V('C06/%s/raises-%s/%s' % (where, type(e).__name__, kind), item,
                      'measure(%s) on %s raised %s: %s' % (label, stab.describe(gs0, ps0, r0), type(e).__name__, e)))
        return 1, True
    for coins, (st, out, lp) in leaves:
        runs += 1
        outs = tuple(int(o) for o in out)
        desc = 'measure(%s) coins=%s on %s' % (label, list(coins), stab.describe(gs0, ps0, r0))
        if any(o not in (0, 1) for o in outs) or len(outs) != len(obs):
            viol.append(V('C06/%s/outcome-format/%s' % (where, kind), item, '%s returned out=%s' % (desc, out)))
            continue
        if len(coins) != nrand:
            viol.append(V('C06/%s/coins/%s' % (where, kind), item, '%s consumed %d coins, reference says %d observables are undetermined' % (desc, len(coins), nrand), len(coins), nrand))
        if outs not in expect:
            viol.append(V('C06/%s/impossible-outcome/%s' % (where, kind), item, '%s returned out=%s which has probability 0' % (desc, out), out, sorted(expect)))
            continue
        pr, pkey, prank = expect[outs]
        if outs in seen:
            viol.append(V('C06/%s/coin-not-fair/%s' % (where, kind), item, '%s: coin strings %s and %s give the same outcomes %s' % (desc, seen[outs], list(coins), out)))
        seen[outs] = list(coins)
        if abs(lp - math.log2(pr)) > 1e-9:
            viol.append(V('C06/%s/log2prob/%s' % (where, kind), item, '%s: log2prob=%r, true log2 P=%r' % (desc, lp, math.log2(pr)), lp, math.log2(pr)))
        bad = stab.state_check(st, N)
        if bad:
            viol.append(V('C06/%s/post-state-invalid/%s' % (where, kind), item, '%s: post state invalid: %s' % (desc, bad)))
            continue
        rho1 = stab.rho_of(st.gs, st.ps, st.r)
        if ref.rho_key(rho1) != pkey:
            if 2 ** int(st.r) != prank:
                sig = 'C06/%s/post-state-rank/%s' % (where, kind)
            else:
                sig = 'C06/%s/post-state/%s' % (where, kind)
            viol.append(V(sig, item, '%s: post state %s is not the normalised projection (rank 2^%d, expected rank %d)' % (
                desc, stab.describe(st.gs, st.ps, int(st.r)), int(st.r), prank)))
            continue
        # repetition on the live post-state: same outcomes, no coin, log2prob 0
        rng.script((1 - outs[0],) * 4, None)
        out2, lp2 = st.measure(O)
        c2 = rng.consumed()[0]
        runs += 1
        if tuple(int(o) for o in out2) != outs or abs(float(lp2)) > 1e-12 or c2 != 0:
            viol.append(V('C06/%s/repeat/%s' % (where, kind), item, '%s: repetition gave out=%s log2prob=%r coins=%d (first: %s)' % (
                desc, np.asarray(out2).tolist(), lp2, c2, out)))
        elif ref.rho_key(stab.rho_of(st.gs, st.ps, st.r)) != pkey:
            viol.append(V('C06/%s/repeat-state/%s' % (where, kind), item, '%s: repetition changed the state' % desc))
    if [_snap(x) for x in keep] != before:
        viol.append(V('C06/%s/operand-changed/%s' % (where, kind), item, 'measure(%s) on %s changed the arrays of its observable argument (form %s)' % (
            label, stab.describe(gs0, ps0, r0), form if operand is None else type(operand).__name__)))
    if len(seen) != len(expect) and len(seen) + 0 < len(expect):
        missing = sorted(set(expect) - set(seen))
        viol.append(V('C06/%s/outcome-unreachable/%s' % (where, kind), item, 'measure(%s) on %s: outcomes %s have probability > 0 but no coin string produces them' % (
            label, stab.describe(gs0, ps0, r0), missing)))
    nontriv = nrand > 0 or any(1 in o for o in expect)
    return runs, nontriv


def obs_lists(N, L):
    """All commuting lists of L signed Hermitian observables (dependent / repeated / identity
    entries included: they are legal commuting lists)."""
    G = ref.all_g(N)
    A = ref.anti_mat(G)
    out = []
    if L == 1:
        for i in range(len(G)):
            for p in (0, 2):
                out.append(((tuple(G[i]), p),))
    elif L == 2:
        for i in range(len(G)):
            for j in range(len(G)):
                if A[i, j]:
                    continue
                for pi in (0, 2):
                    for pj in (0, 2):
                        out.append(((tuple(G[i]), pi), (tuple(G[j]), pj)))
    elif L == 3:
        for i in range(1, len(G)):
            for j in range(1, len(G)):
                if A[i, j]:
                    continue
                for k in range(1, len(G)):
                    if A[i, k] or A[j, k]:
                        continue
                    for signs in ((0, 0, 0), (2, 0, 2), (0, 2, 2)):
                        out.append(tuple((tuple(G[x]), s) for x, s in zip((i, j, k), signs)))
    return out


_LISTS = {}


def lists(N, L):
    if (N, L) not in _LISTS:
        _LISTS[(N, L)] = obs_lists(N, L)
    return _LISTS[(N, L)]


def fn_sweep(items):
    """item = [N, idx, L]: tableau idx of N qubits, all lists of length L."""
    n = nt = 0
    viol = []
    keys = set()
    samples = []
    for N, idx, L in items:
        gs0, ps0, r0 = stab.tableaux(N)[idx]
        for obs in lists(N, L):
            runs, nontriv = check_one(N, gs0, ps0, r0, obs, 'L%d' % L, viol, [N, idx, L])
            n += runs
            nt += int(nontriv)
        if not samples and idx % 101 == 7:
            samples.append({'N': N, 'tableau': stab.describe(gs0, ps0, r0), 'L': L, 'lists': len(lists(N, L)),
                            'example_list': [ref.g_to_str(np.array(g), p) for g, p in lists(N, L)[len(lists(N, L)) // 2]]})
    return {'n': n, 'nt': nt, 'viol': viol, 'samples': samples}


def _n3_states(budget, seed):
    """N=3 source states: BFS (rotations by +G, single measurements under both coins) run separately
    from each of six start states of every rank (zero, one, GHZ, maximally mixed, a rank-2 and a rank-4
    mixed state with signs), budget/6 each, deduplicated by CONCRETE TABLEAU (pivot-position bugs
    depend on the rows, not only on the density matrix); deterministic."""
    pc = lib.pc
    N = 3
    herm = dom.hermitian_paulis(N, include_identity=False)
    gens = [lib.P(g, p) for g, p in herm if p == 0]
    obs = [lib.PL([g], [p]) for g, p in herm if p == 0]
    starts = [pc.zero_state(N), pc.maximally_mixed_state(N), pc.ghz_state(N), pc.one_state(N),
              pc.stabilizer_state('-XZI', 'ZXZ'), pc.stabilizer_state('-YIY')]
    seen = {}
    out = []
    per = max(1, budget // len(starts))
    for st0 in starts:
        mine = []
        k0 = stab.key_arrays(st0.gs, st0.ps, st0.r)
        if k0 not in seen:
            seen[k0] = 1
            mine.append((np.array(st0.gs), np.array(st0.ps), int(st0.r)))
        frontier = list(mine)
        while frontier and len(mine) < per:
            nxt = []
            for gs0, ps0, r0 in frontier:
                succ = []
                for j, G in enumerate(gens):
                    st = lib.ST(gs0, ps0, r0)
                    st.rotate_by(G)
                    succ.append(st)
                    st = lib.ST(gs0, ps0, r0)
                    rng.script((j % 2,), None)
                    st.measure(obs[j])
                    succ.append(st)
                for st in succ:
                    k = stab.key_arrays(st.gs, st.ps, st.r)
                    if k not in seen and not ref.tableau_invariant(np.asarray(st.gs), np.asarray(st.ps), int(st.r)):
                        seen[k] = 1
                        nxt.append((np.array(st.gs), np.array(st.ps), int(st.r)))
                        mine.append(nxt[-1])
                        if len(mine) >= per:
                            break
                if len(mine) >= per:
                    break
            frontier = nxt
        out.extend(mine[:per])
    return out[:budget]


_N3 = {}


def fn_n3(items):
    """item = [budget, i, L]: i-th N=3 state of the deterministic BFS set; all L=1 lists, and for
    L=2 all ordered commuting pairs of non-identity strings with signs (+,+),(-,+)."""
    n = nt = 0
    viol = []
    for budget, i, L in items:
        if budget not in _N3:
            _N3[budget] = _n3_states(budget, 0)
        gs0, ps0, r0 = _N3[budget][i]
        N = 3
        if L == 1:
            ls = lists(3, 1)
        else:
            G = ref.all_g(3)
            ls = []
            for (a, b) in dom.commuting_lists(3, 2)[i % 7::7]:
                for signs in ((0, 0), (2, 0)):
                    ls.append(((tuple(G[a]), signs[0]), (tuple(G[b]), signs[1])))
        for obs in ls:
            runs, nontriv = check_one(N, gs0, ps0, r0, obs, 'N3L%d' % L, viol, [budget, i, L])
            n += runs
            nt += int(nontriv)
    return {'n': n, 'nt': nt, 'viol': viol}


def _pool(N, tier, seed):
    """Concrete tableaux used by the operand-form leg: N<=2 one per density matrix, N=3 a stride of the BFS set."""
    if N == 3:
        budget = 402 if tier == 'quick' else 4002
        if budget not in _N3:
            _N3[budget] = _n3_states(budget, 0)
        step = 13 if tier == 'quick' else 29
        return _N3[budget][seed % step::step]
    T = stab.tableaux(N)
    return [T[i] for i in (range(len(T)) if N == 1 else stab.representatives(N, seed))]


def fn_forms(items):
    """item = [tier, seed, N, i]: i-th pool state; the observables are handed over (a) as the active stabilizers
    of every pool state given as a StabilizerState operand, (b) as the state itself / its own .stabilizers,
    (c) all L=1 lists and a stride of the L=2 lists as step-slice views, reversed views and Fortran arrays.
    Same oracle as the main sweep + the operand must be unchanged."""
    n = nt = 0
    viol = []
    for tier, seed, N, i in items:
        pool = _pool(N, tier, seed)
        gs0, ps0, r0 = pool[i]
        item = [tier, seed, N, i]
        for j, (gs1, ps1, r1) in enumerate(pool):
            if r1 == N:
                continue
            obs = tuple((tuple(int(x) for x in gs1[a]), int(ps1[a]) % 4) for a in range(r1, N))
            runs, nontriv = check_one(N, gs0, ps0, r0, obs, 'forms/N%d/StabilizerState-operand' % N, viol, item, operand=lib.ST(gs1, ps1, r1))
            n += runs
            nt += int(nontriv)
        if r0 < N:
            # the state measured against itself: determined outcomes 0, no coin, state unchanged
            own = tuple((tuple(int(x) for x in gs0[a]), int(ps0[a]) % 4) for a in range(r0, N))
            for how in ('self', 'self.stabilizers', 'copy'):
                st = lib.ST(gs0, ps0, r0)
                arg = st if how == 'self' else (st.stabilizers if how == 'self.stabilizers' else st.copy())
                rng.script((1, 1, 1, 1), None)
                try:
                    out, lp = st.measure(arg)
                except Exception as e:
                    viol.append(V('C06/forms/N%d/%s/raises-%s' % (N, how, type(e).__name__), item, 'st.measure(%s) on %s raised %s' % (how, stab.describe(gs0, ps0, r0), e)))
                    continue
                n += 1
                nt += 1
                c = rng.consumed()[0]
                if [int(o) for o in np.asarray(out).tolist()] != [0] * (N - r0) or abs(float(lp)) > 1e-12 or c != 0:
                    viol.append(V('C06/forms/N%d/%s/outcome' % (N, how), item, 'st.measure(%s) on %s returned out=%s log2prob=%r coins=%d; its own stabilizers have outcome 0 with certainty' % (
                        how, stab.describe(gs0, ps0, r0), np.asarray(out).tolist(), lp, c)))
                elif stab.state_check(st, N) or ref.rho_key(stab.rho_of(st.gs, st.ps, st.r)) != ref.rho_key(stab.rho_of(gs0, ps0, r0)):
                    viol.append(V('C06/forms/N%d/%s/state-changed' % (N, how), item, 'st.measure(%s) on %s changed the state to %s' % (
                        how, stab.describe(gs0, ps0, r0), stab.describe(st.gs, st.ps, int(st.r)))))
        l1 = lists(N, 1)
        l2 = lists(N, 2) if N <= 2 else []
        for form in ('view', 'view-rev', 'fortran'):
            for obs in l1 + l2[(i + seed) % 5::5]:
                runs, nontriv = check_one(N, gs0, ps0, r0, obs, 'forms/N%d/%s' % (N, form), viol, item, form=form)
                n += runs
                nt += int(nontriv)
    return {'n': n, 'nt': nt, 'viol': viol}


def legs(tier):
    out = []
    seed = 0
    import os
    seed = int(os.environ.get('VERIF_SEED', '0') or 0)
    for N in (1, 2):
        stab.tableaux(N)
        stab.valid_keyset(N)
    out.append(Leg('N1_L1', fn_sweep, [[1, i, 1] for i in range(48)], chunk=6, src_states=48, bound='all 48 tableaux x all 8 signed observables x coin tree'))
    out.append(Leg('N1_L2', fn_sweep, [[1, i, 2] for i in range(48)], chunk=6, src_states=48, bound='all 48 tableaux x all commuting signed pairs x coin tree'))
    out.append(Leg('N2_L1', fn_sweep, [[2, i, 1] for i in range(34560)], chunk=60, src_states=34560,
                   bound='all 34560 tableaux x all 32 signed observables (incl. +-I) x coin tree'))
    fitems = [[tier, seed, N, i] for N in (1, 2, 3) for i in range(len(_pool(N, tier, seed)))]
    out.append(Leg('operand_forms', fn_forms, fitems, chunk=2, src_states=len(fitems), exhaustive=False, supplementary=True,
                   bound='48 / 91 / %d pool tableaux (N=1 all, N=2 one per density matrix, N=3 stride of the BFS set) x observables given as (a) every pool state as a StabilizerState operand, '
                         '(b) the state itself, its .stabilizers, its copy, (c) all L=1 lists and 1/5 of the L=2 lists as step-slice view, reversed view, Fortran array; full coin tree; operand unchanged afterwards' % len(_pool(3, tier, seed))))
    if tier == 'quick':
        reps = stab.representatives(2, seed)
        out.append(Leg('N2_L2_reps', fn_sweep, [[2, i, 2] for i in reps], chunk=2, src_states=len(reps),
                       bound='one tableau per density matrix (91; VERIF_SEED rotates the representative) x all 544 commuting signed pairs x coin tree'))
        out.append(Leg('N3_L1', fn_n3, [[402, i, 1] for i in range(402)], chunk=5, exhaustive=False, supplementary=True,
                       bound='402 distinct N=3 tableaux (BFS from six start states of every rank, 67 each) x all 128 signed observables x coin tree'))
        out.append(Leg('N3_L2', fn_n3, [[402, i, 2] for i in range(0, 402, 4)], chunk=2, exhaustive=False, supplementary=True,
                       bound='100 of those N=3 tableaux x 1/7 of all ordered commuting pairs (rotating) x 2 sign patterns'))
    else:
        out.append(Leg('N2_L2_all', fn_sweep, [[2, i, 2] for i in range(34560)], chunk=30, src_states=34560,
                       bound='all 34560 tableaux x all 544 commuting signed pairs x coin tree', timeout=6000))
        reps = stab.representatives(2, seed)
        out.append(Leg('N2_L3_reps', fn_sweep, [[2, i, 3] for i in reps], chunk=1, src_states=len(reps),
                       bound='one tableau per density matrix x all commuting triples of non-identity strings x 3 sign patterns'))
        out.append(Leg('N3_L1', fn_n3, [[4002, i, 1] for i in range(4002)], chunk=10, exhaustive=False, supplementary=True,
                       bound='4002 distinct N=3 tableaux from BFS (six start states of every rank) x all 128 signed observables'))
        out.append(Leg('N3_L2', fn_n3, [[4002, i, 2] for i in range(0, 4002, 4)], chunk=4, exhaustive=False, supplementary=True,
                       bound='1000 N=3 tableaux x 1/7 of all ordered commuting pairs (rotating) x 2 sign patterns'))
    return out
