"""C20 Operator descriptions, printing, tokens and indexing round-trip.

Model-checking view: the finite set of all Pauli operators (letters in {I,X,Y,Z}^N x 4 phases)
and of all short Pauli lists is enumerated completely; for every element every accepted
description (string with every prefix, character containers, code arrays with a phase token at
either end, dictionaries with N, token rows, printed text, Pauli objects) is fed to the real
constructors and the constructed (g, p) is compared with the oracle, which is a plain Python
list of (letters, phase) pairs.  Indexing is compared with Python list semantics on that list,
negation / multiplication by 1, -1, i, -i with phase arithmetic mod 4.

Oracle conventions: letter -> bits X=(1,0), Y=(1,1), Z=(0,1); user codes 0=I 1=X 2=Y 3=Z,
phase tokens 4='+', 5='-', 6='+i', 7='-i' (docstring of pauli_tokenize); prefixes
'' '+' -> 0, 'i' '+i' -> 1, '-' -> 2, '-i' -> 3.
Traps (not demanded): the printed form only has to PARSE back to the same operator and to show
the letters with a prefix denoting the phase (leading blanks allowed); torch tensors refuse
negative slice steps (ValueError raised by torch itself) - unsupported, skipped; a set argument
of paulis() has no order - compared as a multiset; bool used as an integer index, tuple indices,
masks of the wrong length and N=0 are outside the statement."""
import itertools
import numpy as np
from .. import lib
from ..core import Leg, V

PROP = 'C20'
RULE = ('every Pauli operator (all letter strings of the stated N x 4 phases) x every accepted description format, plus '
        'print->parse, tokenize->parse, N, weight, -x and c*x for c in {1,-1,i,-i}; every Pauli list of the stated (N, L) x '
        'every container form of paulis(), L/len/N/weight/repr/tokenize and EVERY index expression (ints in [-L-1, L], all '
        'slices over that range x steps, all boolean masks, all index arrays of length <= 2 and some of length 3, as ndarray '
        'and as Python list); a transition = one real call compared with the Python-list oracle; non-trivial = the element / '
        'list carries a phase != 0 or a non-identity letter')
ASSUMPTIONS = ['the accepted formats are those of the statement: prefixes + - i +i -i (and none), codes 0-3 with one phase token 4-7 at '
               'either end, dict {site: letter or code} with N (phase-free), tokens as produced by tokenize()',
               'bounded to the stated N and L; indexing depends only on positions, contents are nevertheless enumerated completely for N=1']

LETTERS = 'IXYZ'
BITS = {'I': (0, 0), 'X': (1, 0), 'Y': (1, 1), 'Z': (0, 1)}
CODE = {'I': 0, 'X': 1, 'Y': 2, 'Z': 3}
PREFIXES = {0: ('', '+'), 1: ('i', '+i'), 2: ('-',), 3: ('-i',)}
PRINTED = {0: ' +', 1: '+i', 2: ' -', 3: '-i'}          # what __repr__ is documented to print (only used in messages)
TOKEN = {0: 4, 1: 6, 2: 5, 3: 7}
CAP = 3


def letters_of(N, idx):
    s = ''
    for k in range(N):
        s = LETTERS[idx % 4] + s
        idx //= 4
    return s


def bits(letters):
    out = []
    for ch in letters:
        out.extend(BITS[ch])
    return out


def elem(N, e):
    """e in [0, 4*4^N) -> (letters, p)."""
    return letters_of(N, e % 4 ** N), e // 4 ** N


def text(el):
    return PRINTED[el[1]] + el[0]


# ---------------------------------------------------------------- backends
class Backend(object):
    def __init__(self, pkg):
        self.pkg = pkg
        if pkg == 'py':
            self.pa = lib.ppa
        else:
            self.m = lib.torch_mods()
            self.pa = self.m['tpa']

    def nums(self, x):
        if self.pkg == 'torch' and self.m['torch'].is_tensor(x):
            x = x.detach().cpu().numpy()
        a = np.asarray(x)
        r = np.rint(a).astype(np.int64)
        if a.size and not np.array_equal(r, a):
            raise ValueError('non-integral values %r' % (a.tolist(),))
        return r

    def pauli_gp(self, P):
        """(bit list, p) of a library Pauli; raises ValueError when it is not a well-formed Pauli."""
        if type(P) is not self.pa.Pauli:
            raise ValueError('a %s, not a Pauli' % type(P).__name__)
        g = self.nums(P.g)
        if g.ndim != 1:
            raise ValueError('g of shape %s' % (g.shape,))
        p = self.nums(P.p)
        if p.shape != ():
            raise ValueError('p of shape %s' % (p.shape,))
        return g.tolist(), int(p)

    def list_gp(self, L):
        if type(L) is not self.pa.PauliList:
            raise ValueError('a %s, not a PauliList' % type(L).__name__)
        gs, ps = self.nums(L.gs), self.nums(L.ps)
        if gs.ndim != 2 or ps.shape != (gs.shape[0],):
            raise ValueError('gs of shape %s, ps of shape %s' % (gs.shape, ps.shape))
        return gs.tolist(), ps.tolist()

    def mk(self, el):
        """fresh library Pauli of an oracle element, built from arrays (not through the parser)."""
        return lib.P(bits(el[0]), el[1]) if self.pkg == 'py' else lib.tP(bits(el[0]), el[1])

    def mklist(self, els, N, layout=None):
        gs = np.array([bits(l) for l, p in els], dtype=np.int64).reshape(-1, 2 * N)
        ps = np.array([p for l, p in els], dtype=np.int64)
        if self.pkg == 'py':
            return self.pa.PauliList(np.array(gs, dtype=lib.INT), np.array(ps, dtype=lib.INT))
        if layout == 'float32':      # the layout of lists made by the library's own arithmetic (PauliList(gs, ps) with float phases)
            return self.pa.PauliList(lib.tT(gs), lib.tT(ps))
        return self.pa.PauliList(lib.tT(gs), self.m['torch'].tensor(ps))

    def layouts(self):
        return ('int',) if self.pkg == 'py' else ('int64', 'float32')

    def mk_layout(self, el, layout):
        if self.pkg == 'py' or layout in ('int', 'int64'):
            return self.mk(el)
        t = self.m['torch']
        return self.pa.Pauli(lib.tT(bits(el[0])), t.tensor(float(el[1]), dtype=t.float32))

    def tokrow(self, row):
        """a token row as the library hands it out -> list of ints."""
        return self.nums(row).tolist()


_BACK = {}


def backend(pkg):
    if pkg not in _BACK:
        _BACK[pkg] = Backend(pkg)
    return _BACK[pkg]


class Ctx(object):
    def __init__(self, pkg, item, sigcount):
        self.B = backend(pkg)
        self.pkg, self.item = pkg, item
        self.n = self.nt = 0
        self.viol = []
        self.sigcount = sigcount
        self.extra = {}

    def report(self, sig, msg, obs=None, exp=None):
        sig = 'C20/%s/%s' % (self.pkg, sig)
        c = self.sigcount.get(sig, 0)
        self.sigcount[sig] = c + 1
        if c < CAP:
            self.viol.append(V(sig, self.item, msg, obs, exp))
        else:
            self.extra['more:' + sig] = self.extra.get('more:' + sig, 0) + 1

    def count(self, nontrivial):
        self.n += 1
        if nontrivial:
            self.nt += 1

    # ---- comparisons with the oracle
    def pauli_is(self, sig, what, thunk, el):
        """thunk() must return a Pauli equal to the oracle element el = (letters, p)."""
        self.count(el[1] != 0 or el[0].strip('I') != '')
        try:
            P = thunk()
        except Exception as e:
            self.report(sig + '/raises-%s' % type(e).__name__, '%s raised %s: %s (expected %s)' % (what, type(e).__name__, str(e)[:120], text(el)))
            return None
        try:
            g, p = self.B.pauli_gp(P)
        except Exception as e:
            self.report(sig + '/malformed', '%s gave %s (expected %s)' % (what, str(e)[:120], text(el)))
            return None
        if g != bits(el[0]) or p != el[1]:
            self.report(sig, '%s gave g=%s p=%s, expected %s (g=%s p=%d)' % (what, g, p, text(el), bits(el[0]), el[1]), [g, p], [bits(el[0]), el[1]])
            return None
        return P

    def list_is(self, sig, what, thunk, els, N, multiset=False):
        self.count(any(p != 0 or l.strip('I') for l, p in els))
        try:
            L = thunk()
        except Exception as e:
            self.report(sig + '/raises-%s' % type(e).__name__, '%s raised %s: %s (expected [%s])' % (
                what, type(e).__name__, str(e)[:120], ', '.join(text(e_) for e_ in els)))
            return None
        try:
            gs, ps = self.B.list_gp(L)
        except Exception as e:
            self.report(sig + '/malformed', '%s gave %s' % (what, str(e)[:120]))
            return None
        got = list(zip([tuple(g) for g in gs], ps))
        exp = [(tuple(bits(l)), p) for l, p in els]
        if (sorted(got) != sorted(exp)) if multiset else (got != exp):
            self.report(sig, '%s gave %s, expected [%s]' % (what, got, ', '.join(text(e_) for e_ in els)), got, exp)
            return None
        return L

    def result(self):
        return {'n': self.n, 'nt': self.nt, 'viol': self.viol, 'extra': self.extra}


def _merge(out, ctx):
    r = ctx.result()
    out['n'] += r['n']
    out['nt'] += r['nt']
    out['viol'].extend(r['viol'])
    for k, v in r['extra'].items():
        out['extra'][k] = out['extra'].get(k, 0) + v


# ---------------------------------------------------------------- leg: single operators
def descriptions(letters, p, pkg):
    """[(format name, description object, kwargs)] all denoting i^p * letters."""
    N = len(letters)
    codes = [CODE[ch] for ch in letters]
    tok = TOKEN[p]
    out = []
    for pre in PREFIXES[p]:
        s = pre + letters
        tag = 'prefix=%r' % pre
        out.append(('str/' + tag, s, {}))
        out.append(('chars-list/' + tag, list(s), {}))
        out.append(('chars-tuple/' + tag, tuple(s), {}))
        out.append(('chars-ndarray/' + tag, np.array(list(s)) if s else np.array([], dtype='<U1'), {}))
    if p == 0:
        out.append(('codes-list/no-token', list(codes), {}))
        out.append(('codes-tuple/no-token', tuple(codes), {}))
        out.append(('codes-ndarray/no-token', np.array(codes, dtype=np.int64), {}))
        sites = [i for i in range(N) if letters[i] != 'I']
        out.append(('dict-letters/N', {i: letters[i] for i in sites}, {'N': N}))
        out.append(('dict-codes/N', {i: codes[i] for i in sites}, {'N': N}))
        out.append(('dict-letters-full/N', {i: letters[i] for i in range(N)}, {'N': N}))
        out.append(('dict-letters-reversed/N', {i: letters[i] for i in reversed(sites)}, {'N': N}))
    for where, seq in (('token-first', [tok] + codes), ('token-last', codes + [tok])):
        out.append(('codes-list/' + where, list(seq), {}))
        out.append(('codes-tuple/' + where, tuple(seq), {}))
        out.append(('codes-ndarray/' + where, np.array(seq, dtype=np.int64), {}))
        if pkg == 'torch':
            t = backend('torch').m['torch']
            out.append(('codes-tensor-int/' + where, t.tensor(seq), {}))
            out.append(('codes-tensor-float/' + where, t.tensor(seq, dtype=t.float32), {}))
    return out


SCALARS = (('1', 1, 0), ('-1', -1, 2), ('1j', 1j, 1), ('-1j', -1j, 3),
           ('1.0', 1.0, 0), ('-1.0', -1.0, 2), ('(1+0j)', complex(1, 0), 0), ('(-1+0j)', complex(-1, 0), 2))


def printed_ok(s, el):
    """the printed text shows the letters with a prefix denoting the phase (leading blanks allowed)."""
    t = s.strip()
    return any(t == pre + el[0] for pre in PREFIXES[el[1]])


def fn_single(items):
    """item = [pkg, N, idx]: letter string idx of {I,X,Y,Z}^N x all 4 phases x every description."""
    out = {'n': 0, 'nt': 0, 'viol': [], 'extra': {}, 'samples': []}
    sc = {}
    for item in items:
        pkg, N, idx = item
        ctx = Ctx(pkg, item, sc)
        B = ctx.B
        pauli = B.pa.pauli
        letters = letters_of(N, idx)
        for p in range(4):
            el = (letters, p)
            ds = descriptions(letters, p, pkg)
            for name, d, kw in ds:
                ctx.pauli_is('parse/%s/p=%d' % (name, p), 'pauli(%r%s)' % (d, ', N=%d' % N if kw else ''),
                             (lambda d=d, kw=kw: pauli(d, **kw)), el)
                if not kw and N >= 1:      # the qubit number may also be stated for descriptions that do not need it
                    ctx.pauli_is('parse+N/%s/p=%d' % (name, p), 'pauli(%r, N=%d)' % (d, N), (lambda d=d: pauli(d, N=N)), el)
                # construct -> overwrite the result's arrays -> construct again from the same description object
                try:
                    P1 = pauli(d, **kw)
                    if pkg == 'py':
                        P1.g[...] = 1 - P1.g
                    else:
                        P1.g.copy_(1 - P1.g)
                except Exception:
                    P1 = None
                if P1 is not None:
                    ctx.pauli_is('parse-again-after-edit/%s/p=%d' % (name, p), 'pauli(%r%s) after the arrays of an earlier result of the same call were overwritten' % (d, ', N=%d' % N if kw else ''),
                                 (lambda d=d, kw=kw: pauli(d, **kw)), el)
            P0 = B.mk(el)
            # a Pauli object is passed through unchanged
            ctx.count(False)
            if pauli(P0) is not P0:
                ctx.pauli_is('parse/Pauli-object/p=%d' % p, 'pauli(Pauli %s)' % text(el), (lambda: pauli(P0)), el)
            # qubit count, weight
            ctx.count(True)
            try:
                nq, w = P0.N, B.nums(P0.weight())
                if nq != N:
                    ctx.report('N', '%s .N = %r, expected %d' % (text(el), nq, N))
                if w.shape != () or int(w) != sum(ch != 'I' for ch in letters):
                    ctx.report('weight/Pauli', '%s .weight() = %r, expected %d' % (text(el), w.tolist(), sum(ch != 'I' for ch in letters)))
            except Exception as e:
                ctx.report('weight/Pauli/raises-%s' % type(e).__name__, '%s N/weight raised %s' % (text(el), e))
            # print -> parse
            try:
                s = repr(B.mk(el))
            except Exception as e:
                s = None
                ctx.report('repr/raises-%s/p=%d' % (type(e).__name__, p), 'repr(%s) raised %s' % (text(el), e))
            if s is not None:
                ctx.count(True)
                if not printed_ok(s, el):
                    ctx.report('repr/text/p=%d' % p, 'repr prints %r for %s' % (s, text(el)), s, text(el))
                ctx.pauli_is('repr-roundtrip/p=%d' % p, 'pauli(repr(%s)=%r)' % (text(el), s), (lambda: pauli(s)), el)
            # tokenize -> parse
            try:
                ts = B.mk(el).tokenize()
                row = B.tokrow(ts[0])
                nrows = len(ts)
            except Exception as e:
                ts = None
                ctx.report('tokenize/raises-%s/p=%d' % (type(e).__name__, p), 'tokenize(%s) raised %s' % (text(el), e))
            if ts is not None:
                ctx.count(True)
                exp_row = [CODE[ch] for ch in letters] + [TOKEN[p]]
                if nrows != 1 or row != exp_row:
                    ctx.report('tokens/p=%d' % p, 'tokenize(%s) = %s, expected one row %s' % (text(el), row, exp_row), row, exp_row)
                ctx.pauli_is('token-roundtrip/p=%d' % p, 'pauli(%s.tokenize()[0] = %s)' % (text(el), row), (lambda: pauli(ts[0])), el)
                if pkg == 'py':
                    ctx.pauli_is('token-roundtrip-list/p=%d' % p, 'pauli(list(%s.tokenize()[0]))' % text(el), (lambda: pauli(list(ts[0]))), el)
            # negation and the four unit scalars
            ctx.pauli_is('neg/Pauli', '-(%s)' % text(el), (lambda: -B.mk(el)), (letters, (p + 2) % 4))
            for nm, c, dp in SCALARS:
                ctx.pauli_is('scalar/%s/Pauli' % nm, '%s * (%s)' % (nm, text(el)), (lambda c=c: c * B.mk(el)), (letters, (p + dp) % 4))
            for lay in B.layouts():
                Q = B.mk_layout(el, lay)
                ctx.pauli_is('neg/Pauli/operand-reused', '-Q, Q = %s (%s phase)' % (text(el), lay), (lambda: -Q), (letters, (p + 2) % 4))
                for nm, c, dp in SCALARS[:4]:
                    ctx.pauli_is('scalar/%s/Pauli/operand-reused' % nm, '%s * Q, Q = %s (%s phase) used before' % (nm, text(el), lay), (lambda c=c: c * Q), (letters, (p + dp) % 4))
                ctx.pauli_is('scalar/Pauli/operand-modified', 'Q = %s (%s phase) after -Q and c*Q' % (text(el), lay), (lambda: Q), el)
            # double application (history): -(-x), i*(i*x)
            ctx.pauli_is('neg/Pauli', '-(-(%s))' % text(el), (lambda: -(-B.mk(el))), el)
            ctx.pauli_is('scalar/1j/Pauli', '1j*(1j*(%s))' % text(el), (lambda: 1j * (1j * B.mk(el))), (letters, (p + 2) % 4))
        _merge(out, ctx)
        if not out['samples'] and N >= 2 and idx % 7 == 3:
            out['samples'].append({'pkg': pkg, 'operator': text((letters, 3)), 'descriptions': [n_ + ': ' + repr(d)[:40] for n_, d, kw in descriptions(letters, 3, pkg)][:8]})
    return out


# ---------------------------------------------------------------- leg: lists
def index_menu(L, pkg):
    """[(kind, label, index object, Python-list result or 'IndexError')] for a list of length L."""
    out = []
    rng = list(range(L))
    for k in range(-L - 1, L + 1):
        ok = -L <= k < L
        exp = rng[k] if ok else 'IndexError'
        kind = 'out-of-range' if not ok else ('int' if k >= 0 else 'negative-int')
        out.append((kind, '%d' % k, k, exp))
        out.append((kind + '-numpy', 'np.int64(%d)' % k, np.int64(k), exp))
    bounds = [None] + list(range(-L - 1, L + 2))
    for a in bounds:
        for b in bounds:
            for c in (None, 1, 2, 3, -1, -2):
                if pkg == 'torch' and c is not None and c < 0:
                    continue            # torch itself refuses negative steps (ValueError): unsupported
                sl = slice(a, b, c)
                out.append(('slice' if (c is None or c > 0) else 'slice-negative-step', '%s:%s:%s' % tuple('' if x is None else x for x in (a, b, c)), sl, rng[sl]))
    for m in itertools.product((False, True), repeat=L):
        sel = [i for i in rng if m[i]]
        out.append(('mask-ndarray', 'mask%s' % (list(m),), np.array(m, dtype=bool), sel))
        if L > 0:
            out.append(('mask-list', 'list mask%s' % (list(m),), list(m), sel))
    tuples = [()] + [(a,) for a in range(-L, L)] + [(a, b) for a in range(-L, L) for b in range(-L, L)]
    if L:
        tuples += [(L - 1, 0, 0), (0, -1, 0), (-L, L - 1, -1)]
    for t in tuples:
        sel = [rng[i] for i in t]
        out.append(('index-array', 'array%s' % (list(t),), np.array(t, dtype=np.int64), sel))
        out.append(('index-list', 'list%s' % (list(t),), list(t), sel))
    if pkg == 'torch':
        t = lib.torch_mods()['torch']
        for tp in tuples:
            out.append(('index-torch-tensor', 'torch.tensor(%s)' % (list(tp),), t.tensor(list(tp), dtype=t.long), [rng[i] for i in tp]))
        for mm in itertools.product((False, True), repeat=L):
            if L > 0:
                out.append(('mask-torch-tensor', 'torch.tensor(%s)' % (list(mm),), t.tensor(list(mm), dtype=t.bool), [i for i in rng if mm[i]]))
    if L:
        out.append(('index-array-out-of-range', 'array[%d]' % L, np.array([L]), 'IndexError'))
        out.append(('index-list-out-of-range', 'list[0, %d]' % (-L - 1), [0, -L - 1], 'IndexError'))
    return out


_MENU = {}


def containers(els, N, B, pkg):
    """[(name, thunk, multiset)] every accepted way to hand the list to paulis()."""
    paulis = B.pa.paulis
    strs = [PREFIXES[p][-1] + l for l, p in els]
    strs2 = [PREFIXES[p][0] + l for l, p in els]
    rows = [[CODE[ch] for ch in l] + [TOKEN[p]] for l, p in els]
    rows_first = [[TOKEN[p]] + [CODE[ch] for ch in l] for l, p in els]
    out = [
        ('varargs-str', (lambda: paulis(*strs)), False),
        ('list-str', (lambda: paulis(list(strs2))), False),
        ('tuple-str', (lambda: paulis(tuple(strs))), False),
        ('generator-str', (lambda: paulis(s for s in strs)), False),
        ('ndarray-str', (lambda: paulis(np.array(strs))), False),
        ('ndarray-codes', (lambda: paulis(np.array(rows, dtype=np.int64))), False),
        ('list-of-code-lists', (lambda: paulis([list(r) for r in rows_first])), False),
        ('list-of-Pauli', (lambda: paulis([B.mk(e) for e in els])), False),
        ('mixed-list', (lambda: paulis([(B.mk(e) if k % 3 == 0 else (strs[k] if k % 3 == 1 else rows[k])) for k, e in enumerate(els)])), False),
    ]
    if len(els) != 1:        # a single vararg that is a container is read as THE container: ambiguous by design
        out.append(('varargs-code-tuples', (lambda: paulis(*[tuple(r) for r in rows])), False))
        out.append(('varargs-Pauli', (lambda: paulis(*[B.mk(e) for e in els])), False))
    else:
        out.append(('single-Pauli', (lambda: paulis(B.mk(els[0]))), False))
    if len(set(strs)) == len(strs):
        out.append(('set-str', (lambda: paulis(set(strs))), True))
    if all(p == 0 for l, p in els):
        out.append(('varargs-dict/N', (lambda: paulis(*[{i: l[i] for i in range(N) if l[i] != 'I'} for l, p in els], N=N)), False))
        out.append(('list-dict/N', (lambda: paulis([{i: CODE[l[i]] for i in range(N) if l[i] != 'I'} for l, p in els], N=N)), False))
    out.append(('varargs-str/N', (lambda: paulis(*strs, N=N)), False))
    out.append(('mixed-dict-str/N', (lambda: paulis([({i: l[i] for i in range(N) if l[i] != 'I'} if (p == 0 and k % 2 == 0) else strs[k]) for k, (l, p) in enumerate(els)], N=N)), False))
    if pkg == 'torch':
        t = B.m['torch']
        out.append(('tensor-codes', (lambda: paulis(t.tensor(rows))), False))
    return out


def fn_lists(items):
    """item = [pkg, N, L, e1, e2]: all lists of length L over the 4*4^N operators whose first two
    elements are e1, e2 (e2 = -1 when L < 2; L = 0: the empty selection obtained by slicing)."""
    out = {'n': 0, 'nt': 0, 'viol': [], 'extra': {}, 'samples': []}
    sc = {}
    for item in items:
        pkg, N, L, e1, e2 = item
        ctx = Ctx(pkg, item, sc)
        B = ctx.B
        M = 4 * 4 ** N
        if (pkg, L) not in _MENU:
            _MENU[(pkg, L)] = index_menu(L, pkg)
        menu = _MENU[(pkg, L)]
        head = () if L == 0 else ((e1,) if L == 1 else (e1, e2))
        for rest in itertools.product(range(M), repeat=L - len(head)):
            ids = head + tuple(rest)
            els = [elem(N, e) for e in ids]
            what = '[%s]' % ', '.join(text(e) for e in els)
            # ---- construction in every container form
            if L >= 1:
                for name, thunk, ms in containers(els, N, B, pkg):
                    ctx.list_is('paulis/%s' % name, 'paulis(%s of %s)' % (name, what), thunk, els, N, multiset=ms)
            X = B.mklist(els, N) if L >= 1 else B.mklist([elem(N, 1)], N)[1:]
            if L >= 1:
                ctx.count(False)
                if B.pa.paulis(X) is not X:
                    ctx.report('paulis/PauliList-object', 'paulis(PauliList) is not the same object')
            # ---- L, len, N, weight
            ctx.count(True)
            try:
                w = B.nums(X.weight()).tolist()
                expw = [sum(ch != 'I' for ch in l) for l, p in els]
                if X.L != L or len(X) != L or X.N != N:
                    ctx.report('L-N', '%s: L=%r len=%r N=%r, expected L=%d N=%d' % (what, X.L, len(X), X.N, L, N))
                if w != expw:
                    ctx.report('weight/PauliList', '%s .weight() = %s, expected %s' % (what, w, expw), w, expw)
            except Exception as e:
                ctx.report('weight/PauliList/raises-%s' % type(e).__name__, '%s L/N/weight raised %s' % (what, e))
            # ---- iteration, printing, tokens
            if L >= 1:
                ctx.count(True)
                try:
                    it = [B.pauli_gp(P) for P in X]
                    if it != [(bits(l), p) for l, p in els]:
                        ctx.report('iterate', 'list(%s) = %s' % (what, it))
                except Exception as e:
                    ctx.report('iterate/raises-%s' % type(e).__name__, 'iterating %s raised %s' % (what, e))
                try:
                    s = repr(X)
                    lines = s.split('\n')
                except Exception as e:
                    lines = None
                    ctx.report('repr-list/raises-%s' % type(e).__name__, 'repr(%s) raised %s' % (what, e))
                if lines is not None:
                    ctx.count(True)
                    if len(lines) != L or not all(printed_ok(x, e) for x, e in zip(lines, els)):
                        ctx.report('repr-list/text', 'repr(%s) = %r' % (what, s))
                    ctx.list_is('repr-roundtrip/PauliList', 'paulis(repr(%s).split(newline))' % what, (lambda: B.pa.paulis(lines)), els, N)
                try:
                    ts = X.tokenize()
                    rows = [B.tokrow(r) for r in ts]
                except Exception as e:
                    ts = None
                    ctx.report('tokenize-list/raises-%s' % type(e).__name__, 'tokenize(%s) raised %s' % (what, e))
                if ts is not None:
                    ctx.count(True)
                    exp_rows = [[CODE[ch] for ch in l] + [TOKEN[p]] for l, p in els]
                    if rows != exp_rows:
                        ctx.report('tokens/PauliList', 'tokenize(%s) = %s, expected %s' % (what, rows, exp_rows), rows, exp_rows)
                    ctx.list_is('token-roundtrip/PauliList', 'paulis(%s.tokenize())' % what, (lambda: B.pa.paulis(ts)), els, N)
                # ---- negation and unit scalars on the list
                ctx.list_is('neg/PauliList', '-%s' % what, (lambda: -B.mklist(els, N)), [(l, (p + 2) % 4) for l, p in els], N)
                for nm, c, dp in SCALARS:
                    ctx.list_is('scalar/%s/PauliList' % nm, '%s * %s' % (nm, what), (lambda c=c: c * B.mklist(els, N)),
                                [(l, (p + dp) % 4) for l, p in els], N)
                # ---- the same on ONE operand object per phase layout (and on a slice view of it): the operand stays what it was
                for lay in B.layouts():
                    Y = B.mklist(els, N, lay)
                    Z = Y[0:]
                    ctx.list_is('neg/PauliList/operand-reused', '-Y, Y = %s (%s phases)' % (what, lay), (lambda: -Y), [(l, (p + 2) % 4) for l, p in els], N)
                    for nm, c, dp in SCALARS[:4]:
                        ctx.list_is('scalar/%s/PauliList/operand-reused' % nm, '%s * Y, Y = %s (%s phases) used before' % (nm, what, lay), (lambda c=c: c * Y),
                                    [(l, (p + dp) % 4) for l, p in els], N)
                    ctx.list_is('neg/PauliList/operand-reused', '-(Y[0:]), Y = %s (%s phases)' % (what, lay), (lambda: -Z), [(l, (p + 2) % 4) for l, p in els], N)
                    ctx.list_is('scalar/PauliList/operand-modified', 'Y = %s (%s phases) after -Y, c*Y, -(Y[0:])' % (what, lay), (lambda: Y), els, N)
            # ---- every index expression against Python list semantics
            for kind, label, ix, exp in menu:
                sig = 'getitem/%s' % kind
                if exp == 'IndexError':
                    ctx.count(True)
                    try:
                        r = X[ix]
                        ctx.report(sig + '/no-IndexError', '%s[%s] returned %r, a Python list raises IndexError' % (what, label, r))
                    except IndexError:
                        pass
                    except Exception as e:
                        ctx.report(sig + '/raises-%s' % type(e).__name__, '%s[%s] raised %s: %s (IndexError expected)' % (what, label, type(e).__name__, str(e)[:100]))
                elif isinstance(exp, int):
                    ctx.pauli_is(sig, '%s[%s]' % (what, label), (lambda ix=ix: X[ix]), els[exp])
                else:
                    ctx.list_is(sig, '%s[%s]' % (what, label), (lambda ix=ix: X[ix]), [els[i] for i in exp], N)
                    if not exp:
                        # an empty selection still knows its qubit number
                        try:
                            if X[ix].N != N:
                                ctx.report(sig + '/empty-N', '%s[%s].N = %r, expected %d' % (what, label, X[ix].N, N))
                        except Exception as e:
                            ctx.report(sig + '/empty-N', '%s[%s].N raised %s' % (what, label, e))
            # the indexed list was not modified
            ctx.list_is('getitem/source-modified', '%s after indexing' % what, (lambda: X), els, N)
        _merge(out, ctx)
        if not out['samples'] and L == 2:
            out['samples'].append({'pkg': pkg, 'N': N, 'L': L, 'first_elements': [text(elem(N, e)) for e in (e1, e2)], 'index_expressions': len(menu),
                                   'examples': [m[1] for m in menu[::max(1, len(menu) // 8)]]})
    return out


# ---------------------------------------------------------------- legs
def list_items(pkg, N, L):
    M = 4 * 4 ** N
    if L == 0:
        return [[pkg, N, 0, 0, -1]]
    if L == 1:
        return [[pkg, N, 1, e, -1] for e in range(M)]
    return [[pkg, N, L, a, b] for a in range(M) for b in range(M)]



from .. import ref, lib


def _list_queries(obj):
    out = {'repr': repr(obj), 'tokenize': np.asarray(obj.tokenize()).tolist(), 'N': int(obj.N), 'weight': np.asarray(obj.weight()).tolist()}
    if hasattr(obj, 'L'):
        out['L'] = int(obj.L)
        out['len'] = len(obj)
        out['item0'] = repr(obj[0]) if obj.L else None
        out['neg'] = repr(-obj)
    return out


def fn_live(items):
    """item = [N, gi]: query round (repr, tokenize, N, L, len, weight, indexing, negation) -> in-place rotate_by /
    masked rotate_by / transform_by -> query round on the SAME PauliList / Pauli / PauliPolynomial object, compared
    with a fresh object built from its arrays (no stale per-object cache); printing and tokens must also parse back
    to the rotated operators."""
    from ..core import V
    n = nt = 0
    viol = []
    for N, gi in items:
        G = ref.all_g(N)
        g = G[gi]
        Gs = np.concatenate([G] * 4)[::3]
        Ps = np.repeat(np.arange(4), len(G))[::3]
        for p in (0, 2):
            gen = lib.P(g, p)
            ops = [('rotate_by', lambda o: o.rotate_by(gen))]
            if N >= 2:
                mb = np.zeros(N, dtype=bool)
                mb[N - 1] = True
                g1 = lib.P(g[-2:], p)
                ops.append(('rotate_by-mask', lambda o: o.rotate_by(g1, mask=mb.copy())))
            M = lib.pc.clifford_rotation_map(lib.P(g, p))
            ops.append(('transform_by', lambda o: o.transform_by(M)))
            for opname, op in ops:
                for cls, mk in (('PauliList', lambda: lib.PL(Gs, Ps)), ('Pauli', lambda: lib.P(Gs[(gi * 7 + 3) % len(Gs)], Ps[(gi * 7 + 3) % len(Gs)])),
                                ('PauliPolynomial', lambda: lib.POLY(Gs, Ps, np.arange(len(Gs)) + 0.5))):
                    obj = mk()
                    _list_queries(obj)
                    op(obj)
                    if cls == 'Pauli':
                        fresh = lib.P(np.array(obj.g), int(obj.p))
                    elif cls == 'PauliList':
                        fresh = lib.PL(np.array(obj.gs), np.array(obj.ps))
                    else:
                        fresh = lib.POLY(np.array(obj.gs), np.array(obj.ps), np.array(obj.cs))
                    q1, q2 = _list_queries(obj), _list_queries(fresh)
                    n += len(q1)
                    nt += 1
                    for k in q2:
                        if q1[k] != q2[k]:
                            viol.append(V('C20/py/live/%s/%s/stale-after-%s' % (cls, k, opname), [N, gi], '%s of a %s that had been queried before and then changed by %s(%s) differs from the same query on a fresh object with identical arrays' % (k, cls, opname, ref.g_to_str(g, p))))
                    # tokens parse back to the current operators
                    if cls == 'PauliList':
                        back = lib.pc.paulis(obj.tokenize())
                        if (np.asarray(back.gs) != np.asarray(obj.gs)).any() or (np.asarray(back.ps) % 4 != np.asarray(obj.ps) % 4).any():
                            viol.append(V('C20/py/live/PauliList/token-roundtrip-after-%s' % opname, [N, gi], 'tokenize -> parse after %s does not return the current list' % opname))
    return {'n': n, 'nt': nt, 'viol': viol}

def legs(tier):
    quick = tier == 'quick'
    out = []
    Ns = (1, 2, 3, 4, 5) if quick else (1, 2, 3, 4, 5, 6)
    out.append(Leg('single_py', fn_single, [['py', N, i] for N in Ns for i in range(4 ** N)], chunk=32,
                   src_states=sum(4 * 4 ** N for N in Ns),
                   bound='pyclifford N in %s: all 4^N letter strings x 4 phases x every description format, repr, tokens, N, weight, unit scalars' % (Ns,)))
    lspec = [(1, 0), (1, 1), (1, 2), (1, 3), (2, 0), (2, 1), (2, 2), (3, 1)] + ([] if quick else [(3, 2)])
    items = []
    nlists = 0
    for N, L in lspec:
        M = 4 * 4 ** N
        items += list_items('py', N, L)
        nlists += M ** L
    out.append(Leg('lists_py', fn_lists, items, chunk=24, src_states=nlists, timeout=3000,
                   bound='pyclifford: ALL lists for (N,L) in %s (N=1: 16, N=2: 64, N=3: 256 operators) x every paulis() container form x every index '
                         'expression (ints -L-1..L, all slices with bounds in -L-1..L+1 and steps None,1,2,3,-1,-2, all masks, all index arrays '
                         'of length <= 2 + three of length 3)' % (lspec,)))
    tNs = (1, 2) if quick else (1, 2, 3)
    out.append(Leg('single_torch', fn_single, [['torch', N, i] for N in tNs for i in range(4 ** N)], chunk=2,
                   src_states=sum(4 * 4 ** N for N in tNs), bound='torchclifford N in %s: as single_py (+ tensor inputs)' % (tNs,)))
    tl = [(1, 0), (1, 1), (1, 2), (2, 0), (2, 1), (2, 2)] + ([] if quick else [(1, 3), (3, 1)])
    titems = []
    for N, L in tl:
        M = 4 * 4 ** N
        titems += list_items('torch', N, L)
    out.append(Leg('lists_torch', fn_lists, titems, chunk=4, timeout=3000,
                   bound='torchclifford: all lists for (N,L) in %s; negative slice steps skipped (torch refuses them)' % (tl,)))
    out.append(Leg('live_histories', fn_live, [[N, gi] for N in (1, 2) for gi in range(4 ** N)] + [[3, gi] for gi in range(0, 64, 5)], chunk=2,
                   bound='query -> in-place rotate_by / masked rotate_by / transform_by -> query on one live Pauli / PauliList / PauliPolynomial vs a fresh object from its arrays; all generators N<=2, every 5th at N=3'))
    return out
