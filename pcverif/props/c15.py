"""C15 Pauli polynomial arithmetic is a faithful operator algebra.

Model-checking view: the state space is the set of library objects (Pauli, PauliMonomial,
PauliPolynomial, PauliList, plain numbers) reachable by expression trees over a fixed atom
pool; a transition is one public operator (+ - * / @, unary minus, reduce, casts, indexing,
trace, to_qutip, rotate_by, transform_by) executed on the real code.  Every tree up to the
stated depth is enumerated; the reference value of every node is a dense 2^N x 2^N matrix
computed with numpy from the atom specifications only (pcverif.ref.mat), the library's
result is abstracted to a dense matrix by this module from its (gs, ps, cs) arrays and,
separately, through its own to_qutip() export.

Oracle conventions (false-alarm traps, see AUTHORING.md):
* a combination Python itself rejects (TypeError, e.g. number - Pauli, Pauli * number,
  list + list) or the library refuses (NotImplementedError) is "unsupported", not wrong,
  unless the statement names it: P/M/Y (+,-,@) P/M/Y, number + P/M/Y, P/M/Y + number,
  number * P/M/Y, P/M/Y / number are REQUIRED to work;
* combinations without a matrix meaning (operator * operator, x / operator, x / 0,
  number @ x, list @ x, list + number ...) are not judged at all;
* a PauliList inside a sum is read as the sum of its entries (the library's own
  as_polynomial cast); number * list acts entry-wise;
* to_qutip() of the empty polynomial returns the scalar 0 - accepted as the zero operator;
* as_monomial()/as_list() are only demanded on plain Pauli operators (their docstrings say
  "cast a Pauli operator ... assuming coefficient = 1"): on a PauliMonomial the inherited
  casts drop the coefficient; this is recorded as a counter, not as a violation;
* KNOWN: pyclifford trace() ignores the phase indicator p (a unit test pins it): exactly the
  signatures C15/trace/py/phase-ignored/<Class>; every other trace error keeps its own one.
"""
import numpy as np
from .. import ref, dom, lib
from ..core import Leg, V

PROP = 'C15'
RULE = ('expression trees over an atom pool per N (Paulis with all 4 phases incl. phase-carrying identity, monomials '
        'with coefficients {2.5,-0.5,i,1+2i}, polynomials with repeated strings / unreduced products / tiny terms / '
        'the empty polynomial, lists incl. the empty list, numbers {0,1,2.5,i,-1,-i}); every ordered pair of atoms x '
        'every operator at the root, every (operator, atom, side) on top of every supported depth-1 node (thorough: once more '
        'on top of that when both added atoms are core atoms), all balanced depth-2 trees over the core pool; a transition = one '
        'real call whose result (or trace / to_qutip export / indexing) is compared with the dense-matrix reference; '
        'non-trivial = supported call in a tree that contains an atom carrying a phase, a coefficient or a number != 1')
ASSUMPTIONS = ['dense 2x2 Pauli matrices, numpy kron/matmul are correct (root oracle); qutip Qobj.full() returns the stored matrix',
               'bounded to N<=2 and the stated atom pool, depth<=2 (thorough: 3); coefficients outside the pool are not explored',
               'torch leg: complex64, dyadic coefficients, tolerance 2e-5*max(1,|reference|); torch has no PauliMonomial',
               'a PauliList operand of + / - denotes the sum of its entries (the library cast as_polynomial)']

IP = np.array([1, 1j, -1, -1j])
BINOPS = ('add', 'sub', 'mul', 'div', 'matmul')
OPSYM = {'add': '+', 'sub': '-', 'mul': '*', 'div': '/', 'matmul': '@'}
OPERATOR_TYPES = ('Pauli', 'PauliMonomial', 'PauliPolynomial')
REFUSALS = (TypeError, NotImplementedError)
CAP = 2          # violation records per signature and fn call (the rest is only counted)

_BASIS = {}


def basis(N):
    if N not in _BASIS:
        _BASIS[N] = np.array([ref.mat(g, 0) for g in ref.all_g(N)])
    return _BASIS[N]


def dense_terms(gs, ps, cs, N):
    """sum_k c_k i^p_k sigma[g_k] as a dense matrix (this module's own abstraction)."""
    d = 2 ** N
    gs = np.asarray(gs, dtype=np.int64).reshape(-1, 2 * N)
    if gs.shape[0] == 0:
        return np.zeros((d, d), dtype=complex)
    idx = ref.gindex(gs)
    co = np.asarray(cs, dtype=complex).reshape(-1) * IP[np.asarray(ps, dtype=np.int64).reshape(-1) % 4]
    return (basis(N)[idx] * co[:, None, None]).sum(0)


def dense_list(gs, ps, N):
    d = 2 ** N
    gs = np.asarray(gs, dtype=np.int64).reshape(-1, 2 * N)
    if gs.shape[0] == 0:
        return np.zeros((0, d, d), dtype=complex)
    return basis(N)[ref.gindex(gs)] * IP[np.asarray(ps, dtype=np.int64).reshape(-1) % 4][:, None, None]


# ---------------------------------------------------------------- atom pool
def strings(N):
    """identity and three non-identity strings with mixed (anti)commutation."""
    if N == 1:
        names = ('I', 'X', 'Y', 'Z')
    else:
        names = ('II', 'XZ', 'YI', 'ZY')
    return [tuple(int(b) for b in ref.str_to_g(s)) for s in names]


_POOL = {}


def pool(N, pkg):
    """[(spec, core)]; spec = ('P',g,p) | ('M',g,p,c) | ('Y',terms) | ('Yprod',termsA,termsB) | ('L',[(g,p)]) | ('n',c).
    tiny/small = coefficient that reduce() may drop / must keep at the package's default tol."""
    key = (N, pkg)
    if key in _POOL:
        return _POOL[key]
    I, A, B, C = strings(N)
    tiny, small = (1e-12, 1e-8) if pkg == 'py' else (2.0 ** -24, 2.0 ** -10)
    out = [
        (('P', I, 0), False), (('P', I, 1), True), (('P', I, 3), False), (('P', A, 0), True),
        (('P', A, 1), False), (('P', B, 3), True), (('P', C, 2), False),
        (('M', A, 0, 2.5), False), (('M', I, 1, -0.5), True), (('M', B, 2, 1j), False),
        (('M', C, 3, 1 + 2j), True), (('M', I, 0, 1 + 2j), False),
        (('Y', ()), True),
        (('Y', ((A, 0, 1.0), (A, 2, 0.5), (B, 1, 2.5), (A, 1, 1j))), True),
        (('Y', ((I, 1, 2.5), (I, 0, -0.5), (C, 3, 1 + 2j))), False),
        (('Yprod', ((A, 1, 1.0), (B, 0, -0.5)), ((B, 3, 1j), (C, 2, 2.5), (A, 0, 1.0))), True),
        (('Y', ((A, 0, tiny), (B, 0, small), (C, 1, 1.0))), False),
        (('Y', ((B, 3, 1 + 2j),)), False),
        (('Y', ((A, 0, 1.0), (A, 2, 1.0), (C, 0, 1.0))), False),
        (('Y', ((I, 0, 2.5),)), False),
        (('L', ((A, 0), (B, 1))), True), (('L', ((I, 2),)), False), (('L', ((I, 1), (C, 3), (A, 0))), False), (('L', ()), False),
        (('n', 0), False), (('n', 1), False), (('n', 2.5), True), (('n', 1j), True), (('n', -1), False), (('n', -1j), False),
    ]
    if pkg == 'torch':
        out = [(s, c) for s, c in out if s[0] != 'M']
    _POOL[key] = out
    return out


def plain(spec):
    """atom without phase / coefficient / non-unit number (for the non-triviality rule)."""
    t = spec[0]
    if t == 'P':
        return spec[2] == 0
    if t == 'n':
        return spec[1] == 1
    if t == 'L':
        return all(p == 0 for g, p in spec[1])
    return False


def cstr(c):
    c = complex(c)
    if c.imag == 0:
        return '%g' % c.real
    if c.real == 0:
        return '%gj' % c.imag
    return '(%g%+gj)' % (c.real, c.imag)


def tstr(terms):
    return ' + '.join('%s*%s' % (cstr(c), ref.g_to_str(g, p)) for g, p, c in terms) if terms else '<empty>'


def desc(spec):
    t = spec[0]
    if t == 'P':
        return 'Pauli(%s)' % ref.g_to_str(spec[1], spec[2])
    if t == 'M':
        return 'Mono(%s*%s)' % (cstr(spec[3]), ref.g_to_str(spec[1], spec[2]))
    if t == 'Y':
        return 'Poly[%s]' % tstr(spec[1])
    if t == 'Yprod':
        return 'Poly[%s]@Poly[%s]' % (tstr(spec[1]), tstr(spec[2]))
    if t == 'L':
        return 'List[%s]' % ', '.join(ref.g_to_str(g, p) for g, p in spec[1])
    return cstr(spec[1])


TNAME = {'P': 'Pauli', 'M': 'PauliMonomial', 'Y': 'PauliPolynomial', 'Yprod': 'PauliPolynomial', 'L': 'PauliList', 'n': 'number'}


def terms_val(terms, N):
    if not terms:
        return np.zeros((2 ** N, 2 ** N), dtype=complex)
    return sum(c * ref.mat(g, p) for g, p, c in terms)


def refval(spec, N):
    """Reference value of an atom: ('op', matrix) | ('list', array(L,d,d)) | ('num', c)."""
    t = spec[0]
    d = 2 ** N
    if t == 'P':
        return ('op', ref.mat(spec[1], spec[2]))
    if t == 'M':
        return ('op', spec[3] * ref.mat(spec[1], spec[2]))
    if t == 'Y':
        return ('op', terms_val(spec[1], N))
    if t == 'Yprod':
        return ('op', terms_val(spec[1], N) @ terms_val(spec[2], N))
    if t == 'L':
        return ('list', np.array([ref.mat(g, p) for g, p in spec[1]], dtype=complex).reshape(-1, d, d))
    return ('num', complex(spec[1]))


# ---------------------------------------------------------------- backends
class Backend(object):
    def __init__(self, pkg):
        self.pkg = pkg
        if pkg == 'py':
            self.pa = lib.ppa
            self.atol = 1e-9
        else:
            self.m = lib.torch_mods()
            self.pa = self.m['tpa']
            self.atol = 2e-5

    def tol(self, *mats):
        s = 1.0
        for m in mats:
            m = np.asarray(m)
            if m.size:
                s = max(s, float(np.abs(m).max()))
        return self.atol * s

    # ---- builders (fresh objects, the library's own dtypes)
    def poly(self, terms, N):
        gs = np.array([g for g, p, c in terms], dtype=np.int64).reshape(-1, 2 * N)
        ps = [p for g, p, c in terms]
        cs = [c for g, p, c in terms]
        if self.pkg == 'py':
            return lib.POLY(gs, ps, cs)
        return lib.tPOLY(gs, np.array(ps, dtype=np.float32), cs)

    def plist(self, elems, N):
        gs = np.array([g for g, p in elems], dtype=np.int64).reshape(-1, 2 * N)
        ps = np.array([p for g, p in elems], dtype=np.int64)
        if self.pkg == 'py':
            return self.pa.PauliList(np.array(gs, dtype=lib.INT), np.array(ps, dtype=lib.INT))
        return self.pa.PauliList(lib.tT(gs), lib.tT(ps))

    def pauli(self, g, p):
        return lib.P(g, p) if self.pkg == 'py' else lib.tP(g, p)

    def cmap(self, gs, ps):
        return lib.CM(gs, ps) if self.pkg == 'py' else lib.tCM(gs, ps)

    def build(self, spec, N):
        t = spec[0]
        if t == 'P':
            return self.pauli(spec[1], spec[2])
        if t == 'M':
            return lib.MONO(spec[1], spec[2], spec[3])
        if t == 'Y':
            return self.poly(spec[1], N)
        if t == 'Yprod':
            return self.poly(spec[1], N) @ self.poly(spec[2], N)
        if t == 'L':
            return self.plist(spec[1], N)
        return spec[1]

    # ---- abstraction of a library object
    def arr(self, x):
        if self.pkg == 'py':
            return np.asarray(x)
        t = self.m['torch']
        return x.detach().cpu().numpy() if t.is_tensor(x) else np.asarray(x)

    def ints(self, x):
        a = self.arr(x)
        r = np.rint(a.real if np.iscomplexobj(a) else a)
        if a.size and not np.array_equal(r, a):
            raise ValueError('non-integral array %r' % (a.tolist(),))
        return r.astype(np.int64)

    def tname(self, o):
        pa = self.pa
        if isinstance(o, pa.PauliPolynomial):
            return 'PauliPolynomial'
        if isinstance(o, pa.PauliList):
            return 'PauliList'
        if self.pkg == 'py' and isinstance(o, pa.PauliMonomial):
            return 'PauliMonomial'
        if isinstance(o, pa.Pauli):
            return 'Pauli'
        if isinstance(o, (int, float, complex, np.number)) and not isinstance(o, bool):
            return 'number'
        return type(o).__name__

    def parts(self, o, N):
        """(tname, gs(L,2N) int, ps(L) int, cs(L) complex or None); raises ValueError if malformed."""
        tn = self.tname(o)
        if tn in ('PauliPolynomial', 'PauliList'):
            gs, ps = self.ints(o.gs), self.ints(o.ps)
            if gs.ndim != 2 or gs.shape[1] != 2 * N or ps.shape != (gs.shape[0],):
                raise ValueError('malformed %s: gs%s ps%s' % (tn, gs.shape, ps.shape))
            cs = None
            if tn == 'PauliPolynomial':
                cs = np.asarray(self.arr(o.cs), dtype=complex)
                if cs.shape != ps.shape:
                    raise ValueError('malformed %s: cs%s ps%s' % (tn, cs.shape, ps.shape))
        elif tn in ('Pauli', 'PauliMonomial'):
            g = self.ints(o.g)
            if g.shape != (2 * N,):
                raise ValueError('malformed %s: g%s' % (tn, g.shape))
            gs, ps = g[None, :], self.ints(o.p).reshape(1)
            cs = np.array([complex(o.c)]) if tn == 'PauliMonomial' else None
        else:
            raise ValueError('not an operator: %s' % tn)
        if gs.size and (gs & ~1).any():
            raise ValueError('bits outside {0,1}')
        return tn, gs, ps, cs

    def absval(self, o, N, parts=None):
        tn = self.tname(o)
        if tn == 'number':
            return ('num', complex(o))
        tn, gs, ps, cs = parts if parts is not None else self.parts(o, N)
        if tn == 'PauliList':
            return ('list', dense_list(gs, ps, N))
        return ('op', dense_terms(gs, ps, np.ones(len(ps)) if cs is None else cs, N))

    def qutip_val(self, o, N):
        d = 2 ** N
        q = o.to_qutip()
        if isinstance(q, list):
            return ('list', np.array([np.asarray(x.full(), dtype=complex) for x in q], dtype=complex).reshape(-1, d, d))
        if isinstance(q, (int, float, complex, np.number)):
            if q == 0:
                return ('op', np.zeros((d, d), dtype=complex))      # scalar 0 = zero operator (trap)
            raise ValueError('to_qutip returned the scalar %r' % (q,))
        return ('op', np.asarray(q.full(), dtype=complex))


_BACK = {}


def backend(pkg):
    if pkg not in _BACK:
        _BACK[pkg] = Backend(pkg)
    return _BACK[pkg]


# ---------------------------------------------------------------- reference semantics
def _asop(v, d):
    k, x = v
    if k == 'op':
        return x
    if k == 'num':
        return x * np.eye(d)
    return x.sum(0) if len(x) else np.zeros((d, d), dtype=complex)


def ref_bin(op, a, b, d):
    """Reference result of `a op b` or None when the combination has no matrix meaning."""
    ka, kb = a[0], b[0]
    if op in ('add', 'sub'):
        if 'op' not in (ka, kb):
            return None                      # list+list, list+number, number+number
        x, y = _asop(a, d), _asop(b, d)
        return ('op', x + y if op == 'add' else x - y)
    if op == 'mul':
        if ka == 'num' and kb in ('op', 'list'):
            return (kb, a[1] * b[1])
        if kb == 'num' and ka in ('op', 'list'):
            return (ka, a[1] * b[1])
        return None
    if op == 'div':
        if kb == 'num' and b[1] != 0 and ka in ('op', 'list'):
            return (ka, a[1] / b[1])
        return None
    if op == 'matmul':
        if ka == 'op' and kb == 'op':
            return ('op', a[1] @ b[1])
        return None
    raise KeyError(op)


def required(op, lt, rt):
    """Combinations the statement names explicitly: they must not be refused."""
    lo, ro = lt in OPERATOR_TYPES, rt in OPERATOR_TYPES
    if op in ('add',):
        return (lo and ro) or (lo and rt == 'number') or (lt == 'number' and ro)
    if op in ('sub', 'matmul'):
        return lo and ro
    if op == 'mul':
        return lt == 'number' and ro
    if op == 'div':
        return lo and rt == 'number'
    return False


def apply_bin(op, x, y):
    if op == 'add':
        return x + y
    if op == 'sub':
        return x - y
    if op == 'mul':
        return x * y
    if op == 'div':
        return x / y
    return x @ y


def pair_disc(lt, rt):
    if lt == 'number' or rt == 'number':
        return 'operand=number'
    return '%s,%s' % (lt, rt)


class Node(object):
    __slots__ = ('obj', 'val', 'tn', 'desc', 'trivial', 'parts', 'path')

    def __init__(self, obj, val, tn, desc_, trivial, parts=None):
        self.obj, self.val, self.tn, self.desc, self.trivial, self.parts = obj, val, tn, desc_, trivial, parts
        self.path = None


class Ctx(object):
    """Per-call accumulator + the checks."""

    def __init__(self, pkg, N, item, sigcount=None):
        self.B = backend(pkg)
        self.pkg, self.N, self.item = pkg, N, item
        self.d = 2 ** N
        self.n = self.nt = 0
        self.viol = []
        self.sigcount = {} if sigcount is None else sigcount     # shared by all items of one fn call
        self.extra = {}
        self.where = None        # position of the running check inside the item: appended to the replay item

    def bump(self, k, v=1):
        self.extra[k] = self.extra.get(k, 0) + v

    def report(self, sig, msg, obs=None, exp=None):
        c = self.sigcount.get(sig, 0)
        self.sigcount[sig] = c + 1
        if c < CAP:
            self.viol.append(V(sig, list(self.item) + ([self.where] if self.where is not None else []), msg, obs, exp))
        else:
            self.bump('more:' + sig)

    def same(self, a, b):
        """'' if equal within tolerance else a short description."""
        if a[0] != b[0]:
            return 'kind %s, reference kind %s' % (a[0], b[0])
        if a[0] == 'num':
            return '' if abs(a[1] - b[1]) <= self.B.tol([b[1]]) else 'number differs'
        x, y = np.asarray(a[1]), np.asarray(b[1])
        if x.shape != y.shape:
            return 'shape %s, reference %s' % (x.shape, y.shape)
        if x.size == 0:
            return ''
        dev = float(np.abs(x - y).max())
        return '' if dev <= self.B.tol(y) else 'max deviation %.3g' % dev

    # ---- one binary transition
    def bin(self, op, L, R):
        """L, R: Node.  Returns the result Node or None (unsupported / unjudged / violation)."""
        expv = ref_bin(op, L.val, R.val, self.d)
        label = '%s %s %s' % (L.desc, OPSYM[op], R.desc)
        try:
            res = apply_bin(op, L.obj, R.obj)
        except Exception as e:
            if expv is None:
                self.bump('unjudged_raise')
                return None
            if isinstance(e, REFUSALS) and not required(op, L.tn, R.tn):
                self.bump('unsupported:%s:%s,%s' % (op, L.tn, R.tn))
                return None
            self.n += 1
            disc = 'operand=empty-polynomial' if (op == 'matmul' and (self.is_empty(L) or self.is_empty(R))) else pair_disc(L.tn, R.tn)
            self.report('C15/%s/%s/%s/raises-%s' % (self.pkg, op, disc, type(e).__name__),
                        '%s raised %s: %s' % (label, type(e).__name__, str(e)[:160]), None, _short(expv))
            return None
        if expv is None:
            self.bump('unjudged_return:%s:%s,%s' % (op, L.tn, R.tn))
            return None
        self.n += 1
        triv = L.trivial and R.trivial
        if not triv:
            self.nt += 1
        tn = self.B.tname(res)
        parts = None
        try:
            if tn == 'PauliPolynomial' and self.lost_width(res):
                self.report('C15/%s/%s/operand=empty-polynomial/qubit-count-lost' % (self.pkg, op),
                            '%s -> empty PauliPolynomial with gs of shape %s (N=%d instead of %d); any later sum with it raises' % (
                                label, tuple(res.gs.shape), res.N, self.N))
                return None
            if tn != 'number':
                parts = self.B.parts(res, self.N)
            got = self.B.absval(res, self.N, parts)
            bad = self.same(got, expv)
        except Exception as e:
            self.report('C15/%s/%s/%s/malformed' % (self.pkg, op, pair_disc(L.tn, R.tn)),
                        '%s -> %s that cannot be read as an operator (%s)' % (label, tn, str(e)[:160]), None, _short(expv))
            return None
        if bad:
            self.report('C15/%s/%s/%s/value' % (self.pkg, op, pair_disc(L.tn, R.tn)),
                        '%s -> %s %s: %s' % (label, tn, _objstr(res), bad), _short(got), _short(expv))
            return None
        return Node(res, expv, tn, '(%s)' % label, triv, parts)

    def is_empty(self, X):
        return X.tn == 'PauliPolynomial' and X.obj.gs.shape[0] == 0

    def lost_width(self, res):
        """an EMPTY polynomial whose string array forgot the qubit number (gs.shape == (0, 0))."""
        sh = tuple(res.gs.shape)
        return len(sh) == 2 and sh[0] == 0 and sh[1] != 2 * self.N

    # ---- unary transitions on a node
    def unary(self, u, X, spec=None):
        """u in neg / reduce / as_polynomial / as_monomial / as_list / item:<code>."""
        k, v = X.val
        obj = X.obj
        if k == 'num':
            return None
        if u == 'neg':
            expv, f = (k, -v), (lambda: -obj)
        elif u == 'reduce':
            if X.tn != 'PauliPolynomial':
                return None
            expv, f = (k, v), (lambda: obj.reduce())
        elif u == 'as_polynomial':
            expv, f = ('op', _asop(X.val, self.d)), (lambda: obj.as_polynomial())
        elif u == 'as_monomial':
            if X.tn != 'Pauli' or self.pkg != 'py':
                return None
            expv, f = (k, v), (lambda: obj.as_monomial())
        elif u == 'as_list':
            if X.tn != 'Pauli':
                return None
            expv, f = ('list', v[None, :, :]), (lambda: obj.as_list())
        elif u.startswith('item:'):
            if spec is None or spec[0] not in ('Y', 'L'):
                return None
            sel = select_ref(u[5:], len(spec[1])) if not (self.pkg == 'torch' and u[5:] == '::-1') else None
            if sel is None:      # torch tensors refuse negative slice steps (ValueError from torch itself): unsupported
                return None
            idx, picked = sel
            sub = [spec[1][i] for i in picked] if not isinstance(picked, int) else spec[1][picked]
            if spec[0] == 'Y':
                expv = ('op', terms_val([sub] if isinstance(picked, int) else sub, self.N))
            elif isinstance(picked, int):
                expv = ('op', ref.mat(sub[0], sub[1]))
            else:
                expv = ('list', np.array([ref.mat(g, p) for g, p in sub], dtype=complex).reshape(-1, self.d, self.d))
            f = (lambda: obj[idx])
        else:
            raise KeyError(u)
        label = '%s(%s)' % (u, X.desc)
        self.n += 1
        if not X.trivial:
            self.nt += 1
        parts = None
        uname = 'getitem' if u.startswith('item:') else u
        try:
            res = f()
        except Exception as e:
            self.report('C15/%s/%s/%s/raises-%s' % (self.pkg, uname, X.tn, type(e).__name__),
                        '%s raised %s: %s' % (label, type(e).__name__, str(e)[:160]), None, _short(expv))
            return None
        tn = self.B.tname(res)
        try:
            if tn != 'number':
                parts = self.B.parts(res, self.N)
            got = self.B.absval(res, self.N, parts)
            bad = self.same(got, expv)
        except Exception as e:
            self.report('C15/%s/%s/%s/malformed' % (self.pkg, uname, X.tn),
                        '%s -> %s that cannot be read as an operator (%s)' % (label, tn, str(e)[:160]), None, _short(expv))
            return None
        if bad:
            self.report('C15/%s/%s/%s/value' % (self.pkg, uname, X.tn),
                        '%s -> %s %s: %s' % (label, tn, _objstr(res), bad), _short(got), _short(expv))
            return None
        if u == 'reduce':
            self.reduced_form(res, label, parts)
        return Node(res, expv, tn, label, X.trivial, parts)

    def reduced_form(self, res, label, parts):
        """reduce(): strings merged (unique) and phases moved into the coefficients (ps == 0)."""
        tn, gs, ps, cs = parts
        if len(gs) != len({tuple(g) for g in gs.tolist()}):
            self.report('C15/%s/reduce/not-merged' % self.pkg, '%s still has repeated strings: %s' % (label, _objstr(res)))
        if (ps % 4 != 0).any():
            self.report('C15/%s/reduce/phase-left' % self.pkg, '%s keeps phase indicators %s' % (label, ps.tolist()))

    # ---- observations on a node
    def trace(self, X):
        k, v = X.val
        if k == 'num':
            return
        exp = np.trace(v) if k == 'op' else np.array([np.trace(m) for m in v], dtype=complex)
        self.n += 1
        if not X.trivial:
            self.nt += 1
        try:
            t = X.obj.trace()
            got = np.asarray(self.B.arr(t), dtype=complex)
            if X.parts is None:
                X.parts = self.B.parts(X.obj, self.N)
            tn, gs, ps, cs = X.parts
        except Exception as e:
            self.report('C15/trace/%s/raises-%s/%s' % (self.pkg, type(e).__name__, X.tn),
                        'trace(%s) raised %s: %s' % (X.desc, type(e).__name__, str(e)[:160]))
            return
        tol = self.B.tol(exp, v)
        if got.shape == np.shape(exp) and (got.size == 0 or np.abs(got - exp).max() <= tol):
            return
        # the known defect: identity terms contribute c * 2^N, phase indicator ignored
        ident = ~gs.any(axis=1)
        co = np.ones(len(ps), dtype=complex) if cs is None else cs
        contrib = np.where(ident, co * self.d, 0)
        alt = contrib if k == 'list' else contrib.sum()
        phased = bool((ident & (ps % 4 != 0) & (co != 0)).any())
        if self.pkg == 'py' and phased and got.shape == np.shape(alt) and np.abs(got - alt).max() <= tol:
            self.report('C15/trace/py/phase-ignored/%s' % X.tn,
                        'trace(%s) = %s, matrix trace is %s (identity term with phase indicator p != 0: p ignored)' % (
                            X.desc, _num(got), _num(exp)), _num(got), _num(exp))
        else:
            self.report('C15/trace/%s/value/%s' % (self.pkg, X.tn),
                        'trace(%s) = %s, matrix trace is %s' % (X.desc, _num(got), _num(exp)), _num(got), _num(exp))

    def qutip(self, X):
        if X.val[0] == 'num':
            return
        self.n += 1
        try:
            got = self.B.qutip_val(X.obj, self.N)
            bad = self.same(got, X.val)
        except Exception as e:
            self.report('C15/%s/to_qutip/%s/raises-%s' % (self.pkg, X.tn, type(e).__name__),
                        'to_qutip(%s) raised %s: %s' % (X.desc, type(e).__name__, str(e)[:160]))
            return
        if bad:
            self.report('C15/%s/to_qutip/%s/value' % (self.pkg, X.tn),
                        'to_qutip(%s = %s) is not the matrix of the expression: %s' % (X.desc, _objstr(X.obj), bad),
                        _short(got), _short(X.val))

    def indexing(self, X):
        """obj[item] of a polynomial / list result selects terms like a Python list (terms read
        from the result's own arrays, whose sum was already compared with the reference)."""
        if X.tn not in ('PauliPolynomial', 'PauliList'):
            return
        try:
            if X.parts is None:
                X.parts = self.B.parts(X.obj, self.N)
            tn, gs, ps, cs = X.parts
        except Exception:
            return
        L = len(ps)
        co = np.ones(L, dtype=complex) if cs is None else cs
        for code in ITEM_CODES:
            sel = select_ref(code, L) if not (self.pkg == 'torch' and code == '::-1') else None
            if sel is None:
                continue
            idx, picked = sel
            if isinstance(picked, int):
                if tn == 'PauliPolynomial' and self.pkg == 'torch':
                    continue          # torch has no PauliMonomial: poly[int] is checked in the atoms leg only
                expv = ('op', dense_terms(gs[picked:picked + 1] if picked >= 0 else gs[[picked]], [ps[picked]], [co[picked]], self.N))
            elif tn == 'PauliPolynomial':
                expv = ('op', dense_terms(gs[picked], ps[picked], co[picked], self.N))
            else:
                expv = ('list', dense_list(gs[picked], ps[picked], self.N))
            self.n += 1
            try:
                got = self.B.absval(X.obj[idx], self.N)
                bad = self.same(got, expv)
            except Exception as e:
                self.report('C15/%s/getitem/%s/raises-%s' % (self.pkg, tn, type(e).__name__),
                            '(%s)[%s] raised %s: %s' % (X.desc, code, type(e).__name__, str(e)[:120]))
                continue
            if bad:
                self.report('C15/%s/getitem/%s/value' % (self.pkg, tn), '(%s = %s)[%s]: %s' % (X.desc, _objstr(X.obj), code, bad),
                            _short(got), _short(expv))

    def unchanged(self, X):
        """operands are not modified by the operators applied on top of them."""
        try:
            bad = self.same(self.B.absval(X.obj, self.N), X.val)
        except Exception as e:
            bad = '%s: %s' % (type(e).__name__, e)
        if bad:
            self.report('C15/%s/operand-modified/%s' % (self.pkg, X.tn), '%s changed while being used as an operand: %s' % (X.desc, bad))

    def result(self):
        return {'n': self.n, 'nt': self.nt, 'viol': self.viol, 'extra': self.extra}


ITEM_CODES = ('0', '-1', '1', '1:', ':-1', '::2', '::-1', 'mask', 'idx', 'lst')


def select_ref(code, L):
    """(index object for the library, Python-list selection) or None if not applicable."""
    if code in ('0', '-1', '1'):
        k = int(code)
        if not (-L <= k < L):
            return None
        return k, k
    if code in ('1:', ':-1', '::2', '::-1'):
        a, b, c = (code.split(':') + [''])[:3]
        sl = slice(int(a) if a else None, int(b) if b else None, int(c) if c else None)
        return sl, list(range(L))[sl]
    if code == 'mask':
        m = np.array([i % 2 == 0 for i in range(L)], dtype=bool)
        return m, [i for i in range(L) if m[i]]
    if code == 'idx':
        if L == 0:
            return None
        ix = [L - 1, 0, 0]
        return np.array(ix), [i % L for i in ix]
    if code == 'lst':
        if L == 0:
            return None
        ix = [-1, 0]
        return ix, [i % L for i in ix]
    raise KeyError(code)


def _num(x):
    a = np.asarray(x, dtype=complex).reshape(-1)
    return [cstr(np.round(c, 12)) for c in a.tolist()]


def _short(v):
    if v is None:
        return None
    k, x = v
    if k == 'num':
        return cstr(x)
    return {'kind': k, 'matrix': np.round(np.asarray(x), 10).tolist()}


def _objstr(o):
    try:
        s = repr(o)
    except Exception as e:
        s = '<repr failed: %s>' % type(e).__name__
    return s.replace('\n', ' | ')[:160]


_ATOMREF = {}


def atom_node(B, spec, N):
    key = (N, spec)
    if key not in _ATOMREF:
        _ATOMREF[key] = (refval(spec, N), TNAME[spec[0]], desc(spec), plain(spec))
    val, tn, ds, pl = _ATOMREF[key]
    return Node(B.build(spec, N), val, tn, ds, pl)


# ---------------------------------------------------------------- leg: expression trees
UNARY_NODE = ('neg', 'reduce', 'as_polynomial')
UNARY_ATOM = ('neg', 'reduce', 'as_polynomial', 'as_monomial', 'as_list') + tuple('item:' + c for c in ITEM_CODES)


def observe(ctx, X, level, qutip):
    ctx.where = X.path + ['trace']
    ctx.trace(X)
    if qutip:
        ctx.where = X.path + ['qutip']
        ctx.qutip(X)
    if level <= 1:
        ctx.where = X.path + ['index']
        ctx.indexing(X)


def expand(ctx, X, level, maxdepth, pl):
    """every (operator, atom, side) and every unary operator on top of node X."""
    B, N = ctx.B, ctx.N
    for k, (spec, core) in enumerate(pl):
        if level == 3 and not core:
            continue
        for op in BINOPS:
            for side in (0, 1):
                A = atom_node(B, spec, N)
                path = X.path + [[k, op, side]]
                ctx.where = path + ['value']
                Y = ctx.bin(op, X, A) if side == 0 else ctx.bin(op, A, X)
                if Y is None:
                    continue
                Y.path = path
                observe(ctx, Y, level, qutip=(level == 2 and core and side == 0))
                if level < maxdepth and core:
                    expand(ctx, Y, level + 1, maxdepth, pl)
    for u in UNARY_NODE:
        ctx.where = X.path + [['u', u], 'value']
        Y = ctx.unary(u, X)
        if Y is not None:
            Y.path = X.path + [['u', u]]
            observe(ctx, Y, level, qutip=(level == 2))
    ctx.where = X.path + ['unchanged']
    ctx.unchanged(X)


def roots(ctx, i, j, pl):
    """depth-1 nodes of item (i, j): every operator on the ordered atom pair, or (j < 0)
    the atom itself with its observations and every unary operator on it."""
    B, N = ctx.B, ctx.N
    out = []
    if j >= 0:
        for op in BINOPS:
            if pl[i][0][0] == 'n' and pl[j][0][0] == 'n':
                continue
            ctx.where = [op, 'value']
            Y = ctx.bin(op, atom_node(B, pl[i][0], N), atom_node(B, pl[j][0], N))
            if Y is not None:
                Y.path = [op]
                out.append(Y)
    else:
        spec = pl[i][0]
        if spec[0] == 'n':
            return out
        A = atom_node(B, spec, N)
        A.path = ['atom']
        observe(ctx, A, 0, qutip=True)
        ctx.where = ['atom', 'unchanged']
        ctx.unchanged(A)
        if spec[0] == 'M':
            # inherited casts on a monomial: recorded, not judged (see module docstring)
            try:
                if ctx.same(B.absval(A.obj.as_monomial(), N), A.val):
                    ctx.bump('note:PauliMonomial.as_monomial drops the coefficient (not judged)')
            except Exception:
                pass
        for u in UNARY_ATOM:
            ctx.where = [u, 'value']
            Y = ctx.unary(u, atom_node(B, spec, N), spec)
            if Y is not None:
                Y.path = [u]
                out.append(Y)
    return out


def replay_tree(ctx, i, j, where, pl, maxdepth):
    """re-execute exactly one tree and one check: where = [root, step..., what]; root = operator name
    (j >= 0) | unary name | 'atom'; step = [k, op, side] | ['u', unary]; what = value | trace | qutip |
    index | unchanged."""
    B, N = ctx.B, ctx.N
    root, steps, what = where[0], where[1:-1], where[-1]
    ctx.where = [root, 'value']
    if j >= 0:
        X = ctx.bin(root, atom_node(B, pl[i][0], N), atom_node(B, pl[j][0], N))
    elif root == 'atom':
        X = atom_node(B, pl[i][0], N)
    else:
        X = ctx.unary(root, atom_node(B, pl[i][0], N), pl[i][0])
    path = [root]
    for st in steps:
        if X is None:
            return
        path = path + [st]
        ctx.where = path + ['value']
        if st[0] == 'u':
            X = ctx.unary(st[1], X)
        else:
            k, op, side = st
            A = atom_node(B, pl[k][0], N)
            X = ctx.bin(op, X, A) if side == 0 else ctx.bin(op, A, X)
    if X is None:
        return
    X.path = path
    ctx.where = path + [what]
    if what == 'trace':
        ctx.trace(X)
    elif what == 'qutip':
        ctx.qutip(X)
    elif what == 'index':
        ctx.indexing(X)
    elif what == 'unchanged':
        if root != 'atom':
            expand(ctx, X, len(path) + 1, maxdepth, pl)
        else:
            ctx.unchanged(X)


def fn_trees(items, maxdepth=2):
    """item = [pkg, N, i, j]: all trees whose depth-1 node is `atom_i op atom_j` (j >= 0) or
    `unary(atom_i)` (j = -1)."""
    out = {'n': 0, 'nt': 0, 'viol': [], 'extra': {}, 'samples': []}
    sc = {}
    for item in items:
        pkg, N, i, j = item[:4]
        pl = pool(N, pkg)
        if len(item) > 4:           # replay of one tree / one check
            ctx = Ctx(pkg, N, item[:4], sc)
            replay_tree(ctx, i, j, item[4], pl, maxdepth)
            _merge(out, ctx)
            continue
        ctx = Ctx(pkg, N, item, sc)
        for Y in roots(ctx, i, j, pl):
            observe(ctx, Y, 1, qutip=True)
            expand(ctx, Y, 2, maxdepth, pl)
        _merge(out, ctx)
        if not out['samples'] and j >= 0 and pl[i][0][0] == 'Yprod' and pl[j][0][0] == 'M':
            out['samples'].append({'pkg': pkg, 'N': N, 'root': '%s <op> %s' % (desc(pl[i][0]), desc(pl[j][0])),
                                   'transitions': ctx.n, 'unsupported': {k: v for k, v in ctx.extra.items() if k.startswith('unsupported')}})
    return out


def fn_trees3(items):
    return fn_trees(items, maxdepth=3)


def _merge(out, ctx):
    r = ctx.result()
    out['n'] += r['n']
    out['nt'] += r['nt']
    out['viol'].extend(r['viol'])
    for k, v in r['extra'].items():
        out['extra'][k] = out['extra'].get(k, 0) + v


def d1_specs(N, pkg):
    """depth-1 tree specs over the core pool: (op, i, j) and (unary, i, -1)."""
    pl = pool(N, pkg)
    core = [k for k, (s, c) in enumerate(pl) if c]
    out = []
    for i in core:
        for j in core:
            if pl[i][0][0] == 'n' and pl[j][0][0] == 'n':
                continue
            for op in BINOPS:
                out.append((op, i, j))
        if pl[i][0][0] != 'n':
            for u in UNARY_NODE:
                out.append((u, i, -1))
    return out


def build_d1(ctx, spec3, pl, quiet=True):
    op, i, j = spec3
    B, N = ctx.B, ctx.N
    n0, nt0, nv, sc0, ex0 = ctx.n, ctx.nt, len(ctx.viol), dict(ctx.sigcount), dict(ctx.extra)
    if j >= 0:
        Y = ctx.bin(op, atom_node(B, pl[i][0], N), atom_node(B, pl[j][0], N))
    else:
        Y = ctx.unary(op, atom_node(B, pl[i][0], N), pl[i][0])
    if quiet:     # depth-1 nodes are judged (and counted) in the trees leg; here they are only operands
        ctx.n, ctx.nt = n0, nt0
        del ctx.viol[nv:]
        ctx.sigcount.clear()
        ctx.sigcount.update(sc0)
        ctx.extra.clear()
        ctx.extra.update(ex0)
    return Y


def fn_balanced(items):
    """item = [pkg, N, k]: k-th depth-1 tree over the core pool as LEFT operand, every depth-1
    tree over the core pool as right operand, every operator (balanced depth-2 trees)."""
    out = {'n': 0, 'nt': 0, 'viol': [], 'extra': {}}
    sc = {}
    for item in items:
        pkg, N, k = item[:3]
        only = item[3] if len(item) > 3 else None      # replay: [index of the right tree, operator, what]
        pl = pool(N, pkg)
        specs = d1_specs(N, pkg)
        ctx = Ctx(pkg, N, item[:3], sc)
        Lnode = build_d1(ctx, specs[k], pl)
        if Lnode is not None:
            for si, s in enumerate(specs):
                if only is not None and only[0] != si:
                    continue
                Rnode = build_d1(ctx, s, pl)
                if Rnode is None:
                    continue
                for op in BINOPS:
                    if only is not None and only[1] != op:
                        continue
                    ctx.where = [si, op, 'value']
                    Y = ctx.bin(op, Lnode, Rnode)
                    if Y is not None and (only is None or only[2] == 'trace'):
                        ctx.where = [si, op, 'trace']
                        ctx.trace(Y)
            if only is None:
                ctx.where = [-1, '', 'unchanged']
                ctx.unchanged(Lnode)
        _merge(out, ctx)
    return out


# ---------------------------------------------------------------- leg: reduce(tol)
RED_COEF = {'py': (1.0, 1e-12, 1e-8, -0.5, 1j), 'torch': (1.0, 2.0 ** -24, 2.0 ** -10, -0.5, 1j)}
RED_TOLS = {'py': (None, 1e-14, 1e-6, 0.7, 0.0), 'torch': (None, 1e-9, 1e-2, 0.7, 0.0)}
DEFAULT_TOL = {'py': 1e-10, 'torch': 1e-5}


def red_terms(N, pkg):
    return [(g, p, c) for g in strings(N) for p in range(4) for c in RED_COEF[pkg]]


def fn_reduce(items):
    """item = [pkg, N, t1, t2, mode]: polynomials (), (t1), (t1,t2) and - mode >= 1 - (t1,t2,t3) for
    every third term t3; t = index into red_terms or -1.  reduce() with every tolerance of RED_TOLS
    (mode 2: the 3-term polynomials only with the default tolerance and the third one).
    Checks: strings merged, phases moved into the coefficients, a string is dropped only if
    |aggregated coefficient| <= tol, kept coefficients exact, ||before - after|| <= (#dropped) * tol."""
    out = {'n': 0, 'nt': 0, 'viol': [], 'extra': {}, 'samples': []}
    sc = {}
    for item in items:
        pkg, N, t1, t2, mode = item[:5]
        only = item[5] if len(item) > 5 else None       # replay: [index of the polynomial, index of the tolerance]
        ctx = Ctx(pkg, N, item[:5], sc)
        B = ctx.B
        T = red_terms(N, pkg)
        eps = 1e-12 if pkg == 'py' else 3e-6
        polys = []
        if t1 < 0:
            polys.append(())
        elif t2 < 0:
            polys.append((T[t1],))
        else:
            polys.append((T[t1], T[t2]))
            if mode:
                polys.extend((T[t1], T[t2], t3) for t3 in T)
        for pi, terms in enumerate(polys):
            if only is not None and only[0] != pi:
                continue
            agg = {}
            for g, p, c in terms:
                agg[g] = agg.get(g, 0) + c * IP[p]
            before = terms_val(terms, N)
            scale = max([1.0] + [abs(c) for g, p, c in terms])
            tols = RED_TOLS[pkg]
            if mode == 2 and len(terms) == 3:
                tols = (tols[0], tols[2])
            nontriv = len(agg) < len(terms) or any(p for g, p, c in terms)
            for ti, tolarg in enumerate(tols):
                if only is not None and only[1] != ti:
                    continue
                ctx.where = [pi, ti]
                tol = DEFAULT_TOL[pkg] if tolarg is None else tolarg
                P = B.poly(terms, N)
                ctx.n += 1
                if nontriv:
                    ctx.nt += 1

                def label():
                    return 'Poly[%s].reduce(%s)' % (tstr(terms), '' if tolarg is None else 'tol=%g' % tolarg)
                try:
                    R = P.reduce() if tolarg is None else P.reduce(tol=tolarg)
                    tn, gs, ps, cs = B.parts(R, N)
                    if tn != 'PauliPolynomial':
                        raise ValueError('reduce returned a %s' % tn)
                except Exception as e:
                    ctx.report('C15/%s/reduce/raises-%s' % (pkg, type(e).__name__), '%s raised %s: %s' % (label(), type(e).__name__, str(e)[:160]))
                    continue
                keys = [tuple(g) for g in gs.tolist()]
                if len(set(keys)) != len(keys):
                    ctx.report('C15/%s/reduce/not-merged' % pkg, '%s -> %s: repeated strings' % (label(), _objstr(R)))
                    continue
                if ps.any() and (ps % 4 != 0).any():
                    ctx.report('C15/%s/reduce/phase-left' % pkg, '%s -> %s keeps phase indicators %s' % (label(), _objstr(R), ps.tolist()))
                    continue
                got = dict(zip(keys, cs.tolist()))
                bad = ''
                for g in got:
                    if g not in agg:
                        bad = 'string %s appears from nowhere' % ref.g_to_str(g)
                    elif abs(got[g] - agg[g]) > eps * scale:
                        bad = 'coefficient of %s is %s, should be %s' % (ref.g_to_str(g), cstr(got[g]), cstr(agg[g]))
                if bad:
                    ctx.report('C15/%s/reduce/coefficient' % pkg, '%s -> %s: %s' % (label(), _objstr(R), bad))
                    continue
                dropped = [g for g in agg if g not in got]
                big = [g for g in dropped if abs(agg[g]) > tol * (1 + 1e-6) + (0 if pkg == 'py' else 1e-7)]
                if big:
                    ctx.report('C15/%s/reduce/dropped-above-tol' % pkg, '%s -> %s: dropped %s with |c|=%.3g > tol=%g' % (
                        label(), _objstr(R), ref.g_to_str(big[0]), abs(agg[big[0]]), tol), None, cstr(agg[big[0]]))
                    continue
                diff = before - dense_terms(gs, ps, cs, N)
                bound = len(dropped) * tol + eps * scale * max(1, len(terms))
                dist = float(np.sqrt((np.abs(diff) ** 2).sum()))          # Frobenius >= spectral norm
                if dist > bound:
                    dist = float(np.linalg.norm(diff, 2))
                    if dist > bound:
                        ctx.report('C15/%s/reduce/norm' % pkg, '%s -> %s: operator changed by %.3g > %d*tol' % (label(), _objstr(R), dist, len(dropped)))
        _merge(out, ctx)
        if not out['samples'] and t2 >= 0:
            out['samples'].append({'pkg': pkg, 'N': N, 'first_terms': tstr((T[t1], T[t2])), 'polynomials': len(polys), 'tolerances': [str(t) for t in RED_TOLS[pkg]]})
    return out


# ---------------------------------------------------------------- leg: rotate_by / transform_by are linear
def linear_subjects(N, pkg):
    """pool atoms (operators and lists) + one polynomial over the whole Pauli basis."""
    subs = [s for s, c in pool(N, pkg) if s[0] != 'n']
    coefs = (2.5, -0.5, 1j, 1 + 2j, 1.0)
    full = tuple((tuple(int(b) for b in g), (3 * k + 1) % 4, coefs[k % 5]) for k, g in enumerate(ref.all_g(N)))
    subs.append(('Y', full))
    subs.append(('Y', full[::-1] + full[:3]))
    return subs


def map_menu(N, tier):
    maps = dom.valid_maps(N)
    if N == 1:
        return list(range(len(maps)))
    step = 523 if tier == 'quick' else 61
    return list(range(0, len(maps), step))


_UMAP = {}


def unitary_of(N, k):
    if (N, k) not in _UMAP:
        t, s = dom.valid_maps(N)[k]
        U = ref.unitary_of_map(t, s, N)
        assert U is not None
        _UMAP[(N, k)] = U
    return _UMAP[(N, k)]


def _coeffs(B, obj, tn):
    if tn == 'PauliPolynomial':
        return np.array(B.arr(obj.cs), dtype=complex).copy()
    if tn == 'PauliMonomial':
        return np.array([complex(obj.c)])
    return None


def fn_linear(items, tier='quick'):
    """item = [pkg, N, s]: subject s x every Hermitian generator (rotate_by, with and without a
    one-qubit mask) x a menu of Clifford maps (transform_by, with and without mask):
    value -> U^dag value U, coefficients bitwise untouched, number of terms unchanged."""
    out = {'n': 0, 'nt': 0, 'viol': [], 'extra': {}, 'samples': []}
    sc = {}
    for item in items:
        pkg, N, s = item[:3]
        only = item[3] if len(item) > 3 else None       # replay: [index of the action]
        ctx = Ctx(pkg, N, item[:3], sc)
        B = ctx.B
        spec = linear_subjects(N, pkg)[s]
        val = refval(spec, N)
        tn0 = TNAME[spec[0]]
        d = 2 ** N
        acts = []
        for g, p in dom.hermitian_paulis(N):
            acts.append(('rotate_by(%s)' % ref.g_to_str(g, p), 'rotate_by', ref.rot_unitary(g, p, N),
                         (lambda o, g=g, p=p: o.rotate_by(B.pauli(g, p)))))
        for k in map_menu(N, tier):
            t, sg = dom.valid_maps(N)[k]
            acts.append(('transform_by(map#%d)' % k, 'transform_by', unitary_of(N, k),
                         (lambda o, t=t, sg=sg: o.transform_by(B.cmap(t, sg)))))
        if N == 2:
            for q in (0, 1):
                m = [q == 0, q == 1]
                for g, p in dom.hermitian_paulis(1):
                    gf = np.zeros(4, dtype=np.int64)
                    gf[2 * q:2 * q + 2] = g
                    acts.append(('rotate_by(%s,mask=%s)' % (ref.g_to_str(g, p), m), 'rotate_by-mask', ref.rot_unitary(gf, p, 2),
                                 (lambda o, g=g, p=p, m=m: o.rotate_by(B.pauli(g, p), mask=np.array(m)))))
                for k in range(0, 24, 1 if tier != 'quick' else 5):
                    t, sg = dom.valid_maps(1)[k]
                    U = ref.embed_1q(unitary_of(1, k), q, 2)
                    if pkg == 'py':
                        f = (lambda o, t=t, sg=sg, m=m: o.transform_by(B.cmap(t, sg), mask=np.array(m)))
                    else:
                        f = (lambda o, t=t, sg=sg, m=m: o.transform_by(B.cmap(t, sg), mask=B.m['torch'].tensor(m)))
                    acts.append(('transform_by(map1#%d,mask=%s)' % (k, m), 'transform_by-mask', U, f))
        for ai, (label, kind, U, f) in enumerate(acts):
            if only is not None and only[0] != ai:
                continue
            ctx.where = [ai]
            obj = B.build(spec, N)
            if spec[0] == 'Yprod' and pkg == 'py':
                obj = obj.copy()
            c0 = _coeffs(B, obj, tn0)
            k0, v0 = val
            expv = (k0, U.conj().T @ v0 @ U)        # broadcasts over a list
            ctx.n += 1
            ctx.nt += 1
            try:
                f(obj)
                got = B.absval(obj, N)
                bad = ctx.same(got, expv)
                c1 = _coeffs(B, obj, tn0)
            except Exception as e:
                ctx.report('C15/%s/%s/%s/raises-%s' % (pkg, kind, tn0, type(e).__name__),
                           '%s.%s raised %s: %s' % (desc(spec)[:80], label, type(e).__name__, str(e)[:160]))
                continue
            if bad:
                ctx.report('C15/%s/%s/%s/value' % (pkg, kind, tn0), '%s.%s is not U^dag (.) U applied term by term: %s -> %s' % (
                    desc(spec)[:120], label, bad, _objstr(obj)), _short(got), _short(expv))
            elif c0 is not None and (c1.shape != c0.shape or not np.array_equal(c0, c1)):
                ctx.report('C15/%s/%s/%s/coefficients-touched' % (pkg, kind, tn0), '%s.%s changed the coefficients %s -> %s' % (
                    desc(spec)[:120], label, c0.tolist(), c1.tolist()))
        _merge(out, ctx)
        if not out['samples'] and spec[0] == 'Y' and len(spec[1]) > 4:
            out['samples'].append({'pkg': pkg, 'N': N, 'subject': desc(spec)[:200], 'actions': len(acts), 'first': acts[0][0], 'last': acts[-1][0]})
    return out


def fn_linear_thorough(items):
    return fn_linear(items, tier='thorough')


# ---------------------------------------------------------------- legs

def fn_trace_bign(items):
    """item = [N]: trace() of every string x 4 phases at N=3,4 as Pauli, PauliMonomial, PauliList and
    PauliPolynomial (2^N differs from 2N only for N>=3).  The pinned phase-ignoring behaviour of pyclifford
    keeps its known-finding signature; any other wrong value is reported."""
    from ..core import V
    n = nt = 0
    viol = []
    pool = [2.5, -0.5, 1j, 1 + 2j]
    for (N,) in items:
        G = ref.all_g(N)
        d = 2 ** N
        for k, g in enumerate(G):
            ident = not g.any()
            for p in range(4):
                c = pool[(k + p) % 4]
                cases = [('Pauli', lib.P(g, p), (1j ** p) * d if ident else 0, d if ident else 0),
                         ('PauliMonomial', lib.MONO(g, p, c), c * (1j ** p) * d if ident else 0, c * d if ident else 0)]
                for cls, obj, truth, ignored in cases:
                    got = complex(obj.trace())
                    n += 1
                    nt += int(ident)
                    if abs(got - truth) < 1e-9:
                        continue
                    if p != 0 and abs(got - ignored) < 1e-9:
                        viol.append(V('C15/trace/py/phase-ignored/%s' % cls, [N], 'trace(%s %s) = %s, matrix trace %s (phase indicator ignored)' % (cls, ref.g_to_str(g, p), got, truth)))
                    else:
                        viol.append(V('C15/trace/py/value/%s' % cls, [N], 'N=%d: trace(%s %s) = %s, matrix trace is %s' % (N, cls, ref.g_to_str(g, p), got, truth), str(got), str(truth)))
        # list and polynomial over the whole group
        Gs = np.concatenate([G] * 4)
        Ps = np.repeat(np.arange(4), len(G))
        cs = np.array([pool[i % 4] for i in range(len(Gs))])
        idm = ~Gs.any(axis=1)
        lt = np.asarray(lib.PL(Gs, Ps).trace()).astype(complex)
        truth = np.where(idm, (1j ** Ps) * d, 0)
        ign = np.where(idm, d, 0).astype(complex)
        n += len(Gs)
        if not np.allclose(lt, truth):
            if np.allclose(lt, ign):
                viol.append(V('C15/trace/py/phase-ignored/PauliList', [N], 'PauliList.trace ignores the phase indicator (N=%d)' % N))
            else:
                viol.append(V('C15/trace/py/value/PauliList', [N], 'N=%d: PauliList.trace differs from the matrix traces' % N))
        pt = complex(lib.POLY(Gs, Ps, cs).trace())
        n += 1
        if abs(pt - (cs * truth).sum()) > 1e-9:
            if abs(pt - (cs * ign).sum()) < 1e-9:
                viol.append(V('C15/trace/py/phase-ignored/PauliPolynomial', [N], 'PauliPolynomial.trace ignores the phase indicator (N=%d)' % N))
            else:
                viol.append(V('C15/trace/py/value/PauliPolynomial', [N], 'N=%d: PauliPolynomial.trace = %s, matrix trace %s' % (N, pt, (cs * truth).sum())))
    return {'n': n, 'nt': nt, 'viol': viol}

# ---------------------------------------------------------------- wide registers: reduce / sums by a dictionary oracle
def fn_reduce_wide(items):
    """item = [pkg, N] (N = 5..9): polynomials whose terms are pairwise equal everywhere except at ONE qubit (for
    every qubit position and every pair of letters there), plus exact repeats with other phases; reduce() and `a + b`
    must merge exactly the equal strings.  Oracle: a dictionary string -> sum of c * i^p (no dense matrices)."""
    from ..core import V
    n = nt = 0
    viol = []
    IPW = (1, 1j, -1, -1j)
    for pkg, N in items:
        mkpoly = lib.POLY if pkg == 'py' else lib.tPOLY
        eps = 1e-9 if pkg == 'py' else 1e-4
        base = np.array([(1, 0), (0, 1), (1, 1), (0, 0), (1, 0), (1, 1), (0, 1), (0, 0), (1, 1)][:N], dtype=np.int64).reshape(-1)   # X Z Y I X Y Z I Y
        LET = [(0, 0), (1, 0), (1, 1), (0, 1)]
        for q in range(N):
            gs, ps, cs = [], [], []
            for k, l in enumerate(LET):
                g = base.copy()
                g[2 * q:2 * q + 2] = l
                gs += [g, g.copy()]
                ps += [k % 4, (k + 1 + q) % 4]
                cs += [0.75 + k, (0.5 - 1.25j) * (q + 1)]
            gs, ps, cs = np.array(gs), np.array(ps), np.array(cs, dtype=complex)
            agg = {}
            for g, p, c in zip(gs, ps, cs):
                agg[g.tobytes()] = agg.get(g.tobytes(), 0) + c * IPW[p]
            half = len(gs) // 2
            for how in ('reduce', 'sum'):
                try:
                    if how == 'reduce':
                        R = mkpoly(gs, ps, cs).reduce()
                    else:
                        R = mkpoly(gs[:half], ps[:half], cs[:half]) + mkpoly(gs[half:], ps[half:], cs[half:])
                        R = R.reduce()
                    rg, rp = lib.t2n(R.gs).astype(np.int64), lib.t2n(R.ps).astype(np.int64)
                    rc = R.cs.detach().numpy() if hasattr(R.cs, 'detach') else np.asarray(R.cs)
                except Exception as e:
                    viol.append(V('C15/%s/wide/%s/raises-%s' % (pkg, how, type(e).__name__), [pkg, N], 'N=%d terms differing at qubit %d: %s raised %s: %s' % (N, q, how, type(e).__name__, e)))
                    continue
                n += 1
                nt += 1
                got = {}
                for g, p, c in zip(rg, rp, rc):
                    got[g.tobytes()] = got.get(g.tobytes(), 0) + complex(c) * IPW[int(p) % 4]
                keys = set(agg) | set(got)
                bad = [k for k in keys if abs(got.get(k, 0) - agg.get(k, 0)) > eps * 10]
                if bad or len(rg) != len({g.tobytes() for g in rg}):
                    kb = bad[0] if bad else None
                    viol.append(V('C15/%s/wide/%s/value' % (pkg, how), [pkg, N],
                                  'N=%d, 8 terms equal except at qubit %d: %s gives %d terms; %s' % (
                                      N, q, how, len(rg), ('coefficient of %s is %s, the sum of its terms is %s' % (
                                          ref.g_to_str(np.frombuffer(kb, dtype=np.int64)), got.get(kb, 0), agg.get(kb, 0))) if kb else 'repeated strings left')))
    return {'n': n, 'nt': nt, 'viol': viol}


# ---------------------------------------------------------------- arithmetic -> in-place operation -> arithmetic on ONE operand object
def fn_live(items):
    """item = [pkg, N, gi]: an operand object X (Pauli, PauliMonomial, PauliList element, PauliPolynomial) is used in
    +, -, @ (both sides), scalar multiplication and negation; then X is rotated / transformed IN PLACE (rotate_by with
    both signs of every generator class, masked rotate_by, transform_by) and used in the same expressions again.
    Every value must equal the one computed with a FRESH object built from X's current arrays (dense matrices); a
    converted form memoised on the object shows up here."""
    from ..core import V
    from .c01 import _dense
    n = nt = 0
    viol = []
    for pkg, N, gi in items:
        py = pkg == 'py'
        P, POLY = (lib.P, lib.POLY) if py else (lib.tP, lib.tPOLY)
        G = ref.all_g(N)
        g0 = G[gi]
        Q = POLY(G[[1, len(G) - 1]], np.array([0, 3]), [2.0, 0.5 - 1j])
        Q1 = P(G[len(G) // 2], 1)

        def uses(X):
            out = {}
            for nm, f in (('X+Q', lambda: X + Q), ('Q+X', lambda: Q + X), ('X-Q', lambda: X - Q), ('X@Q', lambda: X @ Q), ('Q@X', lambda: Q @ X),
                          ('X@P', lambda: X @ Q1), ('P@X', lambda: Q1 @ X), ('2.5*X', lambda: 2.5 * X), ('-X', lambda: -X), ('X+1', lambda: X + 1),
                          ('X/2', lambda: X / 2)):
                try:
                    out[nm] = _dense(f(), N)
                except (NotImplementedError, TypeError, AttributeError):
                    out[nm] = None            # expression not offered for this operand class
            return out
        kinds = [('Pauli', lambda g, p, c: P(g, p), lambda X: (lib.t2n(X.g), int(lib.t2n(X.p)), 1.0))]
        if py:
            kinds.append(('PauliMonomial', lambda g, p, c: lib.MONO(g, p, c), lambda X: (np.asarray(X.g), int(X.p), complex(X.c))))
        kinds.append(('PauliPolynomial', lambda g, p, c: POLY(np.array([g, G[(gi + 1) % len(G)]]), np.array([p, (p + 1) % 4]), [c, 1.5]), None))
        ops = []
        for hg, hp in dom.hermitian_paulis(N, include_identity=False)[gi % 2::2]:
            ops.append(('rotate_by(%s)' % ref.g_to_str(hg, hp), (lambda hg=hg, hp=hp: (lambda X: X.rotate_by(P(hg, hp))))()))
        if N <= 2:
            tN, sN = dom.valid_maps(N)[(gi * 37 + 5) % len(dom.valid_maps(N))]
        else:
            from .c04 import _scrambles
            tN, sN = _scrambles(N)[gi % 3]
        CMk = lib.CM if py else lib.tCM
        ops.append(('transform_by', lambda X: X.transform_by(CMk(tN, sN))))
        if N >= 2:
            mb = np.zeros(N, dtype=bool)
            mb[N - 1] = True
            mkm = (lambda: mb.copy()) if py else (lambda: lib.torch_mods()['torch'].tensor(mb.copy()))
            t1, s1 = dom.valid_maps(1)[(gi * 5 + 3) % 24]
            for hg, hp in dom.hermitian_paulis(1, include_identity=False)[gi % 2::2]:
                ops.append(('rotate_by(%s, mask)' % ref.g_to_str(hg, hp), (lambda hg=hg, hp=hp: (lambda X: X.rotate_by(P(hg, hp), mask=mkm())))()))
            ops.append(('transform_by(map, mask)', lambda X: X.transform_by(CMk(t1, s1), mask=mkm())))
        for cls, mk, parts in kinds:
            for p0 in range(4):
                for opn, op in ops:
                    X = mk(g0, p0, 0.5 + 1j)
                    uses(X)                                      # first round: fills whatever the object memoises
                    # copy -> in-place operation on the COPY -> the original still denotes what it did
                    try:
                        d0 = _dense(X, N)
                        Cp = X.copy()
                        op(Cp)
                        n += 1
                        if not np.allclose(_dense(X, N), d0, atol=1e-6):
                            viol.append(V('C15/%s/live/%s/copy-not-independent' % (pkg, cls), [pkg, N, gi],
                                          '%s N=%d: %s %s: copy(), then %s on the copy: the ORIGINAL changed' % (pkg, N, cls, ref.g_to_str(g0, p0), opn)))
                    except (AttributeError, NotImplementedError, TypeError):
                        pass
                    try:
                        op(X)
                    except Exception:
                        continue
                    if cls == 'PauliPolynomial':
                        fresh = POLY(lib.t2n(X.gs), lib.t2n(X.ps), X.cs.detach().numpy() if hasattr(X.cs, 'detach') else np.asarray(X.cs))
                    else:
                        fresh = mk(*parts(X))
                    a, b = uses(X), uses(fresh)
                    n += len(a)
                    nt += len(a)
                    for k in a:
                        if (a[k] is None) != (b[k] is None) or (a[k] is not None and not np.allclose(a[k], b[k], atol=1e-5)):
                            viol.append(V('C15/%s/live/%s/%s' % (pkg, cls, k), [pkg, N, gi],
                                          '%s N=%d: %s %s used in arithmetic, then changed in place by %s: afterwards %s differs from the same expression with a fresh object holding the same arrays' % (
                                              pkg, N, cls, ref.g_to_str(g0, p0), opn, k)))
                            break
    return {'n': n, 'nt': nt, 'viol': viol}


def fn_constants(items):
    """item = [pkg, N]: pauli_identity(N) / pauli_zero(N) results are edited in place (set_cs, direct writes into cs / gs /
    ps); afterwards fresh calls must still denote 1 and 0, and `X + number`, `X - number`, `number + X` must add that
    multiple of the identity (dense matrices)."""
    from ..core import V
    from .c01 import _dense
    n = nt = 0
    viol = []
    for pkg, N in items:
        py = pkg == 'py'
        mod = lib.ppa if py else lib.torch_mods()['tpa']
        P, POLY = (lib.P, lib.POLY) if py else (lib.tP, lib.tPOLY)
        d = 2 ** N
        G = ref.all_g(N)

        def judge(after):
            nonlocal n, nt
            checks = [('pauli_identity(N)', lambda: _dense(mod.pauli_identity(N), N), np.eye(d)),
                      ('pauli_zero(N)', lambda: _dense(mod.pauli_zero(N), N), np.zeros((d, d)))]
            X = P(G[-1], 3)
            Q = POLY(G[[1, len(G) - 1]], np.array([0, 1]), [2.0, 0.5 - 1j])
            dX, dQ = _dense(X, N), _dense(Q, N)
            checks += [('Pauli + 2', lambda: _dense(X + 2, N), dX + 2 * np.eye(d)), ('Pauli - 1.5', lambda: _dense(X - 1.5, N), dX - 1.5 * np.eye(d)),
                       ('2j + Pauli', lambda: _dense(2j + X, N), dX + 2j * np.eye(d)),
                       ('poly + 2', lambda: _dense(Q + 2, N), dQ + 2 * np.eye(d)), ('poly - (1+1j)', lambda: _dense(Q - (1 + 1j), N), dQ - (1 + 1j) * np.eye(d)),
                       ('3 + poly', lambda: _dense(3 + Q, N), dQ + 3 * np.eye(d))]
            for nm, f, want in checks:
                try:
                    got = f()
                except (NotImplementedError, TypeError, AttributeError):
                    continue
                n += 1
                nt += 1
                if not np.allclose(got, want, atol=1e-5):
                    viol.append(V('C15/%s/constants/%s' % (pkg, nm.split('(')[0].replace(' ', '')), [pkg, N],
                                  '%s N=%d: %s after %s is not the documented operator' % (pkg, N, nm, after)))
                    return False
            return True
        if not judge('nothing'):
            continue
        for src in ('pauli_identity', 'pauli_zero'):
            for enm in ('set_cs', 'write-cs', 'write-gs-ps'):
                try:
                    o = getattr(mod, src)(N)
                    if enm == 'set_cs':
                        o.set_cs(np.array([0.5 + 0.5j]) if py else lib.torch_mods()['torch'].tensor([0.5 + 0.5j]))
                    elif enm == 'write-cs':
                        if py:
                            o.cs[...] = 3 - 1j
                        else:
                            o.cs.fill_(3 - 1j)
                    else:
                        if py:
                            o.gs[...] = 1
                            o.ps[...] = 3
                        else:
                            o.gs.fill_(1)
                            o.ps.fill_(3)
                except Exception:
                    continue
                if not judge('%s on an earlier %s(%d) result' % (enm, src, N)):
                    break
    return {'n': n, 'nt': nt, 'viol': viol}


def legs(tier):
    quick = tier == 'quick'
    out = []

    def tree_items(pkg, Ns):
        its = []
        for N in Ns:
            n = len(pool(N, pkg))
            its += [[pkg, N, i, j] for i in range(n) for j in range(-1, n)]
        return its

    npy, nto = len(pool(1, 'py')), len(pool(1, 'torch'))
    out.append(Leg('trees_py', fn_trees if quick else fn_trees3, tree_items('py', (1, 2)), chunk=4 if quick else 1,
                   src_states=2 * npy * (npy + 1), timeout=9000,
                   bound='pyclifford N<=2, pool of %d atoms: all ordered atom pairs x 5 operators and all unary operators at depth 1; '
                         'x (5 operators x %d atoms x 2 sides + 3 unary) at depth 2%s' % (
                             npy, npy, '' if quick else '; depth 3: x (5 operators x core atom x 2 sides) on top of every depth-2 node whose second atom is a core atom')))
    nb = {N: len(d1_specs(N, 'py')) for N in (1, 2)}
    out.append(Leg('balanced_py', fn_balanced, [['py', N, k] for N in (1, 2) for k in range(nb[N])], chunk=8,
                   bound='pyclifford N<=2: op(d1, d1) for all %d x %d depth-1 trees over the core pool x 5 operators' % (nb[1], nb[1])))
    for pkg in ('py', 'torch'):
        T = len(red_terms(1, pkg))
        its = []
        for N in ((1, 2) if pkg == 'py' else (1,)):
            its += [[pkg, N, -1, -1, 0]] + [[pkg, N, a, -1, 0] for a in range(T)]
            full_N = (N == 1) if quick else True
            if pkg == 'torch':
                its += [[pkg, N, a, b, 0] for a in range(T) for b in range(a if quick else 0, T)]
            else:
                its += [[pkg, N, a, b, (1 if not quick else (2 if a <= b else 0)) if full_N else 0] for a in range(T) for b in range(T)]
        out.append(Leg('reduce_%s' % pkg, fn_reduce, its, chunk=16 if pkg == 'py' else 64,
                       bound='%s: all polynomials with <=%s terms over 4 strings x 4 phases x coefficients %s, reduce with tol in %s' % (
                           pkg, '3 (N=1; 3-term ones with the first two terms unordered and the default and 1e-6 tolerance only) / 2 (N=2)' if (quick and pkg == 'py') else ('3' if pkg == 'py' else '2'), list(RED_COEF[pkg]), list(RED_TOLS[pkg]))))
    flin = fn_linear if quick else fn_linear_thorough
    out.append(Leg('linear_py', flin, [['py', N, s] for N in (1, 2) for s in range(len(linear_subjects(N, 'py')))], chunk=1,
                   bound='pyclifford N<=2: every pool operator/list + two polynomials over the whole basis x all Hermitian generators '
                         '(+ masked) x %d/%d Clifford maps (+ masked)' % (len(map_menu(1, tier)), len(map_menu(2, tier)))))
    tNs = (1,) if quick else (1, 2)
    out.append(Leg('trees_torch', fn_trees, tree_items('torch', tNs), chunk=2, src_states=len(tNs) * nto * (nto + 1), timeout=3000,
                   bound='torchclifford N in %s, pool of %d atoms (no PauliMonomial in torch): depth-2 trees as in trees_py' % (tNs, nto)))
    out.append(Leg('linear_torch', fn_linear, [['torch', N, s] for N in (1, 2) for s in range(len(linear_subjects(N, 'torch')))], chunk=1,
                   bound='torchclifford N<=2: as linear_py with the quick map menu'))
    out.append(Leg('trace_N3_N4', fn_trace_bign, [[3], [4]], chunk=1, bound='trace() of all strings x 4 phases at N=3,4 as Pauli / PauliMonomial / PauliList / PauliPolynomial (2^N vs 2N differ from N=3 on)'))
    out.append(Leg('reduce_wide', fn_reduce_wide, [[pkg, N] for pkg in ('py', 'torch') for N in (5, 6, 7, 8, 9)], chunk=1, exhaustive=False, supplementary=True,
                   bound='N=5..9, both packages: 8-term polynomials whose strings agree everywhere except at one qubit (every position, all four letters, repeats with other phases): reduce() and sum against a dictionary oracle'))
    out.append(Leg('live_histories', fn_live, [[pkg, N, gi] for pkg in ('py', 'torch') for N in (1, 2) for gi in range(4 ** N)] + [[pkg, 3, gi] for pkg in ('py', 'torch') for gi in range(1, 64, 9)], chunk=2,
                   bound='N<=2 every string x 4 phases (N=3: every 9th string): Pauli / PauliMonomial / PauliPolynomial used in 11 expressions, changed in place (every second Hermitian generator, one map), used again vs a fresh object'))
    out.append(Leg('constants', fn_constants, [[pkg, N] for pkg in ('py', 'torch') for N in (4, 1, 2, 3)], chunk=1,
                   bound='both packages, N<=4: pauli_identity / pauli_zero results edited in place, then fresh calls and X +- number re-checked against dense matrices'))
    return out
