"""C05 Every reachable stabilizer state is a valid density matrix (tableau invariant).

Inductive sweep: from EVERY valid tableau of N<=2 (independently enumerated: 48 / 34560),
every public state-changing operation of the menu is executed on a fresh real object under
every coin branch and the successor must be valid again.  By induction the invariant holds
after every finite history for those N.  Plus reachability BFS from the constructors (N<=3)."""
import itertools
import numpy as np
from .. import ref, dom, lib, rng, stab
from ..core import Leg, V

PROP = 'C05'
RULE = ('inductive sweep: all valid tableaux (N=1: 48, N=2: 34560) x operation menu x all coin branches, successor '
        'must be a member of the independently enumerated valid set (or satisfy the stated invariant + PSD/trace/rank); '
        'non-trivial = successor differs from the source state; plus BFS from constructors')
ASSUMPTIONS = ['bounded to N<=2 for the complete inductive sweep, N=3 by bounded reachability BFS',
               'MT19937 scripting covers every random bit the kernels draw (verified by rng.selfcheck and consumed-count checks)']


def _named_gates(N, tier):
    pc = lib.pc
    gates = []
    for q in range(N):
        for nm in ('H', 'S', 'X', 'Y', 'Z'):
            gates.append(('gate%s' % nm, getattr(pc, nm), (q,)))
        ks = range(24) if tier != 'quick' else (0, 5, 6, 9, 12, 18, 23)
        for k in ks:
            gates.append(('gateC', (lambda k: (lambda *qs: pc.C(k, *qs)))(k), (q,)))
    if N >= 2:
        for c, t in itertools.permutations(range(N), 2):
            gates.append(('gateCNOT', pc.CNOT, (c, t)))
    return gates


def menu(N, tier):
    """List of (opclass, label, fn(st)).  Each fn mutates a fresh state."""
    ops = []
    herm = dom.hermitian_paulis(N)
    for g, p in herm:
        G = lib.P(g, p)
        ops.append(('rotate', 'rotate_by(%s)' % ref.g_to_str(g, p), (lambda G: lambda st: st.rotate_by(G))(G)))
    if N >= 2:
        for q in range(N):
            m = np.zeros(N, dtype=bool)
            m[q] = True
            for g, p in dom.hermitian_paulis(1):
                G = lib.P(g, p)
                ops.append(('rotate_mask', 'rotate_by(%s,mask=%s)' % (ref.g_to_str(g, p), m.tolist()),
                            (lambda G, m: lambda st: st.rotate_by(G, mask=m.copy()))(G, m)))
    for cls, ctor, qs in _named_gates(N, tier):
        ops.append((cls, '%s%s.forward' % (cls, list(qs)), (lambda ctor, qs: lambda st: ctor(*qs).forward(st))(ctor, qs)))
        ops.append((cls, '%s%s.backward' % (cls, list(qs)), (lambda ctor, qs: lambda st: ctor(*qs).backward(st))(ctor, qs)))
    # transform_by with full maps (spread over the enumerated group)
    if N <= 2:
        maps = dom.valid_maps(N)
        step = 1 if N == 1 else (1151 if tier == 'quick' else 97)
        for k in range(0, len(maps), step):
            t, s = maps[k]
            M = lib.CM(t, s)
            ops.append(('transform', 'transform_by(map#%d)' % k, (lambda M: lambda st: st.transform_by(M))(M)))
    else:
        # N=3: two-qubit maps through the three masks (non-contiguous included)
        m2 = dom.valid_maps(2)
        for qs in itertools.combinations(range(N), 2):
            m = np.zeros(N, dtype=bool)
            m[list(qs)] = True
            for k in range(7 + qs[0], len(m2), 1153):
                M = lib.CM(*m2[k])
                ops.append(('transform_mask2', 'transform_by(map2#%d,mask=%s)' % (k, m.tolist()),
                            (lambda M, m: lambda st: st.transform_by(M, mask=m.copy()))(M, m)))
        for qs in itertools.combinations(range(N), 2):
            m = np.zeros(N, dtype=bool)
            m[list(qs)] = True
            for g, p in dom.hermitian_paulis(2)[3::5]:
                G2 = lib.P(g, p)
                ops.append(('rotate_mask2', 'rotate_by(%s,mask=%s)' % (ref.g_to_str(g, p), m.tolist()),
                            (lambda G2, m: lambda st: st.rotate_by(G2, mask=m.copy()))(G2, m)))
    if N >= 2:
        for q in range(N):
            m = np.zeros(N, dtype=bool)
            m[q] = True
            m1 = dom.valid_maps(1)
            for k in (range(len(m1)) if tier != 'quick' else range(0, len(m1), 5)):
                M = lib.CM(*m1[k])
                ops.append(('transform_mask', 'transform_by(map1#%d,mask=%s)' % (k, m.tolist()),
                            (lambda M, m: lambda st: st.transform_by(M, mask=m.copy()))(M, m)))
    # measurement: every signed single observable, both coins
    for g, p in herm:
        O = lib.PL([g], [p])
        for coin in (0, 1):
            def f(st, O=O, coin=coin):
                rng.script((coin,), None)
                st.measure(O)
            ops.append(('measure1', 'measure([%s]) coin=%d' % (ref.g_to_str(g, p), coin), f))
    # measurement of ordered commuting pairs
    if N >= 2:
        G = ref.all_g(N)
        pairs = dom.commuting_lists(N, 2)
        if N >= 3:
            pairs = pairs[::61]
        elif tier == 'quick':
            pairs = pairs[::9]
        for (a, b) in pairs:
            for (pa, pb) in ((0, 0), (2, 0)):
                O = lib.PL([G[a], G[b]], [pa, pb])
                for coins in itertools.product((0, 1), repeat=2):
                    def f(st, O=O, coins=coins):
                        rng.script(coins, None)
                        st.measure(O)
                    ops.append(('measure2', 'measure([%s,%s]) coins=%s' % (ref.g_to_str(G[a], pa), ref.g_to_str(G[b], pb), coins), f))
    # measurement with a StabilizerState argument
    pcm = lib.pc
    others = [('zero', pcm.zero_state(N)), ('mixed', pcm.maximally_mixed_state(N))]
    if N >= 2:
        others.append(('ghz', pcm.ghz_state(N)))
    for nm, oth in others:
        for coins in itertools.product((0, 1), repeat=N):
            def f(st, oth=oth, coins=coins):
                rng.script(coins, None)
                st.measure(oth)
            ops.append(('measure_state', 'measure(%s_state) coins=%s' % (nm, coins), f))
    # MeasureLayer through a Circuit
    qlists = [[q] for q in range(N)] + ([list(range(N)), list(range(N))[::-1]] if N >= 2 else []) + ([[0, 2], [2, 0]] if N >= 3 else [])
    for ql in qlists:
        for coins in itertools.product((0, 1), repeat=len(ql)):
            def f(st, ql=ql, coins=coins):
                circ = lib.pc.Circuit(N)
                circ.measure(*ql)
                rng.script(coins, None)
                circ.forward(st)
            ops.append(('measure_layer', 'Circuit.measure%s.forward coins=%s' % (ql, coins), f))
    # post-selection (pure states only: the method refuses mixed states)
    for g, p in herm:
        for res in (0, 1):
            def f(st, g=g, p=p, res=res):
                if st.r != 0:
                    return 'skip'
                st.postselect(lib.P(g, p), res)
            ops.append(('postselect', 'postselect(%s,%d)' % (ref.g_to_str(g, p), res), f))
    return ops


_MENU = {}


def get_menu(N, tier):
    k = (N, tier)
    if k not in _MENU:
        _MENU[k] = menu(N, tier)
    return _MENU[k]


def fn_sweep(items, tier='quick'):
    n = nt = 0
    viol = []
    keys = set()
    samples = []
    extra = {}
    for N, idx in items:
        gs0, ps0, r0 = stab.tableaux(N)[idx]
        k0 = stab.key_arrays(gs0, ps0, r0)
        kind = 'pure' if r0 == 0 else 'mixed'
        for cls, label, f in get_menu(N, tier):
            st = lib.ST(gs0, ps0, r0)
            try:
                res = f(st)
            except Exception as e:
                viol.append(V('C05/%s/raises-%s/%s' % (cls, type(e).__name__, kind), [N, idx],
                              '%s on %s raised %s: %s' % (label, stab.describe(gs0, ps0, r0), type(e).__name__, e)))
                n += 1
                continue
            if res == 'skip':
                continue
            n += 1
            extra[cls] = extra.get(cls, 0) + 1
            bad = stab.state_check(st, N)
            k1 = stab.key_arrays(st.gs, st.ps, st.r) if not bad.startswith('shape') else None
            if k1 is not None:
                keys.add(hash(k1))
                if k1 != k0:
                    nt += 1
            if bad:
                viol.append(V('C05/%s/invalid/%s' % (cls, kind), [N, idx],
                              '%s on %s gives invalid state (%s): %s' % (label, stab.describe(gs0, ps0, r0), bad,
                                                                       stab.describe(st.gs, st.ps, int(st.r)) if k1 else '?')))
        # copy and map round trip produce valid states too
        st = lib.ST(gs0, ps0, r0)
        for label, mk in (('copy', lambda: st.copy()), ('to_map().to_state(r)', lambda: st.to_map().to_state(r0))):
            try:
                st2 = mk()
                bad = stab.state_check(st2, N)
            except Exception as e:
                bad = 'raised %s: %s' % (type(e).__name__, e)
            n += 1
            if bad:
                viol.append(V('C05/%s/invalid/%s' % (label, kind), [N, idx], '%s of %s invalid: %s' % (label, stab.describe(gs0, ps0, r0), bad)))
        if not samples and idx % 97 == 5:
            samples.append({'N': N, 'tableau': stab.describe(gs0, ps0, r0), 'menu_size': len(get_menu(N, tier)),
                            'example_ops': [m[1] for m in get_menu(N, tier)[::max(1, len(get_menu(N, tier)) // 6)]]})
    return {'n': n, 'nt': nt, 'viol': viol, 'keys': keys, 'samples': samples, 'extra': extra}


def fn_sweep_thorough(items):
    return fn_sweep(items, tier='thorough')


def fn_sweep_n3(items):
    """item = [budget, i]: i-th tableau of the N=3 BFS set (c06._n3_states: six start states of every
    rank, deduplicated by concrete tableau) x the full N=3 menu."""
    from . import c06
    n = nt = 0
    viol = []
    keys = set()
    extra = {}
    N = 3
    for budget, i in items:
        if budget not in c06._N3:
            c06._N3[budget] = c06._n3_states(budget, 0)
        gs0, ps0, r0 = c06._N3[budget][i]
        k0 = stab.key_arrays(gs0, ps0, r0)
        kind = 'pure' if r0 == 0 else 'mixed-r%d' % r0
        for cls, label, f in get_menu(N, 'quick'):
            st = lib.ST(gs0, ps0, r0)
            try:
                res = f(st)
            except Exception as e:
                viol.append(V('C05/N3/%s/raises-%s/%s' % (cls, type(e).__name__, kind), [budget, i], '%s on %s raised %s: %s' % (label, stab.describe(gs0, ps0, r0), type(e).__name__, e)))
                n += 1
                continue
            if res == 'skip':
                continue
            n += 1
            extra[cls] = extra.get(cls, 0) + 1
            bad = stab.state_check(st, N)
            if not bad:
                k1 = stab.key_arrays(st.gs, st.ps, st.r)
                keys.add(hash(k1))
                nt += int(k1 != k0)
            else:
                viol.append(V('C05/N3/%s/invalid/%s' % (cls, kind), [budget, i], '%s on %s gives invalid state (%s)' % (label, stab.describe(gs0, ps0, r0), bad)))
    return {'n': n, 'nt': nt, 'viol': viol, 'keys': keys, 'extra': extra}



# ---------------------------------------------------------------- circuits (take + compile + forward/backward) on states
def fn_circuits(items):
    """item = [N, program]: the program (letters of pcverif.circ's alphabet) is assembled with take() into a
    CliffordCircuit and a Circuit, run uncompiled and compiled, forward and backward, on signed states of every
    rank; the resulting state must be valid.  (Equality with the gate product is C09/C10; here only the invariant.)"""
    from .. import circ
    pk = circ.PyPk
    n = nt = 0
    viol = []
    for N, prog in items:
        A = circ.alphabet('py', N)
        letters = [A[k] for k in prog]
        ins = [i for i in circ.inputs(N) if i.kind == 'state']
        for cls in ('CliffordCircuit', 'Circuit'):
            for compiled in (False, True):
                for d in ('forward', 'backward'):
                    for inp in ins:
                        try:
                            c, _ = circ.build(pk, cls, N, letters)
                            if compiled:
                                c.compile()
                            st = pk.fresh(inp)
                            getattr(c, d)(st)
                        except Exception:
                            continue     # one-directional gates etc.: execution semantics are decided by C09/C10
                        n += 1
                        nt += 1
                        bad = stab.state_check(st, N)
                        if bad:
                            viol.append(V('C05/circuit/%s/%s/%s/invalid' % (cls, 'compiled' if compiled else 'uncompiled', d), [N, prog],
                                          'N=%d program %s as %s%s: %s on %s gives an invalid state (%s)' % (
                                              N, [l.name for l in letters], cls, ' compiled' if compiled else '', d, inp.name, bad)))
    return {'n': n, 'nt': nt, 'viol': viol}


# ---------------------------------------------------------------- constructors
def _ctor_list(N):
    pc = lib.pc
    out = [('zero_state', lambda: pc.zero_state(N)), ('one_state', lambda: pc.one_state(N)),
           ('maximally_mixed_state', lambda: pc.maximally_mixed_state(N))]
    if N >= 2:
        out.append(('ghz_state', lambda: pc.ghz_state(N)))
    return out


def fn_ctor(items):
    """item = [N, kind, r]: kind 'det' = deterministic constructors; 'bit' = random_bit_state under
    all 2^(2N) coin strings; 'pauli'/'clifford' = random_pauli_state / random_clifford_state(N, r)
    over the whole explored coin tree (rejection rounds bounded to +2N coins) x sign strings."""
    pc = lib.pc
    n = nt = 0
    viol = []
    keys = set()
    extra = {}
    for N, kind, r in items:
        if kind == 'det':
            for nm, mk in _ctor_list(N):
                st = mk()
                n += 1
                bad = stab.state_check(st, N)
                keys.add(hash(stab.key_arrays(st.gs, st.ps, st.r)))
                if bad:
                    viol.append(V('C05/ctor/%s' % nm, [N, kind, r], '%s(%d) invalid: %s' % (nm, N, bad)))
            continue
        if kind == 'bit':
            for coins in itertools.product((0, 1), repeat=2 * N):
                rng.script(coins, coins)
                st = pc.random_bit_state(N)
                n += 1
                nt += 1
                bad = stab.state_check(st, N)
                keys.add(hash(stab.key_arrays(st.gs, st.ps, st.r)))
                if bad:
                    viol.append(V('C05/ctor/random_bit_state', [N, kind, r], 'random_bit_state coins=%s invalid: %s' % (coins, bad)))
            continue
        nm = 'random_%s_state' % kind
        ctor = getattr(pc, nm)
        allsigns = list(itertools.product((0, 1), repeat=2 * N))
        # the sign bits never interact with the table: all sign strings on the default table,
        # two sign strings on the whole coin tree
        for si, signs in enumerate(allsigns):
            full_tree = signs in (allsigns[0], allsigns[-1], allsigns[len(allsigns) // 3])

            def run(coins, signs=signs):
                rng.script(coins, signs)
                st = ctor(N, r)
                return rng.consumed()[0], st
            if not full_tree:
                c, st = run(())
                leaves = [((), st)]
            else:
                leaves = rng.explore(run, max_extra=2 * N)
            for coins, st in leaves:
                if st is None:
                    extra['truncated_' + nm] = extra.get('truncated_' + nm, 0) + 1
                    continue
                n += 1
                nt += 1
                bad = stab.state_check(st, N)
                keys.add(hash(stab.key_arrays(st.gs, st.ps, st.r)))
                if bad:
                    viol.append(V('C05/ctor/%s' % nm, [N, kind, r], '%s(%d,%d) coins=%s signs=%s invalid: %s' % (nm, N, r, coins, signs, bad)))
    return {'n': n, 'nt': nt, 'viol': viol, 'keys': keys, 'extra': extra}


# ---------------------------------------------------------------- reachability BFS
def fn_bfs(items):
    """item = [N, budget]: BFS from the constructors with rotate_by (all +-G) and single
    observable measure (both coins); every reached state must be valid.  Reports states,
    transitions, depth, and for N<=2 the fraction of the valid set reached."""
    pc = lib.pc
    out_n = out_nt = 0
    viol = []
    keys = set()
    extra = {}
    for N, budget in items:
        herm = dom.hermitian_paulis(N)
        gens = [lib.P(g, p) for g, p in herm]
        obs = [lib.PL([g], [p]) for g, p in herm]
        start = [mk() for nm, mk in _ctor_list(N)]
        seen = {}
        frontier = []
        for st in start:
            k = stab.key_arrays(st.gs, st.ps, st.r)
            if k not in seen:
                seen[k] = 0
                frontier.append((np.array(st.gs), np.array(st.ps), int(st.r)))
        depth = 0
        capped = False
        while frontier and not capped:
            depth += 1
            nxt = []
            for gs0, ps0, r0 in frontier:
                succ = []
                for G in gens:
                    st = lib.ST(gs0, ps0, r0)
                    st.rotate_by(G)
                    succ.append(st)
                for O in obs:
                    for coin in (0, 1):
                        st = lib.ST(gs0, ps0, r0)
                        rng.script((coin,), None)
                        st.measure(O)
                        succ.append(st)
                for st in succ:
                    out_n += 1
                    k = stab.key_arrays(st.gs, st.ps, st.r)
                    if k in seen:
                        continue
                    out_nt += 1
                    bad = stab.state_check(st, N, dense=(N <= 2))
                    if bad:
                        viol.append(V('C05/bfs/invalid', [N, budget], 'BFS depth %d reached invalid state (%s): %s' % (
                            depth, bad, stab.describe(st.gs, st.ps, int(st.r)))))
                        seen[k] = depth
                        continue
                    seen[k] = depth
                    nxt.append((np.array(st.gs), np.array(st.ps), int(st.r)))
                    if len(seen) >= budget:
                        capped = True
                        break
                if capped:
                    break
            frontier = nxt
        extra['bfs_N%d_states' % N] = len(seen)
        extra['bfs_N%d_depth' % N] = depth
        extra['bfs_N%d_capped' % N] = int(capped)
        if N <= 2:
            extra['bfs_N%d_valid_set_reached' % N] = len(set(seen) & stab.valid_keyset(N))
            if not capped and set(seen) != set(stab.valid_keyset(N)):
                # reachable set differs from the enumerated valid set: either an invalid state (already
                # reported) or unreachable valid states (fine, only recorded)
                extra['bfs_N%d_unreached' % N] = len(set(stab.valid_keyset(N)) - set(seen))
        keys |= {hash(k) for k in seen}
    return {'n': out_n, 'nt': out_nt, 'viol': viol, 'keys': keys, 'extra': extra}


# ------------------------------------------------------------------ torchclifford states
class _TS(object):
    """numpy view of a torch state for stab.state_check."""
    def __init__(self, st):
        self.gs, self.ps, self.r = lib.t2n(st.gs), lib.t2n(st.ps), st.r


def _torch_pool(N, seed):
    if N == 3:
        from . import c06
        if 402 not in c06._N3:
            c06._N3[402] = c06._n3_states(402, 0)
        return c06._N3[402][seed % 11::11]
    T = stab.tableaux(N)
    return [T[i] for i in (range(len(T)) if N == 1 else stab.representatives(N, seed))]


def fn_torch(items):
    """item = [seed, N, i]: torchclifford StabilizerState built from the i-th pool tableau; every signed Hermitian
    generator G is applied as rotate_by(G) TWICE in a row with the SAME generator object, where G is (a) a literal Pauli
    (python int phase) and (b) an element taken by indexing from a PauliList (its phase is a 0-dim view into the list);
    then transform_by(rotation map of G) and a copy().  After every step: tableau invariant (pairing, Hermitian phases,
    rank), the state denotes U^dag rho U of the state before; the lending list is unchanged."""
    n = nt = 0
    viol = []
    m = lib.torch_mods()
    for seed, N, i in items:
        item = [seed, N, i]
        gs0, ps0, r0 = _torch_pool(N, seed)[i]
        herm = dom.hermitian_paulis(N, include_identity=False)
        if N == 3:
            herm = herm[i % 3::3]
        Lg = np.array([g for g, p in herm])
        Lp = np.array([p for g, p in herm])
        kind = 'pure' if r0 == 0 else 'mixed-r%d' % r0
        for source in ('literal', 'list-element'):
            lender = lib.tPL(Lg, Lp) if source == 'list-element' else None
            for k, (g, p) in enumerate(herm):
                U = ref.rot_unitary(g, p, N)
                st = lib.tST(gs0, ps0, r0)
                G = lender[k] if lender is not None else lib.tP(g, p)
                rho_m = stab.rho_of(gs0, ps0, r0)
                steps = [('rotate_by', lambda: st.rotate_by(G)), ('rotate_by-again', lambda: st.rotate_by(G)),
                         ('transform_by-rotation-map', lambda: st.transform_by(m['tst'].clifford_rotation_map(G)))]
                for sname, step in steps:
                    try:
                        step()
                    except Exception as e:
                        viol.append(V('C05/torch/%s/%s/raises-%s' % (source, sname, type(e).__name__), item, 'torch state %s: %s with G=%s (%s) raised %s' % (
                            stab.describe(gs0, ps0, r0), sname, ref.g_to_str(g, p), source, e)))
                        break
                    n += 1
                    nt += 1
                    v = _TS(st)
                    badness = stab.state_check(v, N)
                    if badness:
                        viol.append(V('C05/torch/%s/%s/invalid/%s' % (source, sname, kind), item, 'torch state %s after %s with G=%s (%s): %s; now %s' % (
                            stab.describe(gs0, ps0, r0), sname, ref.g_to_str(g, p), source, badness, stab.describe(v.gs, v.ps % 4, int(v.r)))))
                        break
                    rho_m = U.conj().T @ rho_m @ U
                    if ref.rho_key(stab.rho_of(v.gs, v.ps, int(v.r))) != ref.rho_key(rho_m):
                        viol.append(V('C05/torch/%s/%s/denotation/%s' % (source, sname, kind), item, 'torch state %s after %s with G=%s (%s) is valid but not U^dag rho U' % (
                            stab.describe(gs0, ps0, r0), sname, ref.g_to_str(g, p), source)))
                        break
                else:
                    try:
                        c = st.copy()
                        if stab.key_arrays(lib.t2n(c.gs), lib.t2n(c.ps), c.r) != stab.key_arrays(lib.t2n(st.gs), lib.t2n(st.ps), st.r):
                            viol.append(V('C05/torch/copy', item, 'copy() of a torch state differs from the original'))
                    except Exception as e:
                        viol.append(V('C05/torch/copy/raises-%s' % type(e).__name__, item, 'copy() raised %s' % e))
            if lender is not None:
                lg, lp = lib.t2n(lender.gs), lib.t2n(lender.ps)
                if (lg != Lg).any() or (lp % 4 != Lp).any():
                    viol.append(V('C05/torch/list-element/lender-changed', item, 'the PauliList whose elements were used as rotation generators changed: phases %s, were %s' % (lp.tolist()[:12], Lp.tolist()[:12])))
    return {'n': n, 'nt': nt, 'viol': viol}


def legs(tier):
    out = []
    for N in (1, 2):
        stab.tableaux(N)
        stab.valid_keyset(N)
        get_menu(N, tier)
    f = fn_sweep if tier == 'quick' else fn_sweep_thorough
    out.append(Leg('sweep_N1', f, [[1, i] for i in range(len(stab.tableaux(1)))], chunk=4, src_states=48,
                   bound='all 48 tableaux x %d menu operations' % len(get_menu(1, tier))))
    out.append(Leg('sweep_N2', f, [[2, i] for i in range(len(stab.tableaux(2)))], chunk=40, src_states=34560,
                   bound='all 34560 tableaux x %d menu operations (all coin branches)' % len(get_menu(2, tier)), timeout=3000))
    nb3 = 402 if tier == 'quick' else 4002
    get_menu(3, 'quick')
    out.append(Leg('sweep_N3', fn_sweep_n3, [[nb3, i] for i in range(nb3)], chunk=6, exhaustive=False, supplementary=True,
                   bound='%d N=3 tableaux (BFS from six start states of every rank 0..3, by concrete tableau) x %d menu operations (all rotations, masked 1- and 2-qubit rotations and maps incl. the non-contiguous mask, named gates both directions, all single measurements, commuting pairs, state arguments, measurement layers incl. [0,2],[2,0], post-selection; all coin branches)' % (nb3, len(get_menu(3, 'quick')))))
    from .. import circ
    from .c09 import SUB7
    cp = circ.programs('py', 2, 3) + [[3, list(p)] for p in itertools.product(SUB7, repeat=3)]
    cp += [[3, list(p)] for p in sorted({tuple(p) for sub in ((11, 1, 8, 10), (11, 0, 15, 10), (2, 6, 1, 4)) for p in itertools.product(sub, repeat=3 if tier == 'quick' else 4)})]
    if tier != 'quick':
        cp += circ.programs('py', 3, 3)
    out.append(Leg('circuits', fn_circuits, cp, chunk=8,
                   bound='take/compile/forward/backward: all programs of length <=3 over 12 letters (N=2), all 3-gate programs over the 7-letter N=3 sub-alphabet, '
                         'all %s-gate programs over three 4-letter N=3 sub-alphabets%s; CliffordCircuit and Circuit, uncompiled and compiled, both directions, signed states of every rank' % (
                             3 if tier == 'quick' else 4, '' if tier == 'quick' else '; all programs of length <=3 over all 17 N=3 letters')))
    citems = [[N, 'det', 0] for N in (1, 2, 3, 4)] + [[N, 'bit', 0] for N in (1, 2, 3)]
    citems += [[N, k, r] for N in (1, 2) for k in ('pauli', 'clifford') for r in range(N + 1)]
    out.append(Leg('constructors', fn_ctor, citems, chunk=1,
                   bound='deterministic constructors N<=4; random constructors N<=2 over the whole coin tree (+2N coins of rejection)'))
    if tier == 'quick':
        out.append(Leg('bfs', fn_bfs, [[1, 10 ** 6], [3, 4000]], chunk=1, exhaustive=False, supplementary=True,
                       bound='N=1 to fixpoint; N=3 capped at 4000 states'))
    else:
        out.append(Leg('bfs', fn_bfs, [[1, 10 ** 6], [2, 10 ** 6], [3, 150000]], chunk=1, exhaustive=False, supplementary=True,
                       bound='N<=2 to fixpoint; N=3 capped at 150000 states', timeout=6000))
    import os as _os
    sd = int(_os.environ.get('VERIF_SEED', '0') or 0)
    titems = [[sd, N, i] for N in (1, 2, 3) for i in range(len(_torch_pool(N, sd)))]
    out.append(Leg('torch_states', fn_torch, titems, chunk=2, exhaustive=False, supplementary=True,
                   bound='torchclifford states: 48 (N=1) + 91 (N=2, one per density matrix) + %d (N=3, every rank) pool tableaux x every signed generator (N=3: a third) given as a literal Pauli and as an element borrowed from a PauliList; '
                         'rotate_by, rotate_by again with the same generator object, transform_by(rotation map): tableau invariant + U^dag rho U after every step; lender unchanged' % len(_torch_pool(3, sd))))
    return out
