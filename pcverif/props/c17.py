"""C17 copy is faithful and independent; queries have no side effects.

A finite catalogue (object kind x public method x small argument domain) is explored
exhaustively on the real code.  For every call all parties (receiver and every argument) are
deep-snapshotted before and after (bytes of every array attribute, scalars, recursively
through circuits / layers / gates / maps) and compared:
  * copy(): faithful (representation and denotation), shares no memory, and histories
    copy -> in-place operation(s) on one party -> re-observe the other party;
  * queries: every party bit-identical afterwards;
  * in-place operations: every party except the target bit-identical afterwards, and
    mutating the arguments after the call does not reach the target.
Memoisation of a gate's missing map is allowed iff the new map is the reference inverse of
its partner (or the reference rotation map of the stored generator)."""
import itertools
import numpy as np
from .. import ref, dom, lib, rng, stab
from ..core import Leg, V

PROP = 'C17'
RULE = ('catalogue: every object kind x every public method x argument domain (N<=2: every Pauli, every list of the '
        'stated length, every valid map, every valid tableau; gates of the three kinds on every qubit placement); one '
        'transition = one real call with all parties snapshotted before/after.  non-trivial = an in-place call that '
        'really changed its target, or a copy/query whose receiver carries a non-zero phase, a coefficient, a non-zero '
        'rank or a stored map (the inputs the unit tests never use)')
ASSUMPTIONS = ['bounded to N<=2 (N=3 only for masked gather/scatter with non-contiguous masks)',
               'aliasing is observed through numpy.shares_memory / tensor storage pointers and through real mutation histories',
               'result objects of queries that alias their receiver (views: slicing, as_list, stabilizers, -P, 1*P) are not flagged']


# =============================================================== snapshots
def _is_tensor(o):
    t = type(o)
    return t.__name__ in ('Tensor', 'Parameter') and t.__module__.split('.')[0] == 'torch'


_CIRC = ('CliffordCircuit', 'Circuit')


def fields(o):
    """(kind, scalars: dict, kids: list of (name, child)) of a library object."""
    cn = type(o).__name__
    if cn in _CIRC:
        try:
            sc = {'N': int(o.N)}       # effective qubit number (torch circuits may infer it from their gates)
        except Exception:
            sc = {'N': None}
        for a in ('unitary', 'num_of_measures', 'log2prob'):
            if a in o.__dict__:
                sc[a] = o.__dict__[a]
        kids = [('layers', list(o.layers_forward())), ('forward_map', o.forward_map), ('backward_map', o.backward_map)]
        if 'measure_result' in o.__dict__:
            kids.append(('measure_result', list(o.measure_result)))
        return cn, sc, kids
    if cn == 'CliffordLayer':
        return cn, {}, [('gates', list(o.gates)), ('forward_map', o.forward_map), ('backward_map', o.backward_map)]
    if cn == 'MeasureLayer':
        return cn, {'qubits': tuple(int(q) for q in o.qubits), 'N': o.N, 'log2prob': o.log2prob}, \
            [('gs', o.gs), ('ps', o.ps), ('result', o.result)]
    if cn == 'CliffordGate':
        return cn, {'qubits': tuple(int(q) for q in o.qubits)}, \
            [('generator', o.generator), ('forward_map', o.forward_map), ('backward_map', o.backward_map)]
    if cn == 'ClassicalShadow':
        return cn, {}, [('state', o.state), ('circuit', o.circuit)]
    if hasattr(o, 'gs'):
        kids = [('gs', o.gs), ('ps', o.ps)]
        if hasattr(o, 'cs'):
            kids.append(('cs', o.cs))
        sc = {}
        if hasattr(o, 'r'):
            sc['r'] = o.r
        return cn, sc, kids
    if hasattr(o, 'g'):
        kids = [('g', o.g)]
        sc = {}
        if _is_tensor(o.p) or isinstance(o.p, np.ndarray):
            kids.append(('p', o.p))
        else:
            sc['p'] = o.p
        if hasattr(o, 'c'):
            sc['c'] = o.c
        return cn, sc, kids
    return None


def _scal(v):
    if isinstance(v, np.generic):
        v = v.item()
    if _is_tensor(v):
        v = v.item()
    if isinstance(v, tuple):
        return ('v', tuple(v))
    return ('v', v)


def snap(o, strict=True):
    """Deep snapshot.  strict: bit-identical (dtype + bytes); else value-based."""
    if o is None:
        return None
    if isinstance(o, np.ndarray):
        if strict:
            return ('a', o.dtype.str, o.shape, o.tobytes())
        a = o.astype(np.complex128) if np.iscomplexobj(o) else o.astype(np.float64)
        return ('a', a.dtype.str, o.shape, a.tobytes())
    if _is_tensor(o):
        a = o.detach().cpu().numpy()
        if strict:
            return ('t', str(o.dtype), tuple(o.shape), a.tobytes())
        a = a.astype(np.complex128) if np.iscomplexobj(a) else a.astype(np.float64)
        return ('a', a.dtype.str, tuple(o.shape), a.tobytes())
    if isinstance(o, (np.generic, bool, int, float, complex, str)):
        return _scal(o)
    if isinstance(o, (list, tuple)):
        return [snap(x, strict) for x in o]
    if isinstance(o, dict):
        return {'__k': 'dict', **{str(k): snap(v, strict) for k, v in o.items()}}
    f = fields(o)
    if f is None:
        return ('repr', repr(o))
    cn, sc, kids = f
    d = {'__k': cn}
    for k, v in sc.items():
        d[k] = _scal(v) if v is not None else None
    for k, v in kids:
        d[k] = snap(v, strict)
    return d


_TDT = {'torch.float32': np.float32, 'torch.float64': np.float64, 'torch.int64': np.int64, 'torch.int32': np.int32,
        'torch.complex64': np.complex64, 'torch.complex128': np.complex128, 'torch.bool': np.bool_, 'torch.uint8': np.uint8,
        'torch.int8': np.int8}


def unarr(s):
    if s[0] == 'a':
        return np.frombuffer(s[3], dtype=np.dtype(s[1])).reshape(s[2])
    if s[0] == 't':
        return np.frombuffer(s[3], dtype=_TDT[s[1]]).reshape(s[2])
    raise ValueError(s[0])


def _rot_map(g, p):
    """Reference map table of the rotation generated by (g,p): rows = images of X_k, Z_k under
    P -> U^dag P U, U = exp(i pi/4 G): anticommuting P -> i P G."""
    g = np.asarray(g, dtype=np.int64)
    n2 = g.shape[0]
    gs = np.eye(n2, dtype=np.int64)
    ps = np.zeros(n2, dtype=np.int64)
    for j in range(n2):
        if ref.anti(gs[j], g):
            ng, npp = ref.mul(gs[j], 0, g, p)
            gs[j] = ng
            ps[j] = (npp + 1) % 4
    return gs, ps


def memo_ok(gate_after, key):
    """A map that appeared in a gate (None -> map): must be the reference inverse of its partner
    or, for a generator gate, the reference rotation map of +-generator."""
    try:
        new = gate_after[key]
        ngs = np.rint(unarr(new['gs']).real).astype(np.int64)
        nps = np.rint(unarr(new['ps']).real).astype(np.int64) % 4
        gen = gate_after.get('generator')
        if gen is not None:
            g = np.rint(unarr(gen['g']).real).astype(np.int64)
            p = gen['p'][1] if 'p' in gen and isinstance(gen['p'], tuple) and gen['p'][0] == 'v' else int(unarr(gen['p']))
            p = int(p) % 4
            eg, ep = _rot_map(g, p if key == 'forward_map' else (p + 2) % 4)
            return bool((eg == ngs).all() and (ep == nps).all())
        other = gate_after['backward_map' if key == 'forward_map' else 'forward_map']
        if other is None:
            return False
        ogs = np.rint(unarr(other['gs']).real).astype(np.int64)
        ops = np.rint(unarr(other['ps']).real).astype(np.int64) % 4
        if not ref.is_valid_map(ngs, nps):
            return False
        ig, ip = ref.map_apply(ngs, nps, ogs, ops)
        n2 = ngs.shape[0]
        return bool((ig == np.eye(n2, dtype=np.int64)).all() and (ip % 4 == 0).all())
    except Exception:
        return False


ACCUM = {('Circuit', 'measure_result'), ('Circuit', 'log2prob'), ('MeasureLayer', 'result'), ('MeasureLayer', 'log2prob')}


def diff(a, b, path='', memo=True, ignore=()):
    """Paths at which two snapshots differ.  memo: allow a gate's missing map to be filled in by its
    reference inverse.  ignore: set of (kind, key) not compared."""
    if type(a) is dict and type(b) is dict:
        k = a.get('__k')
        if k != b.get('__k') or set(a) != set(b):
            return [path + ':kind']
        out = []
        for key in a:
            if key == '__k' or (k, key) in ignore:
                continue
            if memo and k == 'CliffordGate' and key in ('forward_map', 'backward_map') and a[key] is None and b[key] is not None:
                if not memo_ok(b, key):
                    out.append(path + '.' + key + ':filled-in-map-is-not-the-inverse')
                continue
            out += diff(a[key], b[key], path + '.' + key, memo, ignore)
        return out
    if isinstance(a, list) and isinstance(b, list):
        if len(a) != len(b):
            return [path + ':len']
        out = []
        for i, (x, y) in enumerate(zip(a, b)):
            out += diff(x, y, '%s[%d]' % (path, i), memo, ignore)
        return out
    if type(a) is dict or type(b) is dict or isinstance(a, list) or isinstance(b, list):
        return [path + ':kind']
    return [] if a == b else [path or '.']


def desc(s):
    """Human-readable rendering of a snapshot (used only in violation records)."""
    if s is None:
        return None
    if type(s) is dict:
        return {k: (v if k == '__k' else desc(v)) for k, v in s.items()}
    if isinstance(s, list):
        return [desc(x) for x in s]
    if isinstance(s, tuple) and s and s[0] in ('a', 't'):
        try:
            a = unarr(s)
            if np.iscomplexobj(a):
                return [str(x) for x in a.reshape(-1).tolist()]
            return np.rint(a).astype(np.int64).tolist() if np.allclose(a, np.rint(a)) else a.tolist()
        except Exception:
            return 'array%s' % (s[2],)
    if isinstance(s, tuple) and s and s[0] == 'v':
        return s[1] if not isinstance(s[1], complex) else str(s[1])
    return repr(s)


def leaves(o, path=''):
    """(path, array/tensor) leaves and (path, library object) nodes reachable from o."""
    if o is None:
        return
    if isinstance(o, np.ndarray) or _is_tensor(o):
        yield path, o, True
        return
    if isinstance(o, (list, tuple)):
        for i, x in enumerate(o):
            for t in leaves(x, '%s[%d]' % (path, i)):
                yield t
        return
    if isinstance(o, dict):
        for k, x in o.items():
            for t in leaves(x, '%s.%s' % (path, k)):
                yield t
        return
    f = fields(o)
    if f is None:
        return
    yield path, o, False
    for k, v in f[2]:
        for t in leaves(v, path + '.' + k):
            yield t


def _overlap(a, b):
    if isinstance(a, np.ndarray) and isinstance(b, np.ndarray):
        return a.size > 0 and b.size > 0 and np.shares_memory(a, b)
    if _is_tensor(a) and _is_tensor(b):
        if a.numel() == 0 or b.numel() == 0:
            return False
        if a.untyped_storage().data_ptr() != b.untyped_storage().data_ptr():
            return False
        return np.shares_memory(a.detach().numpy(), b.detach().numpy())
    return False


def shared(x, y):
    """Paths of array attributes of x and y that overlap in memory, and of mutable sub-objects
    that are the very same object."""
    out = []
    lx = list(leaves(x))
    ly = list(leaves(y))
    for px, a, isarr in lx:
        for py, b, isarr2 in ly:
            if isarr != isarr2:
                continue
            if isarr:
                if _overlap(a, b):
                    out.append('%s~%s' % (px or '.', py or '.'))
            elif a is b:
                out.append('%s is %s' % (px or '.', py or '.'))
    return out


def scramble(o):
    """Mutate every array reachable from o in place."""
    for p, a, isarr in leaves(o):
        if not isarr:
            continue
        if isinstance(a, np.ndarray):
            if a.size and a.flags.writeable:
                if a.dtype == np.bool_:
                    a[...] = ~a
                else:
                    a[...] = a + 1
        else:
            if a.numel():
                if str(a.dtype) == 'torch.bool':
                    a.logical_not_()
                else:
                    a.add_(1)


# =============================================================== generic checkers
class Cx(object):
    def __init__(self, item):
        self.item = item
        self.n = 0
        self.nt = 0
        self.viol = []
        self.extra = {}
        self.sigs = set()

    def bad(self, sig, msg, obs=None, exp=None):
        if sig in self.sigs:
            return
        self.sigs.add(sig)
        self.viol.append(V(sig, self.item, msg, obs, exp))

    def count(self, k, d=1):
        self.extra[k] = self.extra.get(k, 0) + d


UNSUPPORTED = (NotImplementedError, TypeError)


def call(cx, label, parties, fn, target=None, alias=True, ntq=False, ignore=(), result_alias=True):
    """Execute fn() (a real library call involving exactly `parties`), with all parties
    snapshotted before and after.  target = name of the party the operation is allowed to change
    (None for a query).  Returns (ok, result)."""
    before = {k: snap(v) for k, v in parties.items()}
    try:
        res = fn()
    except UNSUPPORTED:
        cx.count('unsupported:' + label)
        return False, None
    except Exception as e:
        cx.bad('C17/%s/raises-%s' % (label, type(e).__name__), '%s raised %s: %s' % (label, type(e).__name__, e),
               None, {k: desc(v) for k, v in before.items()})
        return False, None
    cx.n += 1
    after = {k: snap(v) for k, v in parties.items()}
    for k in parties:
        if k == target:
            continue
        d = diff(before[k], after[k], ignore=ignore)
        if d:
            role = 'receiver' if k == 'self' else 'argument-' + k
            cx.bad('C17/%s/%s-changed' % (label, role),
                   '%s changed its %s at %s (parties before the call: %s)' % (label, role, d[:4], {q: desc(v) for q, v in before.items()}),
                   desc(after[k]), desc(before[k]))
    if target is not None:
        if diff(before[target], after[target], memo=False):
            cx.nt += 1
        if alias:
            for k, v in parties.items():
                if k != target:
                    scramble(v)
            t2 = snap(parties[target])
            d = diff(after[target], t2, memo=False)
            if d:
                cx.bad('C17/%s/target-aliases-argument' % label,
                       'after %s, mutating the arguments changes the %s at %s' % (label, target, d[:4]),
                       desc(t2), desc(after[target]))
    else:
        cx.nt += int(bool(ntq))
        if result_alias and res is not None and fields(res) is not None:
            for k, v in parties.items():
                if res is not v and shared(res, v):
                    cx.count('result_is_view_of_%s:%s' % (k, label))
    return True, res


def check_copy(cx, K, mk, mutators, denote=None, ntq=False, pairs=2):
    """copy(): receiver unchanged, faithful, shares nothing, and independent under histories."""
    x = mk()
    s0 = snap(x)
    try:
        c = x.copy()
    except UNSUPPORTED + (AttributeError,) as e:
        cx.bad('C17/%s.copy/raises-%s' % (K, type(e).__name__), '%s.copy() raised %s: %s' % (K, type(e).__name__, e), None, desc(s0))
        return
    cx.n += 1
    cx.nt += int(bool(ntq))
    if diff(s0, snap(x)):
        cx.bad('C17/%s.copy/receiver-changed' % K, 'copy() changed its receiver', desc(snap(x)), desc(s0))
    if type(c) is not type(x):
        cx.bad('C17/%s.copy/unfaithful-type' % K, 'copy() of %s returns %s' % (type(x).__name__, type(c).__name__))
    dv = diff(snap(x, False), snap(c, False), memo=False)
    if dv:
        cx.bad('C17/%s.copy/unfaithful' % K, 'copy differs from the original at %s' % dv[:4], desc(snap(c)), desc(s0))
    elif denote is not None:
        x2 = mk()
        c2 = x2.copy()
        try:
            dx, dc = denote(x2), denote(c2)
        except UNSUPPORTED:
            dx = dc = None
        if dx != dc:
            cx.bad('C17/%s.copy/unfaithful-denotation' % K, 'copy has the same arrays but denotes a different object', None, desc(s0))
    sh = shared(x, c)
    if sh:
        cx.bad('C17/%s.copy/shares-memory' % K, 'copy shares mutable data with the original: %s' % sh[:4], sh[:8], desc(s0))
    hist = [[m] for m in mutators] + [[('direct array write', scramble)]]
    hist += [[m1, m2] for m1 in mutators[:pairs] for m2 in mutators[:pairs + 1]]
    for ms in hist:
        for direction in ('copy', 'original'):
            x = mk()
            c = x.copy()
            a, b = (c, x) if direction == 'copy' else (x, c)
            sb = snap(b)
            sa = snap(a)
            try:
                for nm, f in ms:
                    f(a)
            except UNSUPPORTED:
                cx.count('unsupported:%s.copy-history' % K)
                continue
            cx.n += 1
            if diff(sa, snap(a), memo=False):
                cx.nt += 1
            d = diff(sb, snap(b))
            if d:
                cx.bad('C17/%s.copy/not-independent' % K,
                       'history copy -> %s on the %s -> re-observe the %s: it changed at %s' % (
                           ' -> '.join(nm for nm, f in ms), direction, 'original' if direction == 'copy' else 'copy', d[:4]),
                       desc(snap(b)), desc(sb))


# =============================================================== domains
def herm(N, identity=True):
    return dom.hermitian_paulis(N, include_identity=identity)


def qmask(N, q):
    m = np.zeros(N, dtype=bool)
    m[q] = True
    return m


def map_idx(N, tier):
    if N == 1:
        return list(range(24))
    return list(range(0, 11520, 1151 if tier == 0 else 97))


CPOOL = [1.0, -0.5 + 1j, 2.5, 0.3j]


def mk_pauli(kind, g, p, c=None):
    if kind == 'Pauli':
        return lib.P(g, p)
    return lib.MONO(g, p, 0.7 - 0.2j if c is None else c)


def mk_list(kind, elems):
    gs = [e[0] for e in elems]
    ps = [e[1] for e in elems]
    if kind == 'PauliList':
        return lib.PL(gs, ps)
    return lib.POLY(gs, ps, CPOOL[:len(elems)])


def all_elems(N):
    return [(g, p) for p in range(4) for g in ref.all_g(N)]


def full_list(N, kind='PauliList'):
    G = ref.all_g(N)
    ps = np.arange(len(G)) % 4
    if kind == 'PauliList':
        return lib.PL(G, ps)
    return lib.POLY(G, ps, [CPOOL[i % 4] for i in range(len(G))])


def pauli_mutators(N):
    ms = []
    gens = herm(1, False) if N == 1 else [(ref.str_to_g(s), p) for s, p in (('XI', 0), ('IZ', 2), ('YY', 0), ('ZX', 2))]
    for g, p in gens:
        ms.append(('rotate_by(%s)' % ref.g_to_str(g, p), (lambda g, p: lambda o: o.rotate_by(lib.P(g, p)))(g, p)))
    if N >= 2:
        ms.append(('rotate_by(+X,mask=q1)', lambda o: o.rotate_by(lib.P([1, 0], 0), mask=qmask(N, 1))))
        ms.append(('rotate_by(+Z,mask=q0)', lambda o: o.rotate_by(lib.P([0, 1], 0), mask=qmask(N, 0))))
    t, s = dom.valid_maps(N)[len(dom.valid_maps(N)) // 2 + 3]
    ms.append(('transform_by(map)', lambda o: o.transform_by(lib.CM(t, s))))
    if N >= 2:
        t1, s1 = dom.valid_maps(1)[13]
        ms.append(('transform_by(map1,mask=q0)', lambda o: o.transform_by(lib.CM(t1, s1), mask=qmask(N, 0))))
    return ms


# =============================================================== leg: Pauli / PauliMonomial
def _pauli_cases(cx, K, N, g, p, c, tier):
    mk = lambda: mk_pauli(K, g, p, c)
    ntq = bool(p) or K == 'PauliMonomial'

    def q(name, f):
        x = mk()
        call(cx, '%s.%s' % (K, name), {'self': x}, lambda: f(x), ntq=ntq)
    q('__repr__', repr)
    q('N', lambda x: x.N)
    q('__neg__', lambda x: -x)
    for cc in (1, 1j, -1, -1j, 2.5):
        q('__rmul__', lambda x: cc * x)
    q('__truediv__', lambda x: x / 2)
    q('trace', lambda x: x.trace())
    q('weight', lambda x: x.weight())
    if K == 'Pauli':
        q('as_monomial', lambda x: x.as_monomial())
    else:
        q('inverse', lambda x: x.inverse())
    q('as_polynomial', lambda x: x.as_polynomial())
    q('as_list', lambda x: x.as_list())
    q('tokenize', lambda x: x.tokenize())
    q('to_qutip', lambda x: x.to_qutip())
    q('__add__(number)', lambda x: x + 1.5)
    q('__radd__(number)', lambda x: 2 + x)
    q('__sub__(number)', lambda x: x - 0.5)
    q('pauli()', lambda x: lib.pc.pauli(x))
    q('paulis()', lambda x: lib.pc.paulis(x, x))
    # binary operations with every other operator, as Pauli / PauliMonomial / PauliPolynomial
    others = all_elems(N) if (N == 1 or tier) else [(g2, (i % 4)) for i, g2 in enumerate(ref.all_g(N))]
    for g2, p2 in others:
        for typ in ('Pauli', 'PauliMonomial', 'PauliPolynomial'):
            for opn in ('__add__', '__sub__', '__matmul__'):
                x = mk()
                y = mk_pauli(typ, g2, p2, -1.5) if typ != 'PauliPolynomial' else lib.POLY([g2, g], [p2, 1], [0.5, 2j])
                f = {'__add__': lambda: x + y, '__sub__': lambda: x - y, '__matmul__': lambda: x @ y}[opn]
                call(cx, '%s.%s(%s)' % (K, opn, typ), {'self': x, 'other': y}, f, ntq=ntq or bool(p2))
    # in-place: rotation (every signed generator, with and without mask), map transformation
    for g2, p2 in herm(N):
        x = mk()
        Gn = lib.P(g2, p2)
        call(cx, '%s.rotate_by' % K, {'self': x, 'generator': Gn}, lambda: x.rotate_by(Gn), target='self')
    x = mk()
    Gm = lib.MONO(ref.all_g(N)[-2], 2, 1.0)
    call(cx, '%s.rotate_by(PauliMonomial)' % K, {'self': x, 'generator': Gm}, lambda: x.rotate_by(Gm), target='self')
    for k in map_idx(N, tier):
        x = mk()
        M = lib.CM(*dom.valid_maps(N)[k])
        call(cx, '%s.transform_by' % K, {'self': x, 'map': M}, lambda: x.transform_by(M), target='self')
    if N >= 2:
        for qb in range(N):
            for g2, p2 in herm(1):
                x = mk()
                Gn = lib.P(g2, p2)
                m = qmask(N, qb)
                call(cx, '%s.rotate_by(mask)' % K, {'self': x, 'generator': Gn, 'mask': m}, lambda: x.rotate_by(Gn, mask=m), target='self')
            for k in (range(24) if tier else range(0, 24, 5)):
                x = mk()
                M = lib.CM(*dom.valid_maps(1)[k])
                m = qmask(N, qb)
                call(cx, '%s.transform_by(mask)' % K, {'self': x, 'map': M, 'mask': m}, lambda: x.transform_by(M, mask=m), target='self')
    muts = pauli_mutators(N)
    if K == 'PauliMonomial':
        muts = muts + [('set_c', lambda o: o.set_c(3.0))]
    check_copy(cx, K, mk, muts, denote=lambda o: ref.rho_key(ref.mat(o.g, o.p) * getattr(o, 'c', 1.0)), ntq=ntq)


def _finish(cxs, samples=None):
    out = {'n': 0, 'nt': 0, 'viol': [], 'extra': {}, 'samples': samples or []}
    for cx in cxs:
        out['n'] += cx.n
        out['nt'] += cx.nt
        out['viol'] += cx.viol
        for k, v in cx.extra.items():
            out['extra'][k] = out['extra'].get(k, 0) + v
    return out


def fn_pauli(items):
    """item = [kind, N, i, tier]: string index i, all 4 phases (x 2 coefficients for a monomial)."""
    cxs = []
    samples = []
    for it in items:
        K, N, i, tier = it
        cx = Cx(it)
        g = ref.all_g(N)[i]
        for p in range(4):
            for c in ([None] if K == 'Pauli' else [0.7 - 0.2j, -1.5]):
                _pauli_cases(cx, K, N, g, p, c, tier)
        cxs.append(cx)
        if not samples:
            samples.append({'kind': K, 'operator': ref.g_to_str(g, 3), 'calls': cx.n, 'in_place_calls_that_changed_target': cx.nt})
    return _finish(cxs, samples)


# =============================================================== leg: PauliList / PauliPolynomial
def _list_cases(cx, K, N, elems, tier, heavy):
    mk = lambda: mk_list(K, elems)
    L = len(elems)
    ntq = any(p for g, p in elems) or K == 'PauliPolynomial'

    def q(name, f):
        x = mk()
        call(cx, '%s.%s' % (K, name), {'self': x}, lambda: f(x), ntq=ntq)
    q('__repr__', repr)
    q('__len__', len)
    q('L,N', lambda x: (x.L, x.N))
    q('__getitem__(int)', lambda x: x[0])
    q('__getitem__(-1)', lambda x: x[-1])
    q('__getitem__(slice)', lambda x: x[0:1])
    q('__getitem__(reversed)', lambda x: x[::-1])
    q('__iter__', lambda x: [t for t in x])
    bm = np.array([j % 2 == 0 for j in range(L)])
    ia = np.array([L - 1, 0])
    x = mk()
    call(cx, '%s.__getitem__(mask)' % K, {'self': x, 'index': bm}, lambda: x[bm], ntq=ntq)
    x = mk()
    call(cx, '%s.__getitem__(indices)' % K, {'self': x, 'index': ia}, lambda: x[ia], ntq=ntq)
    q('__neg__', lambda x: -x)
    for cc in (1, 1j, -1, -1j) + ((2.5,) if K == 'PauliPolynomial' else ()):
        q('__rmul__', lambda x: cc * x)
    if K == 'PauliPolynomial':
        q('__truediv__', lambda x: x / 2)
        q('reduce', lambda x: x.reduce())
        q('__add__(number)', lambda x: x + 1.5)
        q('__radd__(number)', lambda x: 2 + x)
        q('__sub__(number)', lambda x: x - 1)
    q('trace', lambda x: x.trace())
    q('weight', lambda x: x.weight())
    q('as_polynomial', lambda x: x.as_polynomial())
    q('tokenize', lambda x: x.tokenize())
    q('paulis()', lambda x: lib.pc.paulis(x))
    if heavy:
        q('to_qutip', lambda x: x.to_qutip())
    if K == 'PauliPolynomial' and heavy:
        for g2, p2 in all_elems(N)[::(1 if N == 1 else 5)]:
            for typ in ('Pauli', 'PauliMonomial', 'PauliPolynomial', 'PauliList'):
                for opn in ('__add__', '__sub__', '__matmul__'):
                    if typ == 'PauliList' and opn != '__add__':
                        continue
                    x = mk()
                    if typ in ('Pauli', 'PauliMonomial'):
                        y = mk_pauli(typ, g2, p2, -1.5)
                    else:
                        y = mk_list(typ, [(g2, p2), elems[0]])
                    f = {'__add__': lambda: x + y, '__sub__': lambda: x - y, '__matmul__': lambda: x @ y}[opn]
                    call(cx, '%s.%s(%s)' % (K, opn, typ), {'self': x, 'other': y}, f, ntq=True)
    # in place
    gens = herm(N) if heavy else herm(N)[1::5]
    for g2, p2 in gens:
        x = mk()
        Gn = lib.P(g2, p2)
        call(cx, '%s.rotate_by' % K, {'self': x, 'generator': Gn}, lambda: x.rotate_by(Gn), target='self')
    for k in (map_idx(N, tier) if heavy else map_idx(N, 0)[::3]):
        x = mk()
        M = lib.CM(*dom.valid_maps(N)[k])
        call(cx, '%s.transform_by' % K, {'self': x, 'map': M}, lambda: x.transform_by(M), target='self')
    if N >= 2:
        for qb in range(N):
            for g2, p2 in (herm(1) if heavy else herm(1)[2:5]):
                x = mk()
                Gn = lib.P(g2, p2)
                m = qmask(N, qb)
                call(cx, '%s.rotate_by(mask)' % K, {'self': x, 'generator': Gn, 'mask': m}, lambda: x.rotate_by(Gn, mask=m), target='self')
            for k in (range(0, 24, 5) if heavy else (7,)):
                x = mk()
                M = lib.CM(*dom.valid_maps(1)[k])
                m = qmask(N, qb)
                call(cx, '%s.transform_by(mask)' % K, {'self': x, 'map': M, 'mask': m}, lambda: x.transform_by(M, mask=m), target='self')
    if heavy:
        muts = pauli_mutators(N)
        if K == 'PauliPolynomial':
            muts = muts + [('set_cs', lambda o: o.set_cs(np.zeros(o.L, dtype=np.complex128)))]

        def den(o):
            if hasattr(o, 'cs'):
                return ref.rho_key(sum(cc * ref.mat(gg, pp) for gg, pp, cc in zip(o.gs, o.ps, o.cs)))
            return [ref.rho_key(ref.mat(gg, pp)) for gg, pp in zip(o.gs, o.ps)]
        check_copy(cx, K, mk, muts, denote=den, ntq=ntq)
    else:
        check_copy(cx, K, mk, pauli_mutators(N)[:2], ntq=ntq, pairs=0)


def fn_list(items):
    """item = [kind, N, i1, tier]: first element i1 (over all 4*4^N signed operators); lists [e1], [e1,e2] for
    every e2, and (N=1) [e1,e2,e3] for every e2,e3."""
    cxs = []
    samples = []
    for it in items:
        K, N, i1, tier = it
        cx = Cx(it)
        E = all_elems(N)
        e1 = E[i1]
        _list_cases(cx, K, N, [e1], tier, True)
        for j, e2 in enumerate(E):
            if N == 2 and not tier and e2[1] != (j + i1) % 4:
                continue          # quick: every second string with one (rotating) phase; thorough: all 4 phases
            _list_cases(cx, K, N, [e1, e2], tier, heavy=(N == 1 or j % 16 == i1 % 16))
        if N == 1:
            for e2 in E:
                for e3 in E[::(1 if tier else 3)]:
                    _list_cases(cx, K, N, [e1, e2, e3], tier, heavy=False)
        cxs.append(cx)
        if not samples:
            samples.append({'kind': K, 'first': ref.g_to_str(*e1), 'calls': cx.n})
    return _finish(cxs, samples)


# =============================================================== leg: CliffordMap
_FIXED_MAPS = {1: (0, 5, 11, 14, 19, 23), 2: (0, 777, 2345, 5001, 7919, 11519)}


def map_mutators(N):
    ms = pauli_mutators(N)
    if N >= 2:
        t1, s1 = dom.valid_maps(1)[9]
        ms = ms + [('embed(map1,q1)', lambda o: o.embed(lib.CM(t1, s1), qmask(N, 1)))]
    return ms


def fn_map(items):
    """item = [N, k, tier]: valid map k as receiver of every CliffordMap method and as argument of
    transform_by / compose / embed."""
    cxs = []
    samples = []
    pc = lib.pc
    for it in items:
        N, k, tier = it
        cx = Cx(it)
        t, s = dom.valid_maps(N)[k]
        mk = lambda: lib.CM(t, s)
        ntq = bool(np.any(s))
        K = 'CliffordMap'

        def q(name, f):
            x = mk()
            call(cx, '%s.%s' % (K, name), {'self': x}, lambda: f(x), ntq=ntq)
        q('__repr__', repr)
        q('__len__', len)
        q('__getitem__(int)', lambda x: x[1])
        q('__getitem__(slice)', lambda x: x[:2])
        q('__neg__', lambda x: -x)
        q('trace', lambda x: x.trace())
        q('weight', lambda x: x.weight())
        q('tokenize', lambda x: x.tokenize())
        q('as_polynomial', lambda x: x.as_polynomial())
        q('inverse', lambda x: x.inverse())
        q('to_state', lambda x: x.to_state())
        for r in range(N + 1):
            q('to_state(r)', lambda x: x.to_state(r))
        q('compose(self)', lambda x: x.compose(x))
        for k2 in _FIXED_MAPS[N]:
            x = mk()
            y = lib.CM(*dom.valid_maps(N)[k2])
            call(cx, K + '.compose', {'self': x, 'other': y}, lambda: x.compose(y), ntq=ntq)
            x = mk()
            y = lib.CM(*dom.valid_maps(N)[k2])
            call(cx, K + '.compose', {'self': y, 'other': x}, lambda: y.compose(x), ntq=ntq)
        # as the argument of in-place transformations
        for kind in ('Pauli', 'PauliMonomial', 'PauliList', 'PauliPolynomial', 'CliffordMap', 'StabilizerState'):
            M = mk()
            if kind in ('Pauli', 'PauliMonomial'):
                o = mk_pauli(kind, ref.all_g(N)[-1], 3)
            elif kind in ('PauliList', 'PauliPolynomial'):
                o = full_list(N, kind)
            elif kind == 'CliffordMap':
                o = lib.CM(*dom.valid_maps(N)[_FIXED_MAPS[N][2]])
            else:
                o = stab.fresh(N, (7 * k + 3) % len(stab.tableaux(N)))
            call(cx, '%s.transform_by' % kind, {'self': o, 'map': M}, lambda: o.transform_by(M), target='self')
        if N == 1:
            for kind in ('PauliList', 'StabilizerState', 'CliffordMap'):
                for qb in (0, 1):
                    M = mk()
                    m = qmask(2, qb)
                    if kind == 'PauliList':
                        o = full_list(2)
                    elif kind == 'CliffordMap':
                        o = lib.CM(*dom.valid_maps(2)[4321])
                    else:
                        o = stab.fresh(2, (97 * k + 31 * qb + 5) % 34560)
                    call(cx, '%s.transform_by(mask)' % kind, {'self': o, 'map': M, 'mask': m}, lambda: o.transform_by(M, mask=m), target='self')
                    if kind == 'CliffordMap':
                        M = mk()
                        o = lib.CM(*dom.valid_maps(2)[4321])
                        m = qmask(2, qb)
                        call(cx, 'CliffordMap.embed', {'self': o, 'small_map': M, 'mask': m}, lambda: o.embed(M, m), target='self')
        # as receiver of in-place operations inherited from PauliList
        for g2, p2 in herm(N):
            x = mk()
            Gn = lib.P(g2, p2)
            call(cx, K + '.rotate_by', {'self': x, 'generator': Gn}, lambda: x.rotate_by(Gn), target='self')
        for k2 in _FIXED_MAPS[N]:
            x = mk()
            y = lib.CM(*dom.valid_maps(N)[k2])
            call(cx, K + '.transform_by', {'self': x, 'map': y}, lambda: x.transform_by(y), target='self')
        check_copy(cx, K, mk, map_mutators(N), denote=lambda o: (o.gs.astype(np.int64).tobytes(), (o.ps % 4).astype(np.int64).tobytes()), ntq=ntq)
        cxs.append(cx)
        if not samples and k % 50 == 7:
            samples.append({'N': N, 'map_rows': [ref.g_to_str(a, b) for a, b in zip(t, s)], 'calls': cx.n})
    return _finish(cxs, samples)


# =============================================================== leg: StabilizerState
def state_mutators(N):
    ms = pauli_mutators(N)
    G = ref.all_g(N)

    def meas(g, p, coin):
        def f(o):
            rng.script((coin,), None)
            o.measure(lib.PL([g], [p]))
        return f
    ms = ms[:2] + [('measure(+%s)coin0' % ref.g_to_str(G[2]), meas(G[2], 0, 0)), ('measure(-%s)coin1' % ref.g_to_str(G[-1]), meas(G[-1], 2, 1))] + ms[2:]
    ms.append(('set_r', lambda o: o.set_r((o.r + 1) % (N + 1))))
    ms.append(('gate H(0).forward', lambda o: lib.pc.H(0).forward(o)))
    return ms


def _others(N, level, tier, seed=0):
    """Other states used as arguments (expect / measure): one per density matrix on the full menu, a stride on the core menu."""
    reps = stab.representatives(N, seed)
    if N == 1 or level:
        return reps
    return reps[::3] if tier else reps[::8]


def _state_cases(cx, N, idx, level, tier):
    gs0, ps0, r0 = stab.tableaux(N)[idx]
    mk = lambda: lib.ST(gs0, ps0, r0)
    K = 'StabilizerState'
    ntq = bool(np.any(ps0[:N])) or r0 > 0
    pc = lib.pc

    def q(name, f, **kw):
        x = mk()
        return call(cx, '%s.%s' % (K, name), {'self': x}, lambda: f(x), ntq=ntq, **kw)
    q('__repr__', repr)
    q('stabilizers', lambda x: x.stabilizers)
    q('to_map', lambda x: x.to_map())
    q('tokenize', lambda x: x.tokenize())
    q('density_matrix', lambda x: x.density_matrix)
    for L in (1, 2):
        def f(x):
            rng.script((), (1, 0, 1, 1, 0, 0, 1, 0))
            return x.sample(L)
        q('sample', f)
    for bits in itertools.product((0, 1), repeat=N):
        x = mk()
        ro = np.array(bits)
        call(cx, K + '.get_prob', {'self': x, 'readout': ro}, lambda: x.get_prob(ro), ntq=ntq)
    # entropy: every subsystem in every accepted format
    for sub in dom.subsets(N):
        fmts = [('list', list(sub)), ('tuple', tuple(sub))]
        if sub:
            fmts.append(('int-array', np.array(sub)))
        bmask = np.zeros(N, dtype=bool)
        bmask[list(sub)] = True
        fmts.append(('bool-mask', bmask))
        for fn_, a in fmts:
            x = mk()
            call(cx, '%s.entropy(%s)' % (K, fn_), {'self': x, 'subsys': a}, lambda: x.entropy(a), ntq=ntq)
    # expectation values with every observable type
    x = mk()
    O = full_list(N)
    call(cx, K + '.expect(PauliList)', {'self': x, 'obs': O}, lambda: x.expect(O), ntq=ntq)
    x = mk()
    O = full_list(N, 'PauliPolynomial')
    call(cx, K + '.expect(PauliPolynomial)', {'self': x, 'obs': O}, lambda: x.expect(O), ntq=ntq)
    x = mk()
    O = lib.CM(*dom.valid_maps(N)[idx % len(dom.valid_maps(N))])
    call(cx, K + '.expect(CliffordMap)', {'self': x, 'obs': O}, lambda: x.expect(O), ntq=ntq)
    G = ref.all_g(N)
    for i, g2 in enumerate(G):
        for typ in ('Pauli', 'PauliMonomial'):
            x = mk()
            O = mk_pauli(typ, g2, (i + idx) % 4)
            call(cx, '%s.expect(%s)' % (K, typ), {'self': x, 'obs': O}, lambda: x.expect(O), ntq=ntq)
    others = _others(N, level, tier)
    for j in others:
        x = mk()
        y = stab.fresh(N, j)
        call(cx, K + '.expect(StabilizerState)', {'self': x, 'obs': y}, lambda: x.expect(y), ntq=ntq)
    # in place: rotation, transformation, measurement, post-selection
    for g2, p2 in herm(N):
        x = mk()
        Gn = lib.P(g2, p2)
        call(cx, K + '.rotate_by', {'self': x, 'generator': Gn}, lambda: x.rotate_by(Gn), target='self')
        for coin in (0, 1):
            x = mk()
            O = lib.PL([g2], [p2])

            def f():
                rng.script((coin,), None)
                return x.measure(O)
            call(cx, K + '.measure(PauliList)', {'self': x, 'obs': O}, f, target='self')
        if r0 == 0:
            for res in (0, 1):
                x = mk()
                Pn = lib.P(g2, p2)
                call(cx, K + '.postselect', {'self': x, 'pauli': Pn}, lambda: x.postselect(Pn, res), target='self')
    for k in (map_idx(N, 1) if level else _FIXED_MAPS[N]):
        x = mk()
        M = lib.CM(*dom.valid_maps(N)[k])
        call(cx, K + '.transform_by', {'self': x, 'map': M}, lambda: x.transform_by(M), target='self')
    if N >= 2:
        for qb in range(N):
            for g2, p2 in herm(1, False):
                x = mk()
                Gn = lib.P(g2, p2)
                m = qmask(N, qb)
                call(cx, K + '.rotate_by(mask)', {'self': x, 'generator': Gn, 'mask': m}, lambda: x.rotate_by(Gn, mask=m), target='self')
            for k in (range(24) if level else (3, 10, 17)):
                x = mk()
                M = lib.CM(*dom.valid_maps(1)[k])
                m = qmask(N, qb)
                call(cx, K + '.transform_by(mask)', {'self': x, 'map': M, 'mask': m}, lambda: x.transform_by(M, mask=m), target='self')
        pairs = dom.commuting_lists(N, 2)
        for (a, b) in (pairs[idx % 9::9] if level else pairs[idx % 30::30]):
            for sg in ((0, 2), (2, 0)):
                for coins in ((0, 1), (1, 0)):
                    x = mk()
                    O = lib.PL([G[a], G[b]], list(sg))

                    def f():
                        rng.script(coins, None)
                        return x.measure(O)
                    call(cx, K + '.measure(PauliList)', {'self': x, 'obs': O}, f, target='self')
    for j in others:
        for coins in ((0,) * N, (1,) * N):
            x = mk()
            y = stab.fresh(N, j)

            def f():
                rng.script(coins, None)
                return x.measure(y)
            call(cx, K + '.measure(StabilizerState)', {'self': x, 'obs': y}, f, target='self')
    # state constructor from the state's own stabilizers: the argument list must be unchanged
    if r0 < N:
        O = lib.PL(gs0[r0:N], ps0[r0:N])
        ok, st2 = call(cx, 'stabilizer_state(PauliList)', {'stabilizers': O}, lambda: pc.stabilizer_state(O), ntq=ntq)
        if ok and shared(st2, O):
            cx.count('result_is_view_of_argument:stabilizer_state')
    if level:
        q('to_qutip', lambda x: x.to_qutip())
        q('__neg__', lambda x: -x)
        q('__rmul__', lambda x: 0.5 * x)
        q('__truediv__', lambda x: x / 2)
        q('__add__(number)', lambda x: x + 1.0)
        q('__radd__(number)', lambda x: 1.0 + x)
        for typ in ('Pauli', 'PauliMonomial', 'PauliPolynomial'):
            for opn in ('__add__', '__sub__', '__matmul__'):
                x = mk()
                y = mk_pauli(typ, G[-1], 2) if typ != 'PauliPolynomial' else full_list(N, typ)
                f = {'__add__': lambda: x + y, '__sub__': lambda: x - y, '__matmul__': lambda: x @ y}[opn]
                call(cx, '%s.%s(%s)' % (K, opn, typ), {'self': x, 'other': y}, f, ntq=ntq)
        q('diagonalize(state)', lambda x: pc.diagonalize(x))
        if r0 == 0:
            def f(x):
                c = pc.diagonalize(x)
                return c.forward(x.copy()), c.backward(pc.zero_state(N))
            q('diagonalize(state)+run', f)

    def den(o):
        m = o.to_map()
        return (ref.rho_key(stab.rho_of(o.gs, o.ps, o.r)), int(o.r), m.gs.astype(np.int64).tobytes(), (m.ps % 4).astype(np.int64).tobytes())
    check_copy(cx, K, mk, state_mutators(N) if level else state_mutators(N)[:4], denote=den, ntq=ntq, pairs=2 if level else 1)


def fn_state(items):
    """item = [N, idx, level, tier]: tableau idx; level 0 = core menu, 1 = full menu."""
    cxs = []
    samples = []
    for it in items:
        N, idx, level, tier = it
        cx = Cx(it)
        _state_cases(cx, N, idx, level, tier)
        cxs.append(cx)
        if not samples and idx % 37 == 5:
            samples.append({'N': N, 'tableau': stab.describe(*stab.tableaux(N)[idx]), 'level': level, 'calls': cx.n, 'nontrivial': cx.nt})
    return _finish(cxs, samples)


# =============================================================== leg: gates, layers, circuits
def gate_specs(n, tier):
    """Catalogue of gates on n qubits: three kinds (generator / forward map / backward map), both maps,
    a random gate, and the named constructors."""
    specs = []
    for g, p in herm(n, False):
        specs.append(('gen', [g.tolist(), int(p)]))
    idxs = list(range(24)) if n == 1 else list(range(0, 11520, 1151 if tier == 0 else 97))
    for k in idxs:
        specs.append(('fwd', k))
        specs.append(('bwd', k))
    for k in idxs[::4]:
        specs.append(('both', k))
    specs.append(('random', 0))
    if n == 1:
        for nm in ('H', 'S', 'X', 'Y', 'Z'):
            specs.append(('named', nm))
        for k in range(24):
            specs.append(('named', 'C%d' % k))
    else:
        specs.append(('named', 'CNOT'))
    return specs


def make_gate(spec, qubits):
    pc = lib.pc
    kind, data = spec
    n = len(qubits)
    if kind == 'named':
        if data == 'CNOT':
            return pc.CNOT(*qubits)
        if data[0] == 'C':
            return pc.C(int(data[1:]), *qubits)
        return getattr(pc, data)(*qubits)
    gate = pc.CliffordGate(*qubits)
    if kind == 'gen':
        gate.set_generator(lib.P(data[0], data[1]))
    elif kind == 'fwd':
        gate.set_forward_map(lib.CM(*dom.valid_maps(n)[data]))
    elif kind == 'bwd':
        gate.set_backward_map(lib.CM(*dom.valid_maps(n)[data]))
    elif kind == 'both':
        f = lib.CM(*dom.valid_maps(n)[data])
        b = f.inverse()
        gate.set_forward_map(f)
        gate.set_backward_map(lib.CM(np.array(b.gs), np.array(b.ps)))
    return gate


_COINS = (1, 0, 1, 1, 0, 1, 0, 0, 1, 1, 1, 0, 1, 0, 1, 1, 0, 1, 1, 0)


def _run(f):
    """Run f under scripted coins (random gates / measurement layers draw from both streams)."""
    def g():
        rng.script(_COINS, _COINS)
        return f()
    return g


def acted_objects(N, tier, seed=0, dense=False):
    """Fresh objects a gate / layer / circuit is applied to: (kind, maker)."""
    out = []
    G = ref.all_g(N)
    for i in (range(len(G)) if N == 1 else range(1, len(G), 3)):
        out.append(('Pauli', (lambda i: lambda: lib.P(G[i], i % 4))(i)))
    out.append(('PauliMonomial', lambda: lib.MONO(G[-1], 1, -1.5)))
    out.append(('PauliList', lambda: full_list(N)))
    out.append(('PauliPolynomial', lambda: full_list(N, 'PauliPolynomial')))
    out.append(('CliffordMap', lambda: lib.CM(*dom.valid_maps(N)[_FIXED_MAPS[N][3]])))
    reps = stab.representatives(N, seed)
    for j in (reps if (N == 1 or dense) else (reps[::4] if tier else reps[::9])):
        out.append(('StabilizerState', (lambda j: lambda: stab.fresh(N, j))(j)))
    return out


def act_key(o, N):
    """Denotation of a gate / layer / circuit: its forward and backward action on every Pauli string."""
    out = []
    for d in ('forward', 'backward'):
        pl = full_list(N)
        rng.script(_COINS, _COINS)
        getattr(o, d)(pl)
        out.append((np.asarray(pl.gs).astype(np.int64).tobytes(), (np.asarray(pl.ps) % 4).astype(np.int64).tobytes()))
    return out


def gate_mutators():
    def rot_map(attr):
        def f(o):
            m = getattr(o, attr)
            if m is not None:
                m.rotate_by(lib.P(ref.all_g(m.N)[-1], 0))
        return f

    def rot_gen(o):
        if o.generator is not None:
            o.generator.rotate_by(lib.P(ref.all_g(o.generator.N)[2], 0))
            o.generator.rotate_by(lib.P(ref.all_g(o.generator.N)[1], 0))
    return [('forward_map.rotate_by', rot_map('forward_map')), ('backward_map.rotate_by', rot_map('backward_map')),
            ('generator.rotate_by', rot_gen), ('compile', lambda o: o.compile() if (o.generator is not None or o.forward_map is not None or o.backward_map is not None) else None)]


def _apply_cases(cx, K, mk, N, tier, dense=False, ignore=()):
    """forward / backward of a gate-like object on every kind of object: the acted object changes, the
    gate-like object (stored generator, maps that were set) does not."""
    for okind, mo in acted_objects(N, tier, dense=dense):
        for d in ('forward', 'backward'):
            gt = mk()
            o = mo()
            call(cx, '%s.%s(%s)' % (K, d, okind), {'gate': gt, 'obj': o}, _run(lambda: getattr(gt, d)(o)), target='obj', ignore=ignore)
        # second application after the memoisation, other direction first
        gt = mk()
        o = mo()
        try:
            rng.script(_COINS, _COINS)
            gt.backward(mo())
        except Exception:
            pass
        call(cx, '%s.forward-after-backward(%s)' % (K, okind), {'gate': gt, 'obj': o}, _run(lambda: gt.forward(o)), target='obj', ignore=ignore)


def fn_gate(items):
    """item = [n, N, qi, si, tier]: gate spec si on n qubits placed at the qi-th qubit tuple of an N-qubit system."""
    cxs = []
    samples = []
    for it in items:
        n, N, qi, si, tier = it
        cx = Cx(it)
        placements = [q for q in itertools.permutations(range(N), n)]
        qubits = placements[qi]
        spec = gate_specs(n, tier)[si]
        mk = lambda: make_gate(spec, qubits)
        K = 'CliffordGate[%s]' % spec[0]
        for nm, f in (('__repr__', repr), ('independent_from', lambda g_: g_.independent_from(lib.pc.CliffordGate(0)))):
            gt = mk()
            call(cx, '%s.%s' % (K, nm), {'self': gt}, lambda: f(gt), ntq=True)
        if spec[0] != 'random':
            gt = mk()
            call(cx, K + '.compile', {'self': gt}, lambda: gt.compile(), ntq=True)   # memo rule applies: see diff()
            gt = mk()
            gt.compile()
            s1 = snap(gt)
            gt.compile()
            if diff(s1, snap(gt), memo=False):
                cx.bad('C17/%s.compile/not-idempotent' % K, 'second compile() changes the stored maps', desc(snap(gt)), desc(s1))
        _apply_cases(cx, K, mk, N, tier, dense=bool(tier))
        if spec[0] != 'random':
            check_copy(cx, K, mk, gate_mutators(), denote=lambda o: act_key(o, N), ntq=True)
            # copy of a gate whose missing map has been memoised / compiled
            def mk2():
                g_ = mk()
                g_.compile()
                return g_
            check_copy(cx, K + '(compiled)', mk2, gate_mutators()[:3], denote=lambda o: act_key(o, N), ntq=True, pairs=1)
        else:
            check_copy(cx, K, mk, [], ntq=False)
        cxs.append(cx)
        if not samples and si % 11 == 3:
            samples.append({'gate': spec, 'qubits': list(qubits), 'N': N, 'calls': cx.n})
    return _finish(cxs, samples)


# ---- layers and circuits
def alphabet(N, tier):
    """Small alphabet of (spec, qubits) for layers / circuit programs."""
    a = []
    for q in range(N):
        a.append((('gen', [[1, 1], 2]), (q,)))
        a.append((('fwd', 13), (q,)))
        a.append((('bwd', 8), (q,)))
        a.append((('named', 'H'), (q,)))
    if N >= 2:
        a.append((('named', 'CNOT'), (0, 1)))
        a.append((('gen', [[1, 0, 0, 1], 0]), (1, 0)))
        a.append((('bwd', 5001), (0, 1)))
        a.append((('both', 2302), (1, 0)))
    return a


def layer_catalogue(N, tier):
    A = alphabet(N, tier)
    out = []
    for i, (s, q) in enumerate(A):
        out.append([i])
        for j, (s2, q2) in enumerate(A):
            if not set(q) & set(q2):
                out.append([i, j])
    return out


def program_catalogue(N, tier):
    A = range(len(alphabet(N, tier)))
    out = [[i] for i in A] + [[i, j] for i in A for j in A]
    if N == 1 or tier:
        out += [[i, j, k] for i in A for j in A for k in A]
    else:
        out += [[i, j, k] for i in A for j in A for k in A if (i + 2 * j + 3 * k) % 21 == 0]
    return out


def layer_mutators(N):
    return [('compile', lambda o: o.compile(N)),
            ('gates[0].compile', lambda o: o.gates[0].compile()),
            ('take(gate)', lambda o: o.take(lib.pc.H(0))),
            ('gates[0] stored data rotate_by', lambda o: [m.rotate_by(lib.P(ref.all_g(m.N)[-1], 0)) for m in
                                                         (o.gates[0].generator, o.gates[0].forward_map, o.gates[0].backward_map) if m is not None])]


def circuit_mutators(N):
    def first_gate(o):
        for l in o.layers_forward():
            if l.gates:
                return l.gates[0]
    return [('compile', lambda o: o.compile()),
            ('take(gate)', lambda o: o.take(lib.pc.S(N - 1))),
            ('gate()', lambda o: o.gate(0)),
            ('first gate stored data rotate_by', lambda o: [m.rotate_by(lib.P(ref.all_g(m.N)[-1], 0)) for m in
                                                           (first_gate(o).generator, first_gate(o).forward_map, first_gate(o).backward_map) if m is not None]),
            ('compose(other)', lambda o: o.compose(lib.pc.identity_circuit(N).take(lib.pc.X(0))))]


def fn_layer(items):
    """item = [N, li, compiled, tier]: CliffordLayer li of the catalogue, plain or compiled."""
    cxs = []
    for it in items:
        N, li, compiled, tier = it
        cx = Cx(it)
        A = alphabet(N, tier)
        prog = layer_catalogue(N, tier)[li]

        def mk():
            l = lib.pc.CliffordLayer(*[make_gate(*A[i]) for i in prog])
            if compiled:
                l.compile(N)
            return l
        K = 'CliffordLayer' + ('(compiled)' if compiled else '')
        for nm, f in (('__repr__', repr), ('independent_from', lambda l: l.independent_from(lib.pc.CliffordGate(0)))):
            l = mk()
            call(cx, '%s.%s' % (K, nm), {'self': l}, lambda: f(l), ntq=True)
        l = mk()
        # compile: the layer's own maps are (re)built; its gates obey the memoisation rule
        s0 = snap(l)
        l.compile(N)
        cx.n += 1
        d = diff(s0['gates'], snap(l)['gates'])
        if d:
            cx.bad('C17/%s.compile/gates-changed' % K, 'compile(N) changed stored gate data at %s' % d[:4], desc(snap(l)), desc(s0))
        l = mk()
        gnew = lib.pc.Z(0)
        call(cx, K + '.take', {'self': l, 'gate': gnew}, lambda: l.take(gnew), target='self', alias=False)
        _apply_cases(cx, K, mk, N, tier)
        check_copy(cx, K, mk, layer_mutators(N), denote=lambda o: act_key(o, N), ntq=True)
        cxs.append(cx)
    return _finish(cxs)


def fn_circuit(items):
    """item = [N, pi, compiled, tier]: CliffordCircuit built by take() from program pi, plain or compiled."""
    cxs = []
    samples = []
    pc = lib.pc
    for it in items:
        N, pi, compiled, tier = it
        cx = Cx(it)
        A = alphabet(N, tier)
        prog = program_catalogue(N, tier)[pi]

        def mk():
            c = pc.identity_circuit(N)
            for i in prog:
                c.take(make_gate(*A[i]))
            if compiled:
                c.compile()
            return c
        K = 'CliffordCircuit' + ('(compiled)' if compiled else '')
        for nm, f in (('__repr__', repr), ('N', lambda c: c.N), ('layers', lambda c: [list(c.layers_forward()), list(c.layers_backward())]),
                      ('povm', lambda c: list(c.povm(2)))):
            c = mk()
            call(cx, '%s.%s' % (K, nm), {'self': c}, lambda: f(c), ntq=True, result_alias=False)
        c = mk()
        s0 = snap(c)
        c.compile()
        cx.n += 1
        d = diff(s0['layers'], snap(c)['layers'], ignore={('CliffordLayer', 'forward_map'), ('CliffordLayer', 'backward_map')})
        if d:
            cx.bad('C17/%s.compile/gates-changed' % K, 'compile() changed stored gate data at %s' % d[:4], desc(snap(c)), desc(s0))
        c = mk()
        other = pc.identity_circuit(N)
        for i in prog[::-1]:
            other.take(make_gate(*A[i]))
        call(cx, K + '.compose', {'self': c, 'other': other}, lambda: c.compose(other), target='self', alias=False)
        c = mk()
        gnew = pc.Z(0)
        call(cx, K + '.take', {'self': c, 'gate': gnew}, lambda: c.take(gnew), target='self', alias=False)
        _apply_cases(cx, K, mk, N, tier)
        check_copy(cx, K, mk, circuit_mutators(N), denote=lambda o: act_key(o, N), ntq=True)
        cxs.append(cx)
        if not samples and pi % 17 == 4:
            samples.append({'N': N, 'program': [[A[i][0][0], A[i][0][1] if A[i][0][0] != 'gen' else ref.g_to_str(np.array(A[i][0][1][0]), A[i][0][1][1]), list(A[i][1])] for i in prog],
                            'compiled': bool(compiled), 'calls': cx.n})
    return _finish(cxs, samples)


def measure_programs(N):
    """Programs for Circuit (with measurement layers): entries are alphabet indices or ('M', qubits)."""
    if N == 1:
        return [[('M', (0,))], [3, ('M', (0,))], [0, ('M', (0,)), 1], [('M', (0,)), 3, ('M', (0,))], [3, 2]]
    return [[('M', (0,))], [('M', (1, 0))], [3, ('M', (0, 1))], [3, 8, ('M', (0,)), 5], [8, ('M', (1,)), 3, ('M', (0, 1))],
            [0, 9, ('M', (0, 1)), 10, 11], [3, 8], [1, 6, 9]]


def fn_mcircuit(items):
    """item = [N, pi, compiled, si]: Circuit (measurement layers allowed) program pi on input state si."""
    cxs = []
    pc = lib.pc
    for it in items:
        N, pi, compiled, si = it
        cx = Cx(it)
        A = alphabet(N, 0)
        prog = measure_programs(N)[pi]

        def mk():
            c = pc.Circuit(N)
            for e in prog:
                if isinstance(e, (tuple, list)):
                    c.measure(*e[1])
                else:
                    c.take(make_gate(*A[e]))
            if compiled:
                c.compile()
            return c
        K = 'Circuit' + ('(compiled)' if compiled else '')
        c = mk()
        call(cx, K + '.__repr__', {'self': c}, lambda: repr(c), ntq=True)
        c = mk()
        s0 = snap(c)
        c.compile()
        cx.n += 1
        d = diff(s0['layers'], snap(c)['layers'], ignore={('CliffordLayer', 'forward_map'), ('CliffordLayer', 'backward_map')})
        if d:
            cx.bad('C17/%s.compile/gates-changed' % K, 'compile() changed stored gate data at %s' % d[:4], desc(snap(c)), desc(s0))
        unitary = not any(isinstance(e, (tuple, list)) for e in prog)
        reps = stab.representatives(N, 0)
        j = reps[si % len(reps)]
        objs = [('StabilizerState', lambda: stab.fresh(N, j))]
        if unitary:
            objs += [('PauliList', lambda: full_list(N)), ('Pauli', lambda: lib.P(ref.all_g(N)[-1], 3))]
        for okind, mo in objs:
            c = mk()
            o = mo()
            # forward accumulates measure_result / log2prob / MeasureLayer.result by design
            call(cx, '%s.forward(%s)' % (K, okind), {'gate': c, 'obj': o}, _run(lambda: c.forward(o)), target='obj', ignore=ACCUM)
            c = mk()
            o = mo()
            ok, _ = call(cx, '%s.forward(%s)' % (K, okind), {'gate': c, 'obj': o}, _run(lambda: c.forward(o)), target='obj', ignore=ACCUM, alias=False)
            if ok and (unitary or o.r == 0):
                o2 = o
                call(cx, '%s.backward(%s)' % (K, okind), {'gate': c, 'obj': o2}, lambda: c.backward(o2), target='obj')
            if ok and not unitary:
                c = mk()
                o = mo()
                rng.script(_COINS, _COINS)
                c.forward(o)
                if o.r == 0:
                    mr = list(c.measure_result)
                    call(cx, '%s.backward(%s,measure_result)' % (K, okind), {'gate': c, 'obj': o, 'measure_result': mr},
                         lambda: c.backward(o, measure_result=mr), target='obj')
        cxs.append(cx)
    return _finish(cxs)


# =============================================================== leg: module-level functions
def fn_func(items):
    """item = [what, N, k]: functions taking library objects as arguments; the arguments must be unchanged."""
    cxs = []
    pc = lib.pc
    for it in items:
        what, N, k = it
        cx = Cx(it)
        G = ref.all_g(N)
        if what == 'diagonalize':
            g = G[k]
            for p in range(4):
                for typ in ('Pauli', 'PauliMonomial'):
                    for i0 in range(N):
                        for causal in (False, True):
                            if not g.any():
                                continue
                            x = mk_pauli(typ, g, p)
                            ok, circ = call(cx, 'diagonalize(%s)' % typ, {'obj': x}, lambda: pc.diagonalize(x, i0, causal), ntq=bool(p))
                            if ok:
                                y = mk_pauli(typ, g, p)
                                call(cx, 'diagonalize(%s).forward' % typ, {'gate': circ, 'obj': y}, lambda: circ.forward(y), target='obj')
        elif what == 'rotation':
            g = G[k]
            for p in (0, 2):
                x = lib.P(g, p)
                call(cx, 'clifford_rotation_map', {'gen': x}, lambda: pc.clifford_rotation_map(x), ntq=bool(p))
                if g.any():
                    x = lib.P(g, p)
                    ok, gt = call(cx, 'clifford_rotation_gate', {'generator': x}, lambda: pc.clifford_rotation_gate(x), ntq=bool(p))
                    if ok and shared(gt, x):
                        cx.count('result_is_view_of_argument:clifford_rotation_gate')
                    x = lib.P(g, p)
                    qs = np.arange(1, N + 1)
                    ok, gt = call(cx, 'clifford_rotation_gate(qubits)', {'generator': x, 'qubits': qs}, lambda: pc.clifford_rotation_gate(x, qs), ntq=bool(p))
                    if ok:
                        o = full_list(N + 1)
                        call(cx, 'clifford_rotation_gate(qubits).forward', {'gate': gt, 'obj': o, 'generator': x, 'qubits': qs}, lambda: gt.forward(o), target='obj')
                        gt2 = pc.clifford_rotation_gate(lib.P(g, p), np.arange(1, N + 1))
                        o = full_list(N + 1)
                        call(cx, 'clifford_rotation_gate(qubits).backward', {'gate': gt2, 'obj': o}, lambda: gt2.backward(o), target='obj')
                # set_generator keeps a reference by design (not a copy): only the generator itself must not be modified by use
                x = lib.P(g, p)
                gt = pc.CliffordGate(*range(N))
                gt.set_generator(x)
                o = full_list(N)
                call(cx, 'CliffordGate[gen].forward(PauliList)', {'generator': x, 'obj': o}, lambda: gt.forward(o), target='obj')
        elif what == 'stabilizer_state':
            L = k
            for lst in dom.commuting_lists(N, L):
                for signs in itertools.product((0, 2), repeat=L):
                    O = lib.PL([G[a] for a in lst], list(signs))
                    call(cx, 'stabilizer_state(PauliList)', {'stabilizers': O}, lambda: pc.stabilizer_state(O), ntq=any(signs))
                strs = [('-' if s else '') + ref.g_to_str(G[a]) for a, s in zip(lst, signs)]
                call(cx, 'stabilizer_state(str)', {'stabilizers': strs}, lambda: pc.stabilizer_state(*strs), ntq=any(signs))
                Ps = [lib.P(G[a], s) for a, s in zip(lst, signs)]
                call(cx, 'stabilizer_state(Pauli...)', {'stabilizers': Ps}, lambda: pc.stabilizer_state(*Ps), ntq=any(signs))
                call(cx, 'paulis(list of Pauli)', {'objs': Ps}, lambda: pc.paulis(Ps), ntq=any(signs))
        elif what == 'ctors':
            for nm in ('zero_state', 'one_state', 'maximally_mixed_state', 'ghz_state', 'identity_map', 'pauli_identity', 'pauli_zero',
                       'identity_circuit', 'onsite_rcc', 'global_rcc'):
                if nm == 'ghz_state' and N < 2:
                    continue
                a = getattr(pc, nm)(N)
                b = getattr(pc, nm)(N)
                cx.n += 1
                sb = snap(b)
                if shared(a, b):
                    cx.bad('C17/%s/shares-memory' % nm, 'two calls of %s(%d) return objects that share data' % (nm, N))
                scramble(a)
                if diff(sb, snap(b)):
                    cx.bad('C17/%s/not-independent' % nm, 'mutating one %s(%d) changes another' % (nm, N))
                c = getattr(pc, nm)(N)
                if diff(sb, snap(c)):
                    cx.bad('C17/%s/not-independent' % nm, '%s(%d) differs after a previous result was mutated' % (nm, N))
        elif what == 'sbrg':
            # Hamiltonians: commuting and non-commuting term sets with distinct |coefficients|
            sets = [lst for lst in itertools.combinations(range(1, len(G)), min(3, len(G) - 1))][k::7]
            for lst in sets:
                H = lib.POLY([G[a] for a in lst], [0, 2, 0][:len(lst)], [1.0, 0.7, -0.45][:len(lst)])
                call(cx, 'SBRG', {'hmdl': H}, lambda: pc.SBRG(H), ntq=True)
        elif what == 'shadow':
            reps = stab.representatives(N, 0)
            j = reps[k % len(reps)]
            for cn, mkc in (('onsite', lambda: pc.onsite_rcc(N)), ('global', lambda: pc.global_rcc(N))):
                st = stab.fresh(N, j)
                circ = mkc()
                sh = pc.ClassicalShadow(st, circ)

                def f():
                    rng.script(_COINS * 3, _COINS * 3)
                    return list(sh.snapshots(2))
                call(cx, 'ClassicalShadow.snapshots(%s)' % cn, {'state': st, 'circuit': circ}, f, ntq=True)
        cxs.append(cx)
    return _finish(cxs)


# =============================================================== leg: torchclifford
def fn_torch(items):
    """item = [N, idx]: torchclifford objects built from tableau idx: copy / to_state / to_map / expect /
    compose / inverse / rotate_by / transform_by / gates with the same snapshot discipline."""
    cxs = []
    m = lib.torch_mods()
    tci, tst = m['tci'], m['tst']
    torch = m['torch']
    for it in items:
        N, idx = it
        cx = Cx(it)
        gs0, ps0, r0 = stab.tableaux(N)[idx]
        G = ref.all_g(N)
        ntq = bool(np.any(ps0)) or r0 > 0
        mkS = lambda: lib.tST(gs0, ps0, r0)
        mg, mp = dom.tableau_to_map(gs0, ps0)
        mkM = lambda: lib.tCM(mg, mp)
        t2, s2 = dom.valid_maps(N)[(idx * 7 + 5) % len(dom.valid_maps(N))]
        K = 'torch/StabilizerState'

        def q(Kx, mk, name, f):
            x = mk()
            return call(cx, '%s.%s' % (Kx, name), {'self': x}, lambda: f(x), ntq=ntq)
        q(K, mkS, '__repr__', repr)
        q(K, mkS, 'to_map', lambda x: x.to_map())
        q(K, mkS, 'tokenize', lambda x: x.tokenize())
        q(K, mkS, 'density_matrix', lambda x: x.density_matrix)
        q(K, mkS, 'stabilizers', lambda x: x.stabilizers)
        for sub in dom.subsets(N)[1:]:
            q(K, mkS, 'entropy', lambda x: x.entropy(list(sub)))
        x = mkS()
        O = lib.tPL(G, np.arange(len(G)) % 4)
        call(cx, K + '.expect(PauliList)', {'self': x, 'obs': O}, lambda: x.expect(O), ntq=ntq)
        x = mkS()
        O = lib.tPOLY(G, np.arange(len(G)) % 4, [CPOOL[i % 4] for i in range(len(G))])
        call(cx, K + '.expect(PauliPolynomial)', {'self': x, 'obs': O}, lambda: x.expect(O), ntq=ntq)
        for i in range(0, len(G), 3):
            x = mkS()
            O = lib.tP(G[i], (i + idx) % 4)
            call(cx, K + '.expect(Pauli)', {'self': x, 'obs': O}, lambda: x.expect(O), ntq=ntq)
        reps = stab.representatives(N, 0)
        for j in reps[::(1 if N == 1 else 6)]:
            x = mkS()
            go, po, ro = stab.tableaux(N)[j]
            y = lib.tST(go, po, ro)
            call(cx, K + '.expect(StabilizerState)', {'self': x, 'obs': y}, lambda: x.expect(y), ntq=ntq)
        for bits in itertools.product((0, 1), repeat=N):
            x = mkS()
            ro_ = lib.tT(bits)
            call(cx, K + '.get_prob', {'self': x, 'readout': ro_}, lambda: x.get_prob(ro_), ntq=ntq)
        if r0 < N:
            O = lib.tPL(gs0[r0:N], ps0[r0:N])
            call(cx, 'torch/stabilizer_state(PauliList)', {'stabilizers': O}, lambda: tst.stabilizer_state(O), ntq=ntq)
        # in place
        for Kx, mk in ((K, mkS), ('torch/PauliList', lambda: lib.tPL(G, np.arange(len(G)) % 4)), ('torch/CliffordMap', mkM),
                       ('torch/Pauli', lambda: lib.tP(G[-1], 3)),
                       ('torch/PauliPolynomial', lambda: lib.tPOLY(G, np.arange(len(G)) % 4, [CPOOL[i % 4] for i in range(len(G))]))):
            for g2, p2 in herm(N, False)[idx % 3::3]:
                x = mk()
                Gn = lib.tP(g2, p2)
                call(cx, Kx + '.rotate_by', {'self': x, 'generator': Gn}, lambda: x.rotate_by(Gn), target='self')
            x = mk()
            M = lib.tCM(t2, s2)
            call(cx, Kx + '.transform_by', {'self': x, 'map': M}, lambda: x.transform_by(M), target='self')
            if N >= 2:
                x = mk()
                Gn = lib.tP([1, 1], 2)
                mk_ = np.array([False, True])
                call(cx, Kx + '.rotate_by(mask)', {'self': x, 'generator': Gn, 'mask': mk_}, lambda: x.rotate_by(Gn, mask=mk_), target='self')
                x = mk()
                M = lib.tCM(*dom.valid_maps(1)[(idx + 3) % 24])
                mt = torch.tensor([True, False])
                call(cx, Kx + '.transform_by(mask)', {'self': x, 'map': M, 'mask': mt}, lambda: x.transform_by(M, mask=mt), target='self')
            muts = [('rotate_by', lambda o: o.rotate_by(lib.tP(G[2], 0))), ('rotate_by', lambda o: o.rotate_by(lib.tP(G[-1], 2))),
                    ('transform_by', lambda o: o.transform_by(lib.tCM(t2, s2)))]
            if N >= 2:
                muts.append(('rotate_by(mask)', lambda o: o.rotate_by(lib.tP([1, 0], 0), mask=np.array([True, False]))))
            den = None
            if Kx == K:
                den = lambda o: (ref.rho_key(stab.rho_of(lib.t2n(o.gs), lib.t2n(o.ps), int(o.r))), int(o.r))
            check_copy(cx, Kx, mk, muts, denote=den, ntq=ntq, pairs=1)
        # maps
        KM = 'torch/CliffordMap'
        q(KM, mkM, '__repr__', repr)
        q(KM, mkM, 'inverse', lambda x: x.inverse())
        for r in range(N + 1):
            q(KM, mkM, 'to_state', lambda x: x.to_state(r))
        x = mkM()
        y = lib.tCM(t2, s2)
        call(cx, KM + '.compose', {'self': x, 'other': y}, lambda: x.compose(y), ntq=ntq)
        x = mkM()
        y = lib.tCM(t2, s2)
        call(cx, KM + '.compose', {'self': y, 'other': x}, lambda: y.compose(x), ntq=ntq)
        # gates and circuits (uncompiled: compile is broken in the port, see C09/C13)
        for gk in ('fwd', 'bwd', 'gen'):
            def mkG():
                gt = tci.CliffordGate(*range(N))
                if gk == 'fwd':
                    gt.set_forward_map(lib.tCM(t2, s2))
                elif gk == 'bwd':
                    gt.set_backward_map(lib.tCM(t2, s2))
                else:
                    gt.set_generator(lib.tP(G[(idx % (len(G) - 1)) + 1], 2 * (idx % 2)))
                return gt
            KG = 'torch/CliffordGate[%s]' % gk
            for d in ('forward', 'backward'):
                for okind, mo in (('StabilizerState', mkS), ('PauliList', lambda: lib.tPL(G, np.arange(len(G)) % 4))):
                    gt = mkG()
                    o = mo()
                    call(cx, '%s.%s(%s)' % (KG, d, okind), {'gate': gt, 'obj': o}, lambda: getattr(gt, d)(o), target='obj')
            gmuts = [('stored data rotate_by', lambda o: [mm.rotate_by(lib.tP(G[-1], 0)) for mm in (o.generator, o.forward_map, o.backward_map) if mm is not None])]
            check_copy(cx, KG, mkG, gmuts, ntq=True, pairs=0)

            def mkC():
                c = tci.identity_circuit(N)
                c.take(mkG())
                return c
            cmuts = [('gate()', lambda o: o.gate(0)),
                     ('stored data rotate_by', lambda o: [mm.rotate_by(lib.tP(G[-1], 0)) for mm in
                                                         (o.first_layer.gates[0].generator, o.first_layer.gates[0].forward_map, o.first_layer.gates[0].backward_map) if mm is not None])]
            check_copy(cx, 'torch/CliffordCircuit', mkC, cmuts, ntq=True, pairs=0)
        # a circuit whose qubit number was fixed explicitly and is larger than the support of its gates
        def mkCN():
            c = tci.identity_circuit(N + 1)
            gt = tci.CliffordGate(*range(N))
            gt.set_forward_map(lib.tCM(t2, s2))
            c.take(gt)
            return c
        check_copy(cx, 'torch/CliffordCircuit[fixed-N]', mkCN, [], ntq=True, pairs=0)
        if True:
            # compiled circuit: the only compile() that succeeds in the port is the empty circuit's
            def mkCC():
                return tci.identity_circuit(N).compile()
            try:
                mkCC()
                check_copy(cx, 'torch/CliffordCircuit(compiled)', mkCC, [], ntq=True, pairs=0)
            except Exception as e:
                cx.count('torch_compile_raises_%s' % type(e).__name__)
        cxs.append(cx)
    return _finish(cxs)


# =============================================================== leg: N=3 masked gather / scatter
def _objs3():
    pc = lib.pc
    N = 3
    out = [('PauliList', lambda: full_list(N)), ('PauliPolynomial', lambda: full_list(N, 'PauliPolynomial')),
           ('Pauli', lambda: lib.P(ref.str_to_g('XYZ'), 3)), ('PauliMonomial', lambda: lib.MONO(ref.str_to_g('ZIY'), 2, 0.4)),
           ('StabilizerState', lambda: pc.ghz_state(3)), ('StabilizerState', lambda: pc.stabilizer_state('-XXI', 'ZZI', '-IIY')),
           ('StabilizerState', lambda: pc.stabilizer_state('-XZX', 'ZIZ')), ('StabilizerState', lambda: pc.maximally_mixed_state(3))]
    return out


def fn_mask3(items):
    """item = [n, qi, si, tier]: gate spec si on the qi-th ordered n-subset of 3 qubits (non-contiguous masks
    included), applied to N=3 objects, plus the corresponding direct masked rotate_by / transform_by."""
    cxs = []
    for it in items:
        n, qi, si, tier = it
        cx = Cx(it)
        N = 3
        qubits = list(itertools.permutations(range(N), n))[qi]
        spec = gate_specs(n, tier)[si]
        mk = lambda: make_gate(spec, qubits)
        K = 'CliffordGate[%s]@N3' % spec[0]
        for okind, mo in _objs3():
            for d in ('forward', 'backward'):
                gt = mk()
                o = mo()
                call(cx, '%s.%s(%s)' % (K, d, okind), {'gate': gt, 'obj': o}, _run(lambda: getattr(gt, d)(o)), target='obj')
            m = lib.pu.mask(list(qubits), N)
            if spec[0] == 'gen':
                o = mo()
                Gn = lib.P(spec[1][0], spec[1][1])
                call(cx, '%s.rotate_by(mask)@N3' % okind, {'self': o, 'generator': Gn, 'mask': m}, lambda: o.rotate_by(Gn, mask=m), target='self')
            elif spec[0] == 'fwd':
                o = mo()
                M = lib.CM(*dom.valid_maps(n)[spec[1]])
                call(cx, '%s.transform_by(mask)@N3' % okind, {'self': o, 'map': M, 'mask': m}, lambda: o.transform_by(M, mask=m), target='self')
        if spec[0] != 'random':
            check_copy(cx, K, mk, gate_mutators(), denote=lambda o: act_key(o, N), ntq=True, pairs=1)
        cxs.append(cx)
    return _finish(cxs)


# =============================================================== legs
def conventions():
    """Self-test of the snapshot machinery: it must see an in-place write, a rebinding, aliasing, and accept
    a legitimate memoisation."""
    pc = lib.pc
    out = {}
    st = pc.ghz_state(2)
    s0 = snap(st)
    st.ps[1] = 2
    out['sees_inplace_write'] = bool(diff(s0, snap(st)))
    v = st.stabilizers
    out['sees_view'] = bool(shared(st, v))
    out['copy_not_shared'] = not shared(st, st.copy())
    g = pc.H(0)
    s0 = snap(g)
    g.backward(pc.zero_state(1))
    out['memo_accepted'] = (not diff(s0, snap(g))) and bool(diff(s0, snap(g), memo=False))
    g2 = pc.H(0)
    s0 = snap(g2)
    g2.backward_map = pc.S(0).forward_map
    out['wrong_memo_rejected'] = bool(diff(s0, snap(g2)))
    g3 = pc.CliffordGate(0, 1)
    g3.set_generator(pc.pauli('-XY'))
    s0 = snap(g3)
    g3.compile()
    out['generator_compile_accepted'] = not diff(s0, snap(g3))
    if not all(out.values()):
        raise RuntimeError('C17 snapshot machinery self-test failed: %r' % out)
    return out


_WARM = [('pauli', 'fn_pauli', [['Pauli', 1, 2, 0], ['PauliMonomial', 2, 7, 0]]),
         ('lists', 'fn_list', [['PauliList', 1, 7, 0], ['PauliPolynomial', 2, 17, 0], ['PauliPolynomial', 1, 3, 0], ['PauliList', 2, 33, 0]]),
         ('maps', 'fn_map', [[1, 7, 0], [2, 777, 0]]),
         ('states', 'fn_state', [[1, 7, 1, 0], [1, 30, 1, 0], [2, 7777, 1, 0], [2, 7779, 0, 0], [2, 20001, 0, 0], [2, 20002, 1, 0]]),
         ('gates', 'fn_gate', [[1, 1, 0, 3, 0], [1, 2, 1, 13, 0], [2, 2, 1, 33, 0], [2, 2, 0, 2, 0], [1, 2, 0, 56, 0]]),
         ('layers', 'fn_layer', [[2, 7, 0, 0], [2, 8, 1, 0], [1, 1, 0, 0]]),
         ('circuits', 'fn_circuit', [[2, 100, 0, 0], [2, 101, 1, 0], [1, 5, 1, 0]]),
         ('circuits_with_measurement', 'fn_mcircuit', [[2, 4, 0, 5], [2, 5, 1, 6], [1, 2, 0, 3]]),
         ('masks_N3', 'fn_mask3', [[1, 1, 3, 0], [2, 4, 33, 0], [2, 1, 2, 0], [1, 2, 30, 0]]),
         ('functions', 'fn_func', [['diagonalize', 2, 7], ['rotation', 2, 11], ['stabilizer_state', 2, 2], ['stabilizer_state', 2, 1], ['sbrg', 2, 1],
                                   ['shadow', 2, 5], ['shadow', 1, 2], ['diagonalize', 1, 2], ['ctors', 3, 0]])]


def warm_up(only=None):
    """JIT warm-up in the parent: one representative item per (leg, kind, N), so that the forked workers inherit
    every kernel specialisation instead of compiling it 16 times."""
    for prefix, fname, items in _WARM:
        if only and not any(o.startswith(prefix) for o in only):
            continue
        r = globals()[fname](items)
        if r['viol']:
            # not a verdict: the sweep itself will report it with a replay file
            pass



def fn_compose_history(items):
    """item = [N, [letter indices]]: compose() is an in-place operation on its receiver that must never change its
    argument, and the two circuits must share no mutable layer data: after a.compose(b) at every split point
    (incl. the empty receiver / empty argument) two gates are added to one circuit and the other is re-observed
    (gate inventory of its layer chain, action on the Pauli group)."""
    from .. import circ
    pk = circ.PKS['py']
    n = 0
    viol = []
    for item in items:
        N, prog = int(item[0]), [int(i) for i in item[1]]
        A = circ.alphabet('py', N)
        letters = [A[i] for i in prog]

        def vio(sig, msg, obs=None, exp=None, item=item, letters=letters):
            viol.append(V(sig, item, 'N=%d program %s: %s' % (N, [l.name for l in letters], msg), obs, exp))
        n += circ.compose_history(pk, 'C17/py', N, letters, pk.inputs(N), vio)
    return {'n': n, 'nt': n, 'viol': viol}

def fn_gate_sources(items):
    """item = [pkg, N, gi]: clifford_rotation_gate(P) for a kept Pauli object P (built directly and taken from a list by
    indexing); afterwards P / the list is changed in place (masked rotate_by, masked transform_by, array write) and the
    gate - alone, inside a circuit, and as a copy taken afterwards - must still act as the rotation by the ORIGINAL
    generator (reference: the exactly signed rule)."""
    from .c02 import ref_rotate, group_arrays
    n = nt = 0
    viol = []
    for pkg, N, gi in items:
        py = pkg == 'py'
        if py:
            ci, P, PL, CM = lib.pci, lib.P, lib.PL, lib.CM
            arr = lambda L: (np.asarray(L.gs).astype(np.int64), np.asarray(L.ps).astype(np.int64) % 4)
            mkmask = lambda mb: mb.copy()
        else:
            m = lib.torch_mods()
            ci, P, PL, CM = m['tci'], lib.tP, lib.tPL, lib.tCM
            arr = lambda L: (lib.t2n(L.gs), lib.t2n(L.ps) % 4)
            mkmask = lambda mb: m['torch'].tensor(mb.copy())
        G = ref.all_g(N)
        g = G[gi]
        if not g.any():
            continue
        Gs, Ps = group_arrays(N)
        t1, s1 = dom.valid_maps(1)[11]
        for p in (0, 2):
            eg, ep, a = ref_rotate(g, p, Gs, Ps)
            for source in ('Pauli', 'list-element'):
                for enm in ('rotate_by-mask', 'transform_by-mask', 'array-write'):
                    if N == 1 and enm != 'array-write':
                        continue
                    try:
                        if source == 'Pauli':
                            src = P(g, p)
                            holder = src
                        else:
                            holder = PL(np.array([G[1], g, G[-1]]), np.array([1, p, 3]))
                            src = holder[1]
                        gate = ci.clifford_rotation_gate(src)
                        circ = ci.CliffordCircuit(N) if py else ci.CliffordCircuit()
                        circ.take(gate)
                        mb = np.zeros(N, dtype=bool)
                        mb[N - 1] = True
                        for tgt in ((src, holder) if holder is not src else (src,)):
                            if enm == 'rotate_by-mask':
                                for hg in ([1, 0], [0, 1], [1, 1]):
                                    tgt.rotate_by(P(hg, 0), mask=mkmask(mb))
                            elif enm == 'transform_by-mask':
                                tgt.transform_by(CM(t1, s1), mask=mkmask(mb))
                            else:
                                ga = tgt.g if hasattr(tgt, 'g') else tgt.gs
                                if py:
                                    ga[...] = 1 - ga
                                else:
                                    ga.copy_(1 - ga)
                        objs = [('gate', gate), ('circuit', circ), ('gate.copy', gate.copy())]
                        res = []
                        for onm, o in objs:
                            lst = PL(Gs, Ps)
                            o.forward(lst)
                            res.append((onm, arr(lst)))
                    except Exception as e:
                        continue
                    n += len(res)
                    nt += len(res)
                    for onm, (og, op) in res:
                        if (og != eg).any() or (op != ep % 4).any():
                            viol.append(V('C17/%s/gate-source/%s/%s' % (pkg, source, enm), [pkg, N, gi],
                                          '%s N=%d: clifford_rotation_gate(%s) built from a %s; after %s on that source the %s no longer acts as the rotation by the original generator' % (
                                              pkg, N, ref.g_to_str(g, p), source, enm, onm)))
                            break
    return {'n': n, 'nt': nt, 'viol': viol}


def fn_inferred_size(items):
    """item = [k]: torchclifford circuits whose qubit number is inferred from their gates: N is read, the circuit is
    extended to a new highest qubit (take / compose), and N, compile(), copy().N and the action must follow the
    circuit as it is now."""
    from .c02 import ref_rotate, group_arrays
    m = lib.torch_mods()
    tci = m['tci']
    n = nt = 0
    viol = []
    for (k,) in items:
        gens = [((0, 1), 'XZ', 0), ((0,), 'Y', 2), ((1,), 'X', 0), ((2,), 'Z', 2), ((1, 2), 'YX', 0), ((0, 2), 'ZZ', 2)]
        first, second = gens[k % len(gens)], gens[(k // len(gens)) % len(gens)]
        for mk in ('CliffordCircuit()', 'identity_circuit()'):
            for query in ('N', 'compile', 'none'):
                for ext in ('take', 'compose'):
                    try:
                        c = tci.CliffordCircuit() if mk.startswith('Clifford') else tci.identity_circuit()
                        g1 = tci.CliffordGate(*first[0])
                        g1.set_generator(lib.tP(ref.str_to_g(first[1]), first[2]))
                        c.take(g1)
                        if query == 'N':
                            c.N
                        elif query == 'compile':
                            c.compile()
                        g2 = tci.CliffordGate(*second[0])
                        g2.set_generator(lib.tP(ref.str_to_g(second[1]), second[2]))
                        if ext == 'take':
                            c.take(g2)
                        else:
                            c2 = tci.CliffordCircuit()
                            c2.take(g2)
                            c.compose(c2)
                        need = max(max(first[0]), max(second[0])) + 1
                        got_n = int(c.N)
                        cp_n = int(c.copy().N)
                    except Exception as e:
                        viol.append(V('C17/torch/inferred-size/raises-%s' % type(e).__name__, [k], '%s with %s, query %s, %s: %s' % (mk, first, query, ext, e)))
                        continue
                    n += 1
                    nt += 1
                    if got_n != need or cp_n != need:
                        viol.append(V('C17/torch/inferred-size/stale-N/%s' % query, [k], 'torch %s: gate on %s, then %s, then %s of a gate on %s: N = %d, copy().N = %d, the gates need %d qubits' % (
                            mk, list(first[0]), 'reading N' if query == 'N' else query, ext, list(second[0]), got_n, cp_n, need)))
                        continue
                    # action (uncompiled and compiled) = the two rotations in order
                    Gs, Ps = group_arrays(need)
                    e1 = np.zeros(2 * need, dtype=np.int64)
                    e2 = np.zeros(2 * need, dtype=np.int64)
                    for (qs, st_, p_), e_ in ((first, e1), (second, e2)):
                        gg = ref.str_to_g(st_)
                        for j, q in enumerate(qs):
                            e_[2 * q:2 * q + 2] = gg[2 * j:2 * j + 2]
                    x1, y1, _ = ref_rotate(e1, first[2], Gs, Ps)
                    x2, y2, _ = ref_rotate(e2, second[2], x1, y1)
                    # a circuit that was compiled and then extended has to be compiled again before use (documented), so no plain run in that case
                    for comp in ((True,) if query == 'compile' else (False, True)):
                        try:
                            if comp:
                                c.compile()
                            lst = lib.tPL(Gs, Ps)
                            c.forward(lst)
                            og, op = lib.t2n(lst.gs), lib.t2n(lst.ps) % 4
                        except Exception as e:
                            viol.append(V('C17/torch/inferred-size/raises-%s' % type(e).__name__, [k], 'torch %s grown from %s to %s after %s: %s raised %s' % (
                                mk, list(first[0]), list(second[0]), query, 'compile+forward' if comp else 'forward', e)))
                            break
                        n += 1
                        if (og != x2).any() or (op != y2 % 4).any():
                            viol.append(V('C17/torch/inferred-size/action/%s' % query, [k], 'torch %s grown after %s: %s forward is not the ordered product of its two gates' % (mk, query, 'compiled' if comp else 'plain')))
                            break
    return {'n': n, 'nt': nt, 'viol': viol}


def legs(tier, for_replay=False):
    t = 0 if tier == 'quick' else 1
    seed = 0
    import os
    seed = int(os.environ.get('VERIF_SEED', '0') or 0)
    for N in (1, 2):
        stab.tableaux(N)
        stab.representatives(N, 0)
    if not for_replay:
        only = os.environ.get('PCVERIF_LEGS')
        warm_up(only.split(',') if only else None)
    out = []
    items = [[K, N, i, t] for K in ('Pauli', 'PauliMonomial') for N in (1, 2) for i in range(4 ** N)]
    out.append(Leg('pauli', fn_pauli, items[::-1], chunk=1, src_states=2 * (16 + 64) + 80,
                   bound='Pauli and PauliMonomial: all strings N<=2 x 4 phases (x 2 coefficients) x every method; binary ops with every other '
                         'operator as Pauli/Monomial/Polynomial; rotate_by all signed generators (+masks), transform_by %s' % (
                             'all N=1 maps, every 1151st N=2 map' if not t else 'all N=1 maps, every 97th N=2 map')))
    items = [[K, N, i, t] for K in ('PauliList', 'PauliPolynomial') for N in (1, 2) for i in range(4 * 4 ** N)]
    out.append(Leg('lists', fn_list, items[::-1], chunk=1, src_states=2 * (16 + 256 + 4096 + 64 + 4096),
                   bound='PauliList and PauliPolynomial: every list of length 1 and 2 over all signed operators (N=1: also length 3; N=2 %s); '
                         'full method menu on length-1 lists and on 1/16 of the length-2 lists (all at N=1), core menu on the rest' % (
                             'second element: all 64 signed operators' if t else 'second element: all 16 strings with a rotating phase')))
    items = [[1, k, t] for k in range(24)] + [[2, k, t] for k in range(0, 11520, 1 if t else 5)]
    out.append(Leg('maps', fn_map, items, chunk=24, src_states=len(items), exhaustive=bool(t), supplementary=not t,
                   bound='CliffordMap: all 24 N=1 maps, %s N=2 valid maps, as receiver and as argument' % ('all 11520' if t else 'every 5th of the 11520')))
    # states
    items = [[1, i, 1, t] for i in range(48)] + [[2, i, 1, t] for i in stab.representatives(2, seed)]
    out.append(Leg('states_full_menu', fn_state, items, chunk=2, src_states=len(items),
                   bound='StabilizerState: all 48 N=1 tableaux and one tableau per N=2 density matrix (91; VERIF_SEED rotates the representative), '
                         'all ranks, signed: full method menu'))
    if t:
        items = [[2, i, 0, t] for i in range(34560)]
        out.append(Leg('states_all_tableaux', fn_state, items, chunk=48, src_states=34560, timeout=3000,
                       bound='StabilizerState: all 34560 N=2 tableaux x core menu (copy, expect, entropy, sample, get_prob, density_matrix, '
                             'to_map, measure, rotate_by, transform_by, postselect, stabilizer_state)'))
    else:
        items = [[2, i, 0, t] for i in range(seed % 10, 34560, 10)]
        out.append(Leg('states_tableaux_stride', fn_state, items, chunk=24, src_states=len(items), exhaustive=False, supplementary=True,
                       bound='StabilizerState: every 10th of the 34560 N=2 tableaux (offset VERIF_SEED) x core menu; the thorough tier sweeps all'))
    # gates
    items = []
    for n, N in ((1, 1), (1, 2), (2, 2)):
        nplace = len(list(itertools.permutations(range(N), n)))
        for qi in range(nplace):
            for si in range(len(gate_specs(n, t))):
                items.append([n, N, qi, si, t])
    out.append(Leg('gates', fn_gate, items, chunk=4, src_states=len(items),
                   bound='CliffordGate of every kind (generator: all signed non-identity generators; forward-map / backward-map: all 24 one-qubit maps, '
                         '%s two-qubit maps; both maps; random; named H,S,X,Y,Z,C(0..23),CNOT) on every qubit placement of N<=2, applied forward/backward '
                         'to Pauli, PauliMonomial, PauliList, PauliPolynomial, CliffordMap, StabilizerState' % ('every 97th of the' if t else 'every 1151st of the')))
    items = [[N, li, c, t] for N in (1, 2) for li in range(len(layer_catalogue(N, t))) for c in (0, 1)]
    out.append(Leg('layers', fn_layer, items, chunk=2, src_states=len(items),
                   bound='CliffordLayer: every 1- and 2-gate layer over a 4N+4-gate alphabet of mixed kinds, plain and compiled'))
    items = [[N, pi, c, t] for N in (1, 2) for pi in range(len(program_catalogue(N, t))) for c in (0, 1)]
    out.append(Leg('circuits', fn_circuit, items, chunk=4, src_states=len(items),
                   bound='CliffordCircuit: programs of 1..3 gates over the alphabet (%s), plain and compiled' % (
                       'all' if t else 'all of length <= 2, 1/21 of length 3 at N=2')))
    items = [[N, pi, c, si] for N in (1, 2) for pi in range(len(measure_programs(N))) for c in (0, 1)
             for si in (range(7) if N == 1 else range(0, 91, 1 if t else 5))]
    out.append(Leg('circuits_with_measurement', fn_mcircuit, items, chunk=8, src_states=len(items),
                   bound='Circuit (gates + measurement layers): fixed program list x plain/compiled x input states (one per density matrix%s)' % (
                       '' if t else ', every 5th at N=2')))
    items = [['diagonalize', N, k] for N in (1, 2) for k in range(4 ** N)] + [['rotation', N, k] for N in (1, 2) for k in range(4 ** N)]
    items += [['stabilizer_state', 1, 1], ['stabilizer_state', 2, 1], ['stabilizer_state', 2, 2], ['ctors', 1, 0], ['ctors', 2, 0], ['ctors', 3, 0]]
    items += [['sbrg', N, k] for N in (1, 2) for k in range(7)]
    items += [['shadow', N, k] for N in (1, 2) for k in range(7 if N == 1 else (91 if t else 13))]
    out.append(Leg('functions', fn_func, items, chunk=1, src_states=len(items),
                   bound='diagonalize(Pauli/Monomial, i0, causal), clifford_rotation_map/gate, stabilizer_state (all commuting lists N<=2, all signs, '
                         '3 input formats), constructors, SBRG, ClassicalShadow.snapshots: arguments unchanged'))
    items = []
    for n in (1, 2):
        specs = gate_specs(n, t)
        for qi in range(len(list(itertools.permutations(range(3), n)))):
            for si in range(0, len(specs), 1 if t else (7 if n == 1 else 5)):
                items.append([n, qi, (si + qi) % len(specs) if not t else si, t])
    out.append(Leg('masks_N3', fn_mask3, items, chunk=4, src_states=len(items), exhaustive=bool(t), supplementary=not t,
                   bound='N=3: gates of every kind on every ordered 1- and 2-qubit subset (non-contiguous masks) applied to lists, polynomials and '
                         'signed pure/mixed states, and the direct masked rotate_by / transform_by (%s of the gate catalogue)' % ('all' if t else 'a stride')))
    reps2 = stab.representatives(2, seed)
    items = [[1, i] for i in stab.representatives(1, seed)] + [[2, i] for i in (reps2 if t else reps2[::3])]
    out.append(Leg('torch', fn_torch, items, chunk=1, src_states=len(items),
                   bound='torchclifford: one tableau per density matrix (N=1 all 7; N=2 %s): copy / to_state / to_map / expect / compose / inverse / '
                         'rotate_by / transform_by / gates / circuits' % ('all 91' if t else 'every 3rd of 91')))
    from .. import circ as _circ
    if not for_replay:
        _circ.warmup('py')
    ch = [it for N in (2, 3) for it in _circ.programs('py', N, 2) if len(it[1]) >= 1]
    out.append(Leg('compose_histories', fn_compose_history, ch, chunk=16,
                   bound='all programs of 1-2 gates over the C09 alphabets (12 letters N=2, 17 letters N=3): a.compose(b) at every split point, then two take() on one circuit, re-observe the other (layer-chain inventory and action)'))
    from .c07 import fn_live_torch
    treps = stab.representatives(2, 0)
    out.append(Leg('live_histories_torch', fn_live_torch, [[1, i] for i in range(1, 48, 5)] + [[2, i] for i in (treps[1::4] if tier == 'quick' else treps)], chunk=1,
                   bound='torchclifford: two query rounds (must agree and leave the tensors untouched), one in-place operation, a third query round vs a fresh state with identical tensors'))
    from .c04 import fn_special
    out.append(Leg('result_independence', fn_special, [[pkg, N, kind] for pkg in ('py', 'torch') for kind in ('pauli', 'kept') for N in (1, 2, 3)], chunk=1,
                   bound='both packages, N<=3: compose with sign-only / identity operands, then the RESULT overwritten in place (embed, array write): operands unchanged; inverses and '
                         'compositions kept and re-read after later calls (leg shared with C04)'))
    out.append(Leg('gate_sources', fn_gate_sources, [[pkg, N, gi] for pkg in ('py', 'torch') for N in (1, 2) for gi in range(1, 4 ** N)] + [[pkg, 3, gi] for pkg in ('py', 'torch') for gi in (21, 42, 63, 7, 36, 57)], chunk=2,
                   bound='both packages: clifford_rotation_gate from a kept Pauli / a list element (all strings N<=2 x both signs, six N=3 strings incl. full support), source changed in place afterwards (masked rotate_by / transform_by, array write): gate, circuit and later copy unchanged'))
    out.append(Leg('inferred_size_torch', fn_inferred_size, [[k] for k in range(36)], chunk=2,
                   bound='torchclifford circuits with inferred qubit number: 36 ordered pairs of rotation gates on qubit sets of {0,1,2} x (read N / compile / nothing) x (take / compose): N, copy().N, plain and compiled action'))
    return out
