"""C11 Named gates are the textbook Cliffords; C(0..23) enumerates the 1-qubit Clifford group.

Finite tables, fully enumerated.  Every named gate (H, S, X, Y, Z on every wire, CNOT on every
ordered pair of distinct wires, C(k) for k=0..23 on every wire) of every register size N of the
tier is built by the real constructor and applied (gate.forward) to ONE PauliList holding the whole
Pauli group with all four phases; every image is compared with U P U^dag computed from the textbook
matrices, and with the literal sentences of the statement.  The same gates are applied to every
valid tableau of N<=2 (rho -> U rho U^dag).  The 24 indexed gates are checked for validity,
pairwise distinctness, closure under CliffordMap.compose / inverse (24x24 table), and every
constructor for rejection of invalid indices and wrong qubit counts."""
import itertools
import numpy as np
from .. import ref, dom, lib, stab
from ..core import Leg, V

PROP = 'C11'
RULE = ('finite gate tables x all placements x all inputs: (gate, placement, group element) triples with the whole Pauli '
        'group (4*4^N elements) as input, (gate, placement, tableau) triples over every valid tableau of N<=2, the 24x24 '
        'composition table and the 24 inverses of C(k), and the rejection cases; non-trivial = the gate changes the '
        'element / the density matrix; one transition = one image computed by the real code compared with U P U^dag')
ASSUMPTIONS = ['textbook unitaries H=(X+Z)/sqrt2, S=diag(1,i), X, Y, Z, CNOT=|0><0|xI+|1><1|xX as dense matrices are the root oracle',
               'registers bounded to N<=3 (quick) / N<=4 (thorough) for operator inputs and N<=2 for state inputs',
               '"rejected" is read as "the constructor raises an exception" (the current code raises ValueError; the type is recorded, not demanded)']

SINGLES = ('H', 'S', 'X', 'Y', 'Z')
U1 = {'H': ref.U_H, 'S': ref.U_S, 'X': ref.U_X, 'Y': ref.U_Y, 'Z': ref.U_Z}
BAD_INDICES = [-25, -24, -2, -1, 24, 25, 47, 48, 100, 1000, 2.5]


# ---------------------------------------------------------------- helpers
def make_gate(name, qs, form=None):
    pc = lib.pc
    conv = {None: int, 'np.int64': np.int64, 'np.int32': np.int32}[form]
    qs = [conv(q) for q in qs]
    if name.startswith('C') and name != 'CNOT':
        return pc.C(conv(int(name[1:])), *qs)
    return getattr(pc, name)(*qs)


def _c_unitary(gate):
    """2x2 unitary U with rows of the gate's own forward_map = U X U^dag, U Z U^dag."""
    fm = gate.forward_map
    gs = np.asarray(fm.gs).astype(np.int64)
    ps = np.asarray(fm.ps).astype(np.int64) % 4
    Vm = ref.unitary_of_map(gs, ps, 1)          # img(P) = V^dag P V
    assert Vm is not None
    return Vm.conj().T


def unitary(name, qs, N, gate=None):
    if name == 'CNOT':
        return ref.u_cnot(qs[0], qs[1], N)
    if name in U1:
        return ref.embed_1q(U1[name], qs[0], N)
    return ref.embed_1q(_c_unitary(gate), qs[0], N)


def gen(N, q, letter):
    g = np.zeros(2 * N, dtype=np.int64)
    if letter in 'XY':
        g[2 * q] = 1
    if letter in 'ZY':
        g[2 * q + 1] = 1
    return g


def gates_of(N, with_c=True):
    out = []
    for q in range(N):
        for nm in SINGLES:
            out.append((nm, [q]))
    for c, t in itertools.permutations(range(N), 2):
        out.append(('CNOT', [c, t]))
    if with_c:
        for q in range(N):
            for k in range(24):
                out.append(('C%d' % k, [q]))
    return out


def gate_class(name, qs):
    if name == 'CNOT':
        return 'CNOT/order=%s' % ('c<t' if qs[0] < qs[1] else 'c>t')
    if name in U1:
        return name
    return 'C/k=%s' % name[1:]


def statement_images(name, qs, N):
    """The literal sentences of the statement as (input g, expected image g, expected phase) triples
    on generators (p=0); reference side, no matrices."""
    out = []
    X = lambda q: gen(N, q, 'X')
    Y = lambda q: gen(N, q, 'Y')
    Z = lambda q: gen(N, q, 'Z')
    if name == 'H':
        q = qs[0]
        out += [(X(q), Z(q), 0), (Z(q), X(q), 0)]
    elif name == 'S':
        q = qs[0]
        out += [(X(q), Y(q), 0), (Z(q), Z(q), 0)]
    elif name == 'CNOT':
        c, t = qs
        out += [(X(c), X(c) ^ X(t), 0), (Z(t), Z(c) ^ Z(t), 0), (X(t), X(t), 0), (Z(c), Z(c), 0)]
    else:
        return out
    for j in range(N):
        if j not in qs:
            out += [(X(j), X(j), 0), (Z(j), Z(j), 0)]
    return out


class _Acc(object):
    def __init__(self, item):
        self.item = item
        self.d = {}

    def add(self, sig, msg, observed=None, expected=None):
        if sig in self.d:
            self.d[sig][1] += 1
        else:
            self.d[sig] = [V(sig, self.item, msg, observed, expected), 1]

    def out(self):
        res = []
        for sig, (v, c) in self.d.items():
            if c > 1:
                v['msg'] += '  [%d cases with this signature in this item]' % c
            res.append(v)
        return res


# ---------------------------------------------------------------- operators
def fn_paulis(items):
    """item = [N, name, qubits]: gate.forward on the whole Pauli group (PauliList, all 4 phases) and on
    the 2N generators as single Pauli objects."""
    n = nt = 0
    viol = []
    samples = []
    for item in items:
        N, name, qs = item[:3]
        form = item[3] if len(item) > 3 else None
        qs = [int(q) for q in qs]
        acc = _Acc(item)
        cls = gate_class(name, qs) + ('/index-type=%s' % form if form else '')
        label = '%s(%s) on N=%d' % (name, ','.join(map(str, qs)), N) + (' with %s indices' % form if form else '')
        try:
            gate = make_gate(name, qs, form)
        except Exception as e:
            viol.append(V('C11/%s/constructor-raises-%s' % (cls, type(e).__name__), item, '%s: constructor raised %s: %s' % (label, type(e).__name__, e)))
            continue
        U = unitary(name, qs, N, gate)
        Ud = U.conj().T
        G = ref.all_g(N)
        M = len(G)
        gs_in = np.concatenate([G] * 4)
        ps_in = np.repeat(np.arange(4), M)
        obj = lib.PL(gs_in, ps_in)
        try:
            res = gate.forward(obj)
            og = np.asarray(res.gs)
            op = np.asarray(res.ps)
        except Exception as e:
            viol.append(V('C11/%s/forward-raises-%s' % (cls, type(e).__name__), item, '%s.forward(PauliList) raised %s: %s' % (label, type(e).__name__, e)))
            continue
        if og.shape != gs_in.shape or op.shape != ps_in.shape or not np.isin(og, (0, 1)).all() or not np.all(op == np.rint(op)):
            viol.append(V('C11/%s/pauli-image/representation' % cls, item, '%s.forward returned gs%s ps%s / non-binary entries' % (label, og.shape, op.shape)))
            continue
        og = og.astype(np.int64)
        op = op.astype(np.int64) % 4
        for k in range(4 * M):
            n += 1
            want = U @ ref.mat(gs_in[k], ps_in[k]) @ Ud
            if (og[k] != gs_in[k]).any() or op[k] != ps_in[k]:
                nt += 1
            if not np.allclose(ref.mat(og[k], op[k]), want, atol=1e-9):
                acc.add('C11/%s/pauli-image' % cls, '%s: %s -> %s, but U P U^dag is not that operator' % (
                    label, ref.g_to_str(gs_in[k], ps_in[k]), ref.g_to_str(og[k], op[k])),
                    ref.g_to_str(og[k], op[k]))
        # the literal sentences of the statement
        for g, eg, ep in statement_images(name, qs, N):
            k = int(ref.gindex(g))
            n += 1
            if (og[k] != eg).any() or op[k] != ep:
                acc.add('C11/%s/statement' % cls, '%s: %s -> %s, the statement says %s' % (
                    label, ref.g_to_str(g, 0), ref.g_to_str(og[k], op[k]), ref.g_to_str(eg, ep)),
                    ref.g_to_str(og[k], op[k]), ref.g_to_str(eg, ep))
        if name in ('X', 'Y', 'Z'):
            a = ref.anti(gen(N, qs[0], name)[None, :], gs_in)
            exp_p = (ps_in + 2 * a) % 4
            n += 4 * M
            bad = np.flatnonzero((og != gs_in).any(1) | (op != exp_p))
            for k in bad:
                acc.add('C11/%s/statement' % cls, '%s: %s -> %s; a Pauli gate must flip exactly the sign of the operators it anticommutes with' % (
                    label, ref.g_to_str(gs_in[k], ps_in[k]), ref.g_to_str(og[k], op[k])),
                    ref.g_to_str(og[k], op[k]), ref.g_to_str(gs_in[k], exp_p[k]))
        # single Pauli objects X_j, Z_j (the "action on X_i, Z_i of a register")
        for j in range(N):
            for letter in 'XZ':
                g = gen(N, j, letter)
                P = lib.P(g, 0)
                n += 1
                try:
                    R = gate.forward(P)
                    rg, rp = np.asarray(R.g).astype(np.int64), int(R.p) % 4
                    good = rg.shape == (2 * N,) and np.allclose(ref.mat(rg, rp), U @ ref.mat(g, 0) @ Ud, atol=1e-9)
                    shown = ref.g_to_str(rg, rp) if rg.shape == (2 * N,) else repr(rg)
                except Exception as e:
                    good = False
                    shown = 'raised %s: %s' % (type(e).__name__, e)
                if not good:
                    acc.add('C11/%s/pauli-object-image' % cls, '%s.forward(Pauli %s) -> %s, not U P U^dag' % (label, ref.g_to_str(g, 0), shown))
        if len(samples) < 1 and name == 'CNOT' and qs[0] > qs[1]:
            samples.append({'gate': label, 'images_of_generators': {ref.g_to_str(gen(N, j, l)): ref.g_to_str(og[int(ref.gindex(gen(N, j, l)))], op[int(ref.gindex(gen(N, j, l)))])
                                                                     for j in range(N) for l in 'XZ'}})
        viol.extend(acc.out())
    return {'n': n, 'nt': nt, 'viol': viol, 'samples': samples}


# ---------------------------------------------------------------- states
_EXP = {}
_GATE = {}
_RK = {}          # active stabilizer rows (bytes) -> density matrix key (memo of the oracle side only)


def fn_states(items):
    """item = [N, idx]: tableau idx of the complete valid set of N qubits; every gate placement of the
    register: gate.forward(state) must denote U rho U^dag and stay a valid tableau."""
    n = nt = 0
    viol = []
    keys = set()
    for item in items:
        N, idx = item
        gs0, ps0, r0 = stab.tableaux(N)[idx]
        rho0 = stab.rho_of(gs0, ps0, r0)
        k0 = ref.rho_key(rho0)
        kind = 'pure' if r0 == 0 else 'mixed'
        acc = _Acc(item)
        for name, qs in gates_of(N):
            gk = (N, name, tuple(qs))
            cls = gate_class(name, qs)
            label = '%s(%s)' % (name, ','.join(map(str, qs)))
            try:
                if gk not in _GATE:
                    g0 = make_gate(name, qs)
                    _GATE[gk] = unitary(name, qs, N, g0)
                gate = make_gate(name, qs)
            except Exception as e:
                acc.add('C11/%s/constructor-raises-%s' % (cls, type(e).__name__), '%s: constructor raised %s: %s' % (label, type(e).__name__, e))
                continue
            U = _GATE[gk]
            ek = _EXP.get((k0, gk))
            if ek is None:
                ek = ref.rho_key(U @ rho0 @ U.conj().T)
                _EXP[(k0, gk)] = ek
            st = lib.ST(gs0, ps0, r0)
            n += 1
            try:
                gate.forward(st)
            except Exception as e:
                acc.add('C11/%s/state-forward-raises-%s' % (cls, type(e).__name__), '%s.forward on %s raised %s: %s' % (
                    label, stab.describe(gs0, ps0, r0), type(e).__name__, e))
                continue
            bad = stab.state_check(st, N)
            if bad:
                acc.add('C11/%s/state-image/invalid/%s' % (cls, kind), '%s.forward on %s gives an invalid tableau: %s' % (label, stab.describe(gs0, ps0, r0), bad))
                continue
            keys.add(hash(stab.key_arrays(st.gs, st.ps, st.r)))
            ka = (int(st.r), np.asarray(st.gs)[int(st.r):N].tobytes(), np.asarray(st.ps)[int(st.r):N].tobytes())
            k1 = _RK.get(ka)
            if k1 is None:
                k1 = _RK[ka] = ref.rho_key(stab.rho_of(st.gs, st.ps, st.r))
            if ek != k0:
                nt += 1
            if k1 != ek:
                acc.add('C11/%s/state-image/%s' % (cls, kind), '%s.forward on %s gives %s, which is not U rho U^dag' % (
                    label, stab.describe(gs0, ps0, r0), stab.describe(st.gs, st.ps, int(st.r))))
        viol.extend(acc.out())
    return {'n': n, 'nt': nt, 'viol': viol, 'keys': keys}


# ---------------------------------------------------------------- the 24 indexed gates
def _mkey(m):
    return (np.asarray(m.gs).astype(np.int64).tobytes(), (np.asarray(m.ps).astype(np.int64) % 4).tobytes())


def _show(m):
    gs = np.asarray(m.gs).astype(np.int64)
    ps = np.asarray(m.ps).astype(np.int64) % 4
    return 'X->%s Z->%s' % (ref.g_to_str(gs[0], ps[0]), ref.g_to_str(gs[1], ps[1]))


def fn_c24(items):
    """item = [k]: C(k): valid map, different from every other C(j), row k of the 24x24 composition
    table (every product is one of the 24 and is the reference product), inverse among the 24."""
    pc = lib.pc
    n = nt = 0
    viol = []
    samples = []
    group = set()
    for t, s in dom.valid_maps(1):
        group.add((np.asarray(t).astype(np.int64).tobytes(), (np.asarray(s).astype(np.int64) % 4).tobytes()))
    assert len(group) == 24
    for item in items:
        k = int(item[0])
        acc = _Acc(item)
        try:
            maps = [pc.C(j, 0).forward_map for j in range(24)]
            keys = [_mkey(m) for m in maps]
        except Exception as e:
            viol.append(V('C11/C/constructor-raises-%s' % type(e).__name__, item, 'C(j,0) for j in 0..23 raised %s: %s' % (type(e).__name__, e)))
            continue
        fm = pc.C(k, 0).forward_map
        gs = np.asarray(fm.gs)
        ps = np.asarray(fm.ps)
        n += 1
        if not isinstance(fm, pc.CliffordMap) or gs.shape != (2, 2) or ps.shape != (2,) or not ref.is_valid_map(gs.astype(np.int64), ps.astype(np.int64)) \
                or _mkey(fm) not in group:
            acc.add('C11/C/invalid-map', 'C(%d).forward_map = gs %s ps %s is not a valid single-qubit Clifford map' % (k, gs.tolist(), ps.tolist()))
            viol.extend(acc.out())
            continue
        keyset = set(keys)
        for j in range(24):
            n += 1
            if j != k and keys[j] == keys[k]:
                acc.add('C11/C/not-distinct', 'C(%d) and C(%d) are the same gate (%s): the 24 indices do not give 24 different gates' % (k, j, _show(fm)))
        n += 1
        if keyset != group:
            acc.add('C11/C/not-the-group', 'the set {C(0..23)} has %d distinct members; %d of the 24 single-qubit Cliffords are missing' % (
                len(keyset), len(group - keyset)))
        pk = ref.map_perm(gs.astype(np.int64), ps.astype(np.int64) % 4, 1)
        ident = np.arange(16)
        for j in range(24):
            mj = pc.C(j, 0).forward_map
            pj = ref.map_perm(np.asarray(mj.gs).astype(np.int64), np.asarray(mj.ps).astype(np.int64) % 4, 1)
            n += 1
            nt += 1
            try:
                prod = pc.C(k, 0).forward_map.compose(mj)
            except Exception as e:
                acc.add('C11/C/compose-raises-%s' % type(e).__name__, 'C(%d).forward_map.compose(C(%d).forward_map) raised %s: %s' % (k, j, type(e).__name__, e))
                continue
            pg = np.asarray(prod.gs).astype(np.int64)
            pp = np.asarray(prod.ps).astype(np.int64) % 4
            if _mkey(prod) not in keyset:
                acc.add('C11/C/compose-not-closed', 'C(%d) composed with C(%d) = (%s) is not one of C(0..23)' % (k, j, _show(prod)))
            if pg.shape != (2, 2) or not ref.is_valid_map(pg, pp) or (ref.map_perm(pg, pp, 1) != pj[pk]).any():
                acc.add('C11/C/compose-table', 'C(%d) then C(%d): compose gives (%s), which is not the product automorphism' % (k, j, _show(prod)))
        n += 1
        inv = None
        try:
            inv = pc.C(k, 0).forward_map.inverse()
            ig = np.asarray(inv.gs).astype(np.int64)
            ip = np.asarray(inv.ps).astype(np.int64) % 4
            if _mkey(inv) not in keyset:
                acc.add('C11/C/inverse-not-closed', 'inverse of C(%d) = (%s) is not one of C(0..23)' % (k, _show(inv)))
            if ig.shape != (2, 2) or not ref.is_valid_map(ig, ip) or (ref.map_perm(ig, ip, 1)[pk] != ident).any() or (pk[ref.map_perm(ig, ip, 1)] != ident).any():
                acc.add('C11/C/inverse-table', 'inverse of C(%d) = (%s) does not undo it' % (k, _show(inv)))
            else:
                a = pc.C(k, 0).forward_map.compose(inv)
                b = inv.compose(pc.C(k, 0).forward_map)
                idk = (np.eye(2, dtype=np.int64).tobytes(), np.zeros(2, dtype=np.int64).tobytes())
                n += 2
                if _mkey(a) != idk or _mkey(b) != idk:
                    acc.add('C11/C/inverse-table', 'C(%d) composed with its inverse is not the identity map' % k)
        except Exception as e:
            acc.add('C11/C/inverse-raises-%s' % type(e).__name__, 'C(%d).forward_map.inverse() raised %s: %s' % (k, type(e).__name__, e))
        if k == 6:
            samples.append({'C(6)': _show(fm), 'C(3)': _show(maps[3]),
                            'inverse_index': keys.index(_mkey(inv)) if inv is not None and _mkey(inv) in keys else None})
        viol.extend(acc.out())
    return {'n': n, 'nt': nt, 'viol': viol, 'samples': samples}


# ---------------------------------------------------------------- rejection
def reject_items():
    out = []
    for nm in SINGLES:
        out.append([nm, [], 'qubit-count'])
        out.append([nm, [0, 1], 'qubit-count'])
        out.append([nm, [0, 1, 2], 'qubit-count'])
    out.append(['CNOT', [], 'qubit-count'])
    out.append(['CNOT', [0], 'qubit-count'])
    out.append(['CNOT', [1], 'qubit-count'])
    out.append(['CNOT', [0, 1, 2], 'qubit-count'])
    out.append(['CNOT', [2, 1, 0], 'qubit-count'])
    for k in range(24):
        out.append(['C', [k], 'qubit-count'])
        out.append(['C', [k, 0, 1], 'qubit-count'])
    for k in BAD_INDICES:
        for q in (0, 1, 2):
            out.append(['C', [k, q], 'bad-index'])
    return out


def fn_reject(items):
    """item = [constructor, args, reason]: the call must raise (the current code raises ValueError)."""
    pc = lib.pc
    n = 0
    viol = []
    extra = {}
    for item in items:
        nm, args, reason = item
        n += 1
        try:
            g = getattr(pc, nm)(*args)
        except Exception as e:
            extra['rejected_with_' + type(e).__name__] = extra.get('rejected_with_' + type(e).__name__, 0) + 1
            continue
        viol.append(V('C11/reject/%s/accepted-%s' % (nm, reason), item, '%s(%s) was accepted (gate on qubits %r) instead of being rejected' % (
            nm, ','.join(repr(a) for a in args), getattr(g, 'qubits', None))))
    return {'n': n, 'nt': n, 'viol': viol, 'extra': extra}


# ---------------------------------------------------------------- conventions / oracle self-check
def conventions():
    """The literal sentences of the statement agree with the textbook matrices (reference side only)."""
    out = {}
    ok = True
    for N in (1, 2, 3):
        for name, qs in gates_of(N, with_c=False):
            U = unitary(name, qs, N)
            for g, eg, ep in statement_images(name, qs, N):
                ok &= bool(np.allclose(U @ ref.mat(g, 0) @ U.conj().T, ref.mat(eg, ep), atol=1e-12))
            if name in ('X', 'Y', 'Z'):
                for g in ref.all_g(N):
                    a = int(ref.anti(gen(N, qs[0], name), g))
                    ok &= bool(np.allclose(U @ ref.mat(g, 0) @ U.conj().T, (-1) ** a * ref.mat(g, 0), atol=1e-12))
    assert ok
    out['statement_sentences_match_matrices'] = ok
    out['S_sends_X_to_plus_Y'] = bool(np.allclose(ref.U_S @ ref.SX @ ref.U_S.conj().T, ref.SY))
    assert out['S_sends_X_to_plus_Y']
    return out



def fn_contexts(items):
    """item = [N, name, qubits]: the same named gate used in every context a register offers: inside a
    CliffordCircuit / Circuit, plain, layer-compiled and circuit-compiled, copied (before and after the
    gate has been run backward / compiled), forward and backward: the action on the whole Pauli group
    must be U P U^dag resp. U^dag P U for the textbook U."""
    n = nt = 0
    viol = []
    pc = lib.pc
    for item in items:
        N, name, qs = item
        qs = [int(q) for q in qs]
        cls = gate_class(name, qs)
        label = '%s(%s) on N=%d' % (name, ','.join(map(str, qs)), N)
        U = unitary(name, qs, N, make_gate(name, qs))
        Ud = U.conj().T
        G = ref.all_g(N)
        gs_in = np.concatenate([G] * 4)
        ps_in = np.repeat(np.arange(4), len(G))
        want_f = [U @ ref.mat(g, p) @ Ud for g, p in zip(gs_in, ps_in)]
        want_b = [Ud @ ref.mat(g, p) @ U for g, p in zip(gs_in, ps_in)]

        def check(ctx, obj, direction):
            nonlocal n, nt
            lst = lib.PL(gs_in, ps_in)
            try:
                (obj.forward if direction == 'forward' else obj.backward)(lst)
            except Exception as e:
                viol.append(V('C11/%s/context=%s/%s-raises-%s' % (cls, ctx, direction, type(e).__name__), item, '%s in context %s: %s raised %s: %s' % (label, ctx, direction, type(e).__name__, e)))
                return
            og, op = np.asarray(lst.gs).astype(np.int64), np.asarray(lst.ps).astype(np.int64) % 4
            want = want_f if direction == 'forward' else want_b
            n += len(gs_in)
            nt += len(gs_in)
            for k in range(len(gs_in)):
                if not np.allclose(ref.mat(og[k], op[k]), want[k], atol=1e-9):
                    viol.append(V('C11/%s/context=%s/%s' % (cls, ctx, direction), item, '%s in context %s: %s sends %s to %s, not the textbook conjugation' % (
                        label, ctx, direction, ref.g_to_str(gs_in[k], ps_in[k]), ref.g_to_str(og[k], op[k]))))
                    return
        for ccls, mk in (('CliffordCircuit', lambda: pc.identity_circuit(N)), ('Circuit', lambda: pc.Circuit(N))):
            for how in ('plain', 'layer-compiled', 'compiled'):
                c = mk()
                c.take(make_gate(name, qs))
                if how == 'layer-compiled':
                    c.first_layer.compile(N)
                elif how == 'compiled':
                    c.compile()
                for d in ('forward', 'backward'):
                    check('%s,%s' % (ccls, how), c, d)
            # the gate placed into a circuit that was ALREADY compiled (empty register compiled first), then compiled again
            c = mk()
            try:
                c.compile()
                c.take(make_gate(name, qs))
                c.compile()
            except Exception as e:
                viol.append(V('C11/%s/context=%s,placed-after-compile/raises-%s' % (cls, ccls, type(e).__name__), item, '%s: compile(), take(gate), compile() raised %s' % (label, e)))
            else:
                for d in ('forward', 'backward'):
                    check('%s,placed-after-compile' % ccls, c, d)
            if ccls == 'CliffordCircuit':
                c = mk()
                c.take(make_gate(name, qs))
                c.compile()
                c2 = c.copy()
                for d in ('forward', 'backward'):
                    check('copy-of-compiled-circuit', c2, d)
        # gate copies taken at different moments of the gate's life
        g0 = make_gate(name, qs)
        check('gate.copy-fresh', g0.copy(), 'forward')
        check('gate.copy-fresh', g0.copy(), 'backward')
        g1 = make_gate(name, qs)
        g1.backward(lib.PL(gs_in, ps_in))      # fills in the lazily computed backward map
        for d in ('forward', 'backward'):
            check('gate.copy-after-backward', g1.copy(), d)
        g2 = make_gate(name, qs).compile()
        for d in ('forward', 'backward'):
            check('gate.copy-after-compile', g2.copy(), d)
    return {'n': n, 'nt': nt, 'viol': viol}

def fn_sequences(items):
    """item = [N, [[name, qubits], ...]]: a short sequence of named gates taken into a CliffordCircuit / Circuit
    (plain and compiled), forward and backward on the whole Pauli group: the action must be conjugation by the
    ordered product of the textbook unitaries (layer packing must respect every shared qubit, for CNOT in either
    orientation)."""
    n = nt = 0
    viol = []
    pc = lib.pc
    for item in items:
        N, seq = item
        U = np.eye(2 ** N, dtype=complex)
        for name, qs in seq:
            U = unitary(name, qs, N, make_gate(name, qs)) @ U
        Ud = U.conj().T
        G = ref.all_g(N)
        if N <= 3:
            gs_in, ps_in = np.concatenate([G] * 2), np.repeat(np.array([0, 3]), len(G))
        else:
            sel = [i for i in range(len(G)) if ref.weight(G[i]) == 1] + list(range(1, len(G), 37))
            gs_in, ps_in = G[sel], np.arange(len(sel)) % 4
        label = ' ; '.join('%s(%s)' % (nm, ','.join(map(str, qs))) for nm, qs in seq)
        for ccls, mk in (('CliffordCircuit', lambda: pc.identity_circuit(N)), ('Circuit', lambda: pc.Circuit(N))):
            for how in ('plain', 'compiled'):
                for d in ('forward', 'backward'):
                    c = mk()
                    for name, qs in seq:
                        c.take(make_gate(name, qs))
                    if how == 'compiled':
                        c.compile()
                    lst = lib.PL(gs_in, ps_in)
                    getattr(c, d)(lst)
                    og, op = np.asarray(lst.gs).astype(np.int64), np.asarray(lst.ps).astype(np.int64) % 4
                    n += len(gs_in)
                    nt += len(gs_in)
                    for k in range(len(gs_in)):
                        want = (U @ ref.mat(gs_in[k], ps_in[k]) @ Ud) if d == 'forward' else (Ud @ ref.mat(gs_in[k], ps_in[k]) @ U)
                        if not np.allclose(ref.mat(og[k], op[k]), want, atol=1e-9):
                            viol.append(V('C11/sequence/%s,%s/%s' % (ccls, how, d), item, 'N=%d: %s as %s (%s): %s sends %s to %s, not conjugation by the ordered product of the textbook gates' % (
                                N, label, ccls, how, d, ref.g_to_str(gs_in[k], ps_in[k]), ref.g_to_str(og[k], op[k]))))
                            break
    return {'n': n, 'nt': nt, 'viol': viol}


def fn_fresh(items):
    """item = [N, name, qubits]: a named gate is built and its maps are edited in place (masked transform_by by another
    gate, rotate_by, embed, direct array write); EVERY named gate built afterwards must still be the textbook gate
    (tables handed out without a copy show up here)."""
    n = nt = 0
    viol = []
    pc = lib.pc
    for item in items:
        N, name, qs = item
        qs = [int(q) for q in qs]
        G = ref.all_g(N)
        gs_in, ps_in = np.concatenate([G] * 2), np.repeat(np.array([0, 1]), len(G))
        others = [(nm, [q]) for nm in SINGLES + ('C7', 'C22') for q in range(N)]
        if N >= 2:
            others += [('CNOT', [a, b]) for a in range(N) for b in range(N) if a != b]
        t1, s1 = dom.valid_maps(1)[9]
        edits = []
        if len(qs) == 2:
            edits.append(('H(%d).forward(map)' % qs[1], lambda m: pc.H(1).forward(m) if m.N == 2 else None))
        edits += [('rotate_by', lambda m: m.rotate_by(lib.P([1, 1] + [0, 0] * (m.N - 1), 0))),
                  ('embed', lambda m: m.embed(lib.CM(t1, s1), np.array([True] + [False] * (m.N - 1)))),
                  ('array-write', lambda m: (m.gs.__setitem__(Ellipsis, 1 - m.gs), m.ps.__setitem__(Ellipsis, (m.ps + 2) % 4)))]
        for enm, ed in edits:
            for which in ('forward_map', 'backward_map'):
                g0 = make_gate(name, qs)
                if which == 'backward_map':
                    g0.backward(lib.PL(gs_in, ps_in))       # derives the backward map lazily
                m = getattr(g0, which, None)
                if m is None:
                    continue
                try:
                    ed(m)
                except Exception:
                    continue
                for onm, oq in others:
                    g1 = make_gate(onm, oq)
                    U = unitary(onm, oq, N, g1 if not onm.startswith('C') or onm == 'CNOT' else None) if not (onm.startswith('C') and onm != 'CNOT') else None
                    if U is None:
                        # indexed gates: compared with the table captured from the independently enumerated 24 maps (leg c24_group owns their identity)
                        k = int(onm[1:])
                        tg, tp = _C_TABLES()[k]
                        fm = g1.forward_map
                        okc = np.array_equal(np.asarray(fm.gs), tg) and np.array_equal(np.asarray(fm.ps) % 4, tp)
                        n += 1
                        nt += 1
                        if not okc:
                            viol.append(V('C11/fresh-after-edit/%s/%s' % (gate_class(onm, oq), enm.split('(')[0]), item, 'N=%d: after %s on the %s of an earlier %s(%s), a new %s(%s) has a different table' % (
                                N, enm, which, name, ','.join(map(str, qs)), onm, ','.join(map(str, oq)))))
                            break
                        continue
                    Ud = U.conj().T
                    bad = None
                    for d in ('forward', 'backward'):
                        lst = lib.PL(gs_in, ps_in)
                        getattr(g1, d)(lst)
                        og, op = np.asarray(lst.gs).astype(np.int64), np.asarray(lst.ps).astype(np.int64) % 4
                        n += len(gs_in)
                        nt += len(gs_in)
                        for k in range(len(gs_in)):
                            want = (U @ ref.mat(gs_in[k], ps_in[k]) @ Ud) if d == 'forward' else (Ud @ ref.mat(gs_in[k], ps_in[k]) @ U)
                            if not np.allclose(ref.mat(og[k], op[k]), want, atol=1e-9):
                                bad = (d, k, og[k], op[k])
                                break
                        if bad:
                            break
                    if bad:
                        viol.append(V('C11/fresh-after-edit/%s/%s' % (gate_class(onm, oq), enm.split('(')[0]), item, 'N=%d: after %s on the %s of an earlier %s(%s), a new %s(%s).%s sends %s to %s' % (
                            N, enm, which, name, ','.join(map(str, qs)), onm, ','.join(map(str, oq)), bad[0], ref.g_to_str(gs_in[bad[1]], ps_in[bad[1]]), ref.g_to_str(bad[2], bad[3]))))
                        break
    return {'n': n, 'nt': nt, 'viol': viol}


_CT = {}


def _C_TABLES():
    """tables of C(0..23) captured once per process from fresh gates BEFORE any edit of this leg (their identity with the
    independently enumerated 24 maps is decided by leg c24_group)."""
    if not _CT:
        for k in range(24):
            fm = lib.pc.C(k, 0).forward_map
            _CT[k] = (np.array(fm.gs).copy(), np.array(fm.ps).copy() % 4)
    return _CT


def legs(tier):
    out = []
    Ns = (1, 2, 3, 4)
    items = [[N, name, qs] for N in Ns for name, qs in gates_of(N)]
    out.append(Leg('paulis', fn_paulis, items, chunk=2, src_states=sum(4 * 4 ** N for N in Ns),
                   bound='N in %s: H,S,X,Y,Z and C(0..23) on every wire, CNOT on every ordered pair of distinct wires (%d gate placements) x the whole Pauli group with 4 phases' % (
                       (Ns,), len(items))))
    nitems = [[N, name, qs, form] for N in (2, 3) for name, qs in gates_of(N) for form in ('np.int64', 'np.int32')]
    out.append(Leg('paulis_numpy_indices', fn_paulis, nitems, chunk=4, src_states=sum(4 * 4 ** N for N in (2, 3)),
                   bound='N in (2, 3): the same %d gate placements with qubit indices (and the C index) given as numpy.int64 / numpy.int32 scalars (as produced by loops over numpy.arange) x the whole Pauli group with 4 phases' % (len(nitems) // 2)))
    for N in (1, 2):
        stab.tableaux(N)
        stab.valid_keyset(N)
    citems = [it for it in items if it[0] <= 3 or it[1] == 'CNOT']
    out.append(Leg('contexts', fn_contexts, citems, chunk=2,
                   bound='every placement of N<=3 (and every CNOT placement of N=4): the gate inside CliffordCircuit / Circuit plain, layer-compiled, circuit-compiled, copy of compiled circuit, gate copies (fresh, after backward, after compile), forward and backward, whole Pauli group'))
    two = {N: [('CNOT', [a, b]) for a in range(N) for b in range(N) if a != b] for N in (2, 3, 4)}
    sq = []
    for N in (2, 3):
        one = [(nm, [q]) for nm in ('H', 'S') for q in range(N)]
        sq += [[N, [list(a), list(b)]] for a in two[N] for b in two[N]]
        sq += [[N, [list(a), list(b), list(c)]] for a in one + two[N] for b in two[N] for c in two[N]]
    sq += [[4, [list(a), list(b)]] for a in two[4] for b in two[4]]
    if tier != 'quick':
        sq += [[4, [list(a), list(b), list(c)]] for a in [('H', [0]), ('S', [3])] + two[4] for b in two[4] for c in two[4]]
    out.append(Leg('sequences', fn_sequences, sq, chunk=8,
                   bound='all ordered pairs of CNOT placements (both orientations) at N=2,3,4 and all triples (H/S/CNOT ; CNOT ; CNOT) at N=2,3%s inside CliffordCircuit / Circuit, plain and compiled, forward and backward' % ('' if tier == 'quick' else ' and N=4')))
    _C_TABLES()
    fitems = [it for it in items if it[0] <= 2 and not (it[1].startswith('C') and it[1] != 'CNOT' and int(it[1][1:]) % 6)] + [[3, 'CNOT', [2, 0]], [3, 'H', [1]]]
    out.append(Leg('fresh_after_edit', fn_fresh, fitems, chunk=2,
                   bound='N<=2 (every named gate placement, every 6th C(k)) and two N=3 placements: the forward / backward map of one gate edited in place (another gate applied to the map, rotate_by, embed, array write), then every named gate built again and compared with the textbook action'))
    out.append(Leg('states_N1', fn_states, [[1, i] for i in range(48)], chunk=4, src_states=48,
                   bound='all 48 tableaux x %d gate placements' % len(gates_of(1))))
    out.append(Leg('states_N2', fn_states, [[2, i] for i in range(34560)], chunk=60, src_states=34560,
                   bound='all 34560 tableaux x %d gate placements (incl. both CNOT orientations and C(0..23) on both wires)' % len(gates_of(2))))
    out.append(Leg('c24_group', fn_c24, [[k] for k in range(24)], chunk=2,
                   bound='24 maps: validity, pairwise distinctness, equality with the independently enumerated 24 valid maps, 24x24 compose table, 24 inverses'))
    out.append(Leg('reject', fn_reject, reject_items(), chunk=8,
                   bound='wrong qubit counts for every constructor (0,2,3 wires for 1-qubit gates and every C(k); 0,1,3 for CNOT); indices %s on wires 0..2' % (BAD_INDICES,)))
    return out
