"""C04 Clifford maps form a group under compose and inverse.

compose/inverse/identity_map on all valid maps of N<=2 (independently enumerated), compared
with the reference automorphism composition; closure BFS with the library's own compose;
GF(2) inversion kernel on every 4x4 binary matrix."""
import itertools
import numpy as np
from .. import ref, dom, lib
from ..core import Leg, V

PROP = 'C04'
RULE = ('(map, map) pairs and (map) singletons over the complete valid-map sets (24 / 11520): compose vs reference composition of '
        'automorphisms, inverse vs two-sided identity, neutrality, anti-homomorphism, operand immutability; non-trivial = neither operand '
        'is the identity map; BFS closure under the library compose must reproduce exactly the enumerated group')
ASSUMPTIONS = ['function composition of reference automorphisms is associative by construction, so compose == reference for ALL pairs yields associativity for all triples (checked directly for N=1)']


def gen_maps(N):
    """Generator set as (name, table, signs), from textbook unitaries via ref.conj_table."""
    out = []
    for q in range(N):
        for nm, U1 in (('H', ref.U_H), ('S', ref.U_S), ('X', ref.U_X), ('Z', ref.U_Z)):
            U = ref.embed_1q(U1, q, N)
            t, s = ref.conj_table(U, N)
            out.append(('%s%d' % (nm, q), t, s))
    if N >= 2:
        for c, t_ in itertools.permutations(range(N), 2):
            t, s = ref.conj_table(ref.u_cnot(c, t_, N), N)
            out.append(('CNOT%d%d' % (c, t_), t, s))
    return out


_GEN = {}


def gens(N):
    if N not in _GEN:
        _GEN[N] = gen_maps(N)
    return _GEN[N]


def ref_compose(ta, sa, tb, sb):
    """rows of (a then b): image under b of the rows of a."""
    return ref.map_apply(tb, sb, ta, sa)


def snap(M):
    return (np.asarray(M.gs).copy(), np.asarray(M.ps).copy())


def same(M, sn):
    return np.array_equal(np.asarray(M.gs), sn[0]) and np.array_equal(np.asarray(M.ps), sn[1])


def _mk(pkg, t, s):
    return lib.CM(t, s) if pkg == 'py' else lib.tCM(t, s)


def _arr(pkg, M):
    if pkg == 'py':
        return np.asarray(M.gs), np.asarray(M.ps) % 4
    return lib.t2n(M.gs), lib.t2n(M.ps) % 4


def check_compose(pkg, N, ta, sa, tb, sb, item, viol, tag):
    A, B = _mk(pkg, ta, sa), _mk(pkg, tb, sb)
    try:
        C = A.compose(B)
    except Exception as e:
        viol.append(V('C04/%s/%s/raises-%s' % (tag, pkg, type(e).__name__), item, 'compose raised %s' % e))
        return None
    eg, ep = ref_compose(ta, sa, tb, sb)
    cg, cp = _arr(pkg, C)
    if cg.shape != eg.shape or (cg != eg).any() or (cp != ep).any():
        viol.append(V('C04/%s/%s/%s' % (tag, pkg, 'string' if cg.shape != eg.shape or (cg != eg).any() else 'phase'), item,
                      'compose(a,b) differs from "a then b": a=%s%s b=%s%s got %s%s expected %s%s' % (
                          np.asarray(ta).tolist(), np.asarray(sa).tolist(), np.asarray(tb).tolist(), np.asarray(sb).tolist(),
                          cg.tolist(), cp.tolist(), eg.tolist(), ep.tolist())))
    ag, ap = _arr(pkg, A)
    bg, bp = _arr(pkg, B)
    if (ag != ta).any() or (ap != sa % 4).any() or (bg != tb).any() or (bp != sb % 4).any():
        viol.append(V('C04/%s/%s/operand-modified' % (tag, pkg), item, 'compose changed an operand'))
    if pkg == 'py':
        if np.shares_memory(C.gs, A.gs) or np.shares_memory(C.gs, B.gs) or np.shares_memory(C.ps, A.ps) or np.shares_memory(C.ps, B.ps):
            viol.append(V('C04/%s/py/result-aliases-operand' % tag, item, 'composed map shares memory with an operand'))
    return C


def check_inverse(pkg, N, t, s, item, viol):
    M = _mk(pkg, t, s)
    try:
        Mi = M.inverse()
    except Exception as e:
        viol.append(V('C04/inverse/%s/raises-%s' % (pkg, type(e).__name__), item, 'inverse raised %s' % e))
        return
    ig, ip = _arr(pkg, Mi)
    mg, mp = _arr(pkg, M)
    if (mg != t).any() or (mp != s % 4).any():
        viol.append(V('C04/inverse/%s/operand-modified' % pkg, item, 'inverse changed its receiver'))
    I = np.eye(2 * N, dtype=np.int64)
    Z = np.zeros(2 * N, dtype=np.int64)
    if ig.shape != (2 * N, 2 * N) or not ref.is_valid_map(ig, ip):
        viol.append(V('C04/inverse/%s/invalid' % pkg, item, 'inverse of map %s%s is not a valid map: %s%s' % (np.asarray(t).tolist(), np.asarray(s).tolist(), ig.tolist(), ip.tolist())))
        return
    # reference: both compositions are the identity automorphism
    g1, p1 = ref.map_apply(ig, ip, t, s)      # M then Mi
    g2, p2 = ref.map_apply(t, s, ig, ip)      # Mi then M
    if (g1 != I).any() or (g2 != I).any():
        viol.append(V('C04/inverse/%s/table' % pkg, item, 'inverse table wrong for %s' % np.asarray(t).tolist()))
    elif (p1 != Z).any() or (p2 != Z).any():
        viol.append(V('C04/inverse/%s/phase' % pkg, item, 'inverse phases wrong for map %s signs %s: got %s' % (np.asarray(t).tolist(), np.asarray(s).tolist(), ip.tolist())))
    # library: composes with it to the identity on both sides
    for lab, X in (('M.compose(Minv)', M.compose(Mi)), ('Minv.compose(M)', Mi.compose(M))):
        xg, xp = _arr(pkg, X)
        if (xg != I).any() or (xp != Z).any():
            viol.append(V('C04/inverse/%s/library-compose' % pkg, item, '%s is not the identity map' % lab))


def fn_n1(items):
    """item = [pkg, ia]: N=1: a fixed, all b (pairs), all (b,c) (triples), inverse, neutrality."""
    n = nt = 0
    viol = []
    for pkg, ia in items:
        maps = dom.valid_maps(1)
        ta, sa = maps[ia]
        check_inverse(pkg, 1, ta, sa, [pkg, ia], viol)
        I = _mk(pkg, np.eye(2, dtype=np.int64), np.zeros(2, dtype=np.int64)) if pkg != 'py' else lib.pc.identity_map(1)
        A = _mk(pkg, ta, sa)
        for lab, X in (('id.compose(a)', I.compose(A)), ('a.compose(id)', A.compose(I))):
            xg, xp = _arr(pkg, X)
            n += 1
            if (xg != ta).any() or (xp != sa % 4).any():
                viol.append(V('C04/identity/%s' % pkg, [pkg, ia], '%s != a' % lab))
        for ib, (tb, sb) in enumerate(maps):
            AB = check_compose(pkg, 1, ta, sa, tb, sb, [pkg, ia], viol, 'pair-N1')
            n += 1
            nt += int(ia != 0 and ib != 0)
            if AB is None:
                continue
            B = _mk(pkg, tb, sb)
            # (ab)^-1 = b^-1 a^-1
            lhs = _arr(pkg, AB.inverse())
            rhs = _arr(pkg, B.inverse().compose(A.inverse()))
            n += 1
            if (lhs[0] != rhs[0]).any() or (lhs[1] != rhs[1]).any():
                viol.append(V('C04/anti-homomorphism/%s' % pkg, [pkg, ia], '(ab)^-1 != b^-1 a^-1'))
            if pkg == 'py':
                for tc_, sc in maps:
                    Cm = _mk(pkg, tc_, sc)
                    l = _arr(pkg, AB.compose(Cm))
                    r = _arr(pkg, A.compose(B.compose(Cm)))
                    n += 2
                    if (l[0] != r[0]).any() or (l[1] != r[1]).any():
                        viol.append(V('C04/associativity/py', [pkg, ia], '(ab)c != a(bc)'))
    return {'n': n, 'nt': nt, 'viol': viol}


def fn_n2(items):
    """item = [pkg, lo, hi]: maps lo..hi-1 of N=2: inverse, neutrality, compose with every
    generator on both sides, (ag)^-1 = g^-1 a^-1."""
    n = nt = 0
    viol = []
    samples = []
    for pkg, lo, hi in items:
        maps = dom.valid_maps(2)
        Iid = lib.pc.identity_map(2) if pkg == 'py' else _mk(pkg, np.eye(4, dtype=np.int64), np.zeros(4, dtype=np.int64))
        for ia in range(lo, min(hi, len(maps))):
            ta, sa = maps[ia]
            item = [pkg, ia, ia + 1]
            check_inverse(pkg, 2, ta, sa, item, viol)
            n += 3
            A = _mk(pkg, ta, sa)
            for lab, X in (('id.compose(a)', Iid.compose(A)), ('a.compose(id)', A.compose(Iid))):
                xg, xp = _arr(pkg, X)
                n += 1
                if (xg != ta).any() or (xp != sa % 4).any():
                    viol.append(V('C04/identity/%s' % pkg, item, '%s != a' % lab))
            Ai = A.inverse()
            for nm, tg, sg in gens(2):
                AG = check_compose(pkg, 2, ta, sa, tg, sg, item, viol, 'a.compose(gen)')
                check_compose(pkg, 2, tg, sg, ta, sa, item, viol, 'gen.compose(a)')
                n += 2
                nt += 2
                if AG is not None and pkg == 'py':
                    Gm = _mk(pkg, tg, sg)
                    lhs = _arr(pkg, AG.inverse())
                    rhs = _arr(pkg, Gm.inverse().compose(Ai))
                    n += 1
                    if (lhs[0] != rhs[0]).any() or (lhs[1] != rhs[1]).any():
                        viol.append(V('C04/anti-homomorphism/%s' % pkg, item, '(a g)^-1 != g^-1 a^-1 for g=%s' % nm))
        if not samples:
            ta, sa = maps[lo]
            samples.append({'a_rows': [ref.g_to_str(g, p) for g, p in zip(ta, sa)], 'generators': [g[0] for g in gens(2)]})
    return {'n': n, 'nt': nt, 'viol': viol, 'samples': samples}


def fn_allpairs(items):
    """item = [lo, hi]: a in lo..hi-1, ALL b of the 11520 maps: compose vs vectorised reference."""
    n = nt = 0
    viol = []
    maps = dom.valid_maps(2)
    B = np.array([t for t, s in maps])           # (M,4,4)
    S = np.array([s for t, s in maps])           # (M,4)
    objs = [lib.CM(t, s) for t, s in maps]
    M = len(maps)
    for lo, hi in items:
        for ia in range(lo, min(hi, M)):
            ta, sa = maps[ia]
            A = lib.CM(ta, sa)
            # reference rows of (a then b) for all b at once
            eg = np.zeros((M, 4, 4), dtype=np.int64)
            ep = np.zeros((M, 4), dtype=np.int64)
            for row in range(4):
                acc_g = np.zeros((M, 4), dtype=np.int64)
                acc_p = np.full(M, (sa[row] + int((ta[row][0::2] * ta[row][1::2]).sum())) % 4, dtype=np.int64)
                for j in range(4):
                    if ta[row][j]:
                        acc_g, acc_p = ref.mul(acc_g, acc_p, B[:, j, :], S[:, j])
                eg[:, row, :] = acc_g
                ep[:, row] = acc_p
            for ib in range(M):
                C = A.compose(objs[ib])
                n += 1
                if (np.asarray(C.gs) != eg[ib]).any() or (np.asarray(C.ps) % 4 != ep[ib]).any():
                    viol.append(V('C04/allpairs/py', [ia, ia + 1], 'compose(map#%d, map#%d) differs from the reference' % (ia, ib)))
            nt += M
            if (np.asarray(A.gs) != ta).any() or (np.asarray(A.ps) != sa).any():
                viol.append(V('C04/allpairs/py/operand-modified', [ia, ia + 1], 'receiver changed'))
    return {'n': n, 'nt': nt, 'viol': viol}


def fn_history(items):
    """item = [N, lo, hi]: histories on ONE live map object: inverse() -> in-place mutation (rotate_by every
    generator / transform_by every generator map / embed) -> inverse() and compose() again.  The second
    answers must refer to the mutated map (no stale cache), and the first answers must stay untouched."""
    n = nt = 0
    viol = []
    for N, lo, hi in items:
        maps = dom.valid_maps(N)
        herm = dom.hermitian_paulis(N, include_identity=False)
        for ia in range(lo, min(hi, len(maps))):
            t, s = maps[ia]
            item = [N, ia, ia + 1]
            muts = [('rotate_by(%s)' % ref.g_to_str(g, p), (lambda g=g, p=p: (lambda M: M.rotate_by(lib.P(g, p))))()) for g, p in herm[(ia % 3)::3]]
            muts += [('transform_by(%s)' % nm, (lambda tg=tg, sg=sg: (lambda M: M.transform_by(lib.CM(tg, sg))))()) for nm, tg, sg in gens(N)]
            for label, mut in muts:
                M = lib.CM(t, s)
                inv1 = M.inverse()
                c1 = M.compose(inv1)
                snap1 = snap(inv1)
                mut(M)
                mg, mp = np.asarray(M.gs).astype(np.int64), np.asarray(M.ps).astype(np.int64) % 4
                n += 1
                if not ref.is_valid_map(mg, mp):
                    continue      # the mutator itself is wrong: owned by C02/C03
                nt += 1
                inv2 = M.inverse()
                ig, ip = np.asarray(inv2.gs).astype(np.int64), np.asarray(inv2.ps).astype(np.int64) % 4
                I = np.eye(2 * N, dtype=np.int64)
                ok = ig.shape == mg.shape and ref.is_valid_map(ig, ip)
                if ok:
                    g1, p1 = ref.map_apply(ig, ip, mg, mp)
                    g2, p2 = ref.map_apply(mg, mp, ig, ip)
                    ok = (g1 == I).all() and (g2 == I).all() and not p1.any() and not p2.any()
                if not ok:
                    viol.append(V('C04/history/inverse-after-inplace-mutation', item, 'map %s%s: inverse(); %s; inverse() again is not the inverse of the mutated map' % (
                        np.asarray(t).tolist(), np.asarray(s).tolist(), label)))
                # compose after mutation refers to the current table
                X = lib.CM(*gens(N)[ia % len(gens(N))][1:])
                C = M.compose(X)
                eg, ep = ref_compose(mg, mp, np.asarray(X.gs), np.asarray(X.ps))
                if (np.asarray(C.gs) != eg).any() or (np.asarray(C.ps) % 4 != ep).any():
                    viol.append(V('C04/history/compose-after-inplace-mutation', item, 'compose after %s does not use the mutated map' % label))
                # to_state after mutation reflects the mutated rows
                stt = M.to_state()
                tg, tp = dom.map_to_tableau(mg, mp)
                if (np.asarray(stt.gs) != tg).any() or (np.asarray(stt.ps) % 4 != tp).any():
                    viol.append(V('C04/history/to_state-after-inplace-mutation', item, 'to_state after %s does not use the mutated map' % label))
                if not same(inv1, snap1):
                    viol.append(V('C04/history/earlier-result-changed', item, 'the inverse returned before %s changed afterwards (shared data)' % label))
    return {'n': n, 'nt': nt, 'viol': viol}


def fn_compiled_maps(items):
    """item = [tag, N, [letter indices]]: the maps a compile() builds by compose/inverse: for every program the
    circuit-level forward_map must equal the reference composition of the gate automorphisms, backward_map must be
    its two-sided inverse (inverse of a composition = reversed composition of the inverses), the same per layer,
    and gate.compile() of every gate must yield mutually inverse maps."""
    from .. import circ
    n = nt = 0
    viol = []
    for tag, N, prog in items:
        pk = circ.PKS[tag]
        A = circ.alphabet(tag, N)
        letters = [A[int(i)] for i in prog]
        item = [tag, N, list(prog)]
        fw = circ.ident(N)
        for l in letters:
            fw = l.perm[fw]
        et, es = circ.table_of_perm(fw, N)
        for cls in pk.classes:
            try:
                c, gates = circ.build(pk, cls, N, letters)
                pk.compile(c, N)
            except Exception as e:
                viol.append(V('C04/compiled-maps/%s/raises-%s' % (tag, type(e).__name__), item, 'compile of %s raised %s: %s' % ([l.name for l in letters], type(e).__name__, e)))
                continue
            # lazily derived maps: a fresh gate run forward (resp. backward) first must keep the maps it was given
            # and may only add the exact inverse of its partner (inversion leaves its operand unchanged)
            for first in ('forward', 'backward'):
                for k, l in enumerate(letters):
                    g = l.mk(pk)
                    before = {}
                    for att in ('forward_map', 'backward_map'):
                        mp = getattr(g, att, None)
                        if mp is not None:
                            a_, b_ = pk.arr(mp)
                            before[att] = (np.rint(a_).astype(np.int64).copy(), np.rint(b_).astype(np.int64).copy() % 4)
                    if getattr(g, 'generator', None) is not None or not before:
                        continue
                    try:
                        obj = pk.fresh(pk.inputs(N)[0])
                        (g.forward if first == 'forward' else g.backward)(obj)
                        (g.backward if first == 'forward' else g.forward)(obj)
                    except Exception:
                        continue
                    n += 1
                    after = {}
                    for att in ('forward_map', 'backward_map'):
                        mp = getattr(g, att, None)
                        if mp is not None:
                            a_, b_ = pk.arr(mp)
                            after[att] = (np.rint(a_).astype(np.int64), np.rint(b_).astype(np.int64) % 4)
                    for att, (a0, b0) in before.items():
                        if att not in after or (after[att][0] != a0).any() or (after[att][1] != b0).any():
                            viol.append(V('C04/lazy-inverse/%s/given-map-changed/%s-first' % (tag, first), item, 'gate %s: its %s was changed by running the gate (%s first)' % (l.name, att, first)))
                    if len(after) == 2:
                        fg, fp = after['forward_map']
                        bg, bp = after['backward_map']
                        I = np.eye(fg.shape[0], dtype=np.int64)
                        g1, p1 = ref.map_apply(bg, bp, fg, fp)
                        if (g1 != I).any() or p1.any():
                            viol.append(V('C04/lazy-inverse/%s/maps-not-inverse/%s-first' % (tag, first), item, 'gate %s: after running it (%s first) forward_map and backward_map are not inverse to each other' % (l.name, first)))
            variants = [('', c, gates)]
            for k in range(len(letters)):          # history: compile a prefix, take the rest (gates may sink into compiled layers), compile again
                try:
                    c2, g2 = circ.build(pk, cls, N, letters[:k])
                    pk.compile(c2, N)
                    for l in letters[k:]:
                        gg = l.mk(pk)
                        c2.take(gg)
                        g2.append(gg)
                    pk.compile(c2, N)
                    variants.append(('/compile-extend-compile', c2, g2))
                except Exception as e:
                    viol.append(V('C04/compiled-maps/%s/compile-extend-compile/raises-%s' % (tag, type(e).__name__), item, 'compile, extend, compile of %s raised %s: %s' % ([l.name for l in letters], type(e).__name__, e)))
            objs = []
            for vtag, cv, gv in variants:
                objs += [('circuit' + vtag, cv)] + [('layer%d%s' % (k, vtag), lay) for k, lay in enumerate(itertools.islice(cv.layers_forward(), 8))] + [('gate%d%s' % (k, vtag), g) for k, g in enumerate(gv)]
            for nm, o in objs:
                if getattr(o, 'forward_map', None) is None or getattr(o, 'backward_map', None) is None:
                    continue
                fg, fp = pk.arr(o.forward_map)
                bg, bp = pk.arr(o.backward_map)
                fg, fp, bg, bp = np.rint(fg).astype(np.int64), np.rint(fp).astype(np.int64) % 4, np.rint(bg).astype(np.int64), np.rint(bp).astype(np.int64) % 4
                n += 1
                nt += int(len(letters) >= 2)
                I = np.eye(fg.shape[0], dtype=np.int64)
                ok = ref.is_valid_map(fg, fp) and ref.is_valid_map(bg, bp)
                if ok:
                    g1, p1 = ref.map_apply(bg, bp, fg, fp)
                    g2, p2 = ref.map_apply(fg, fp, bg, bp)
                    ok = (g1 == I).all() and (g2 == I).all() and not p1.any() and not p2.any()
                if not ok:
                    viol.append(V('C04/compiled-maps/%s/%s/backward-not-inverse-of-forward' % (tag, ''.join(ch for ch in nm if not ch.isdigit())), item,
                                  'program %s, %s of %s: compiled backward_map is not the two-sided inverse of forward_map' % ([l.name for l in letters], nm, cls)))
                elif nm.startswith('circuit') and ((fg != et).any() or (fp != es % 4).any()):
                    viol.append(V('C04/compiled-maps/%s/%s/forward-not-composition' % (tag, nm), item, 'program %s: compiled forward_map of %s (%s) is not the composition of the gate maps in order' % ([l.name for l in letters], cls, nm)))
    return {'n': n, 'nt': nt, 'viol': viol}


# ---------------------------------------------------------------- special operands, kept results
def perm_map(pi, signs):
    N = len(pi)
    t = np.zeros((2 * N, 2 * N), dtype=np.int64)
    for i, j in enumerate(pi):
        t[2 * i, 2 * j] = 1
        t[2 * i + 1, 2 * j + 1] = 1
    return t, np.array(signs, dtype=np.int64)


def _scrambles(N):
    """a few valid maps of N qubits built with the REFERENCE composition from the textbook generator tables."""
    G = gens(N)
    out = []
    for start in range(0, len(G), max(1, len(G) // 5)):
        t, s_ = G[start][1], G[start][2]
        for k in range(1, 6):
            nm, t2, s2 = G[(start + 3 * k) % len(G)]
            t, s_ = ref_compose(t, s_, t2, s2)
        out.append((t, s_ % 4))
    return out


def fn_special(items):
    """item = [pkg, N, kind]:
    'perm'  : every qubit-relabeling map (all N! permutations, two sign patterns) as FIRST and as SECOND operand of
              compose against generators, scrambled maps and other relabelings; inverse of each.
    'pauli' : sign-only maps (identity table, every Hermitian sign pattern for N<=2, a spread for N=3) and the identity
              map as either operand; afterwards the RESULT is overwritten in place (embed + array write) and both
              operands must be unchanged (a result sharing storage with an operand shows up here).
    'kept'  : inverses and compositions of several maps are taken one after another and KEPT; after all calls every
              kept result is read again and must be what it was when returned (a result living in a reused workspace
              shows up here); inverse of an inverse returns the map and leaves the first inverse intact."""
    n = nt = 0
    viol = []
    for item in items:
        pkg, N, kind = item
        I = np.eye(2 * N, dtype=np.int64)
        Z = np.zeros(2 * N, dtype=np.int64)
        pool = [(t, s_) for _, t, s_ in gens(N)] + _scrambles(N)
        if kind == 'perm':
            perms = list(itertools.permutations(range(N)))
            for pi_i, pi in enumerate(perms):
                for signs in ([0] * (2 * N), [2 * ((k + pi_i) % 3 == 0) for k in range(2 * N)]):
                    tp, sp = perm_map(pi, signs)
                    others = pool + [perm_map(perms[(pi_i + 1) % len(perms)], [2 * (k % 2) for k in range(2 * N)])]
                    for tb, sb in others:
                        check_compose(pkg, N, tp, sp, tb, sb, item, viol, 'compose/relabeling-first')
                        check_compose(pkg, N, tb, sb, tp, sp, item, viol, 'compose/relabeling-second')
                        n += 2
                        nt += 2
                    check_inverse(pkg, N, tp, sp, item, viol)
                    n += 1
        elif kind == 'pauli':
            pats = list(itertools.product((0, 2), repeat=2 * N))
            if N >= 3:
                pats = pats[::5]
            for sg in pats:
                tb, sb = I.copy(), np.array(sg, dtype=np.int64)
                for ta, sa in pool[::2] + [(I.copy(), Z.copy())]:
                    for first in (True, False):
                        a, b = ((ta, sa), (tb, sb)) if first else ((tb, sb), (ta, sa))
                        A, B = _mk(pkg, *a), _mk(pkg, *b)
                        C = A.compose(B)
                        eg, ep = ref_compose(a[0], a[1], b[0], b[1])
                        cg, cp = _arr(pkg, C)
                        n += 1
                        nt += 1
                        tag = 'sign-only-%s' % ('second' if first else 'first')
                        if (cg != eg).any() or (cp != ep).any():
                            viol.append(V('C04/compose/%s/%s/value' % (tag, pkg), item, 'compose with a sign-only map %s differs from the reference composition' % (list(sg),)))
                            continue
                        # overwrite the result in place
                        t1, s1 = dom.valid_maps(1)[9]
                        mk = np.array([True] + [False] * (N - 1))
                        if pkg == 'py':
                            C.embed(lib.CM(t1, s1), mk)
                            C.gs[...] = 1 - C.gs
                            C.ps[...] = (C.ps + 1) % 4
                        else:
                            C.embed(lib.tCM(t1, s1), mk)
                            C.gs.copy_(1 - C.gs)
                            C.ps.copy_((C.ps + 1) % 4)
                        ag, ap = _arr(pkg, A)
                        bg, bp = _arr(pkg, B)
                        if (ag != a[0]).any() or (ap != a[1] % 4).any() or (bg != b[0]).any() or (bp != b[1] % 4).any():
                            viol.append(V('C04/compose/%s/%s/result-aliases-operand' % (tag, pkg), item,
                                          'N=%d %s: after a.compose(b) with a sign-only %s operand %s, overwriting the RESULT in place (embed, array write) changed an operand' % (
                                              N, pkg, 'second' if first else 'first', list(sg))))
        else:
            maps = pool[:8] if N >= 3 else pool
            kept = []
            for k, (t, s_) in enumerate(maps):
                M = _mk(pkg, t, s_)
                Mi = M.inverse()
                ig, ip = _arr(pkg, Mi)
                kept.append(('inverse of map #%d' % k, Mi, ig.copy(), ip.copy(), t, s_))
                t2, s2 = maps[(k + 3) % len(maps)]
                Cm = M.compose(_mk(pkg, t2, s2))
                cg, cp = _arr(pkg, Cm)
                kept.append(('compose(#%d, #%d)' % (k, (k + 3) % len(maps)), Cm, cg.copy(), cp.copy(), None, None))
                n += 2
                nt += 2
            for label, obj, g0, p0, t, s_ in kept:
                g1, p1 = _arr(pkg, obj)
                if (g1 != g0).any() or (p1 != p0).any():
                    viol.append(V('C04/kept-result/%s/changed-later' % pkg, item, 'N=%d %s: the %s changed after later inverse / compose calls on other maps' % (N, pkg, label)))
                    break
                if t is not None:
                    a1, b1 = ref.map_apply(g1, p1, t, s_)
                    a2, b2 = ref.map_apply(t, s_, g1, p1)
                    if (a1 != I).any() or (a2 != I).any() or (b1 != Z).any() or (b2 != Z).any():
                        viol.append(V('C04/kept-result/%s/inverse-wrong' % pkg, item, 'N=%d %s: the %s is not the two-sided inverse' % (N, pkg, label)))
                        break
            # inverse of an inverse
            for k, (t, s_) in enumerate(maps):
                M = _mk(pkg, t, s_)
                Mi = M.inverse()
                ig, ip = _arr(pkg, Mi)
                ig, ip = ig.copy(), ip.copy()
                Mii = Mi.inverse()
                gg, pp = _arr(pkg, Mii)
                n += 1
                nt += 1
                if (gg != t).any() or (pp != s_ % 4).any():
                    viol.append(V('C04/kept-result/%s/inverse-of-inverse' % pkg, item, 'N=%d %s: inverse of the inverse of map #%d is not the map' % (N, pkg, k)))
                    break
                g1, p1 = _arr(pkg, Mi)
                if (g1 != ig).any() or (p1 != ip).any():
                    viol.append(V('C04/kept-result/%s/inverse-overwrites-receiver' % pkg, item, 'N=%d %s: taking the inverse of an inverse changed the first inverse (map #%d)' % (N, pkg, k)))
                    break
    return {'n': n, 'nt': nt, 'viol': viol}


def fn_closure(items):
    """item = [N]: BFS closure of {identity} under the LIBRARY's compose with the generator maps
    must be exactly the independently enumerated valid-map set (both inclusions)."""
    n = 0
    viol = []
    extra = {}
    keys = set()
    for (N,) in items:
        want = set((np.asarray(t).tobytes(), (np.asarray(s) % 4).tobytes()) for t, s in dom.valid_maps(N))
        G = [lib.CM(t, s) for nm, t, s in gens(N)]
        I = lib.pc.identity_map(N)
        start = (np.asarray(I.gs).astype(np.int64).tobytes(), (np.asarray(I.ps).astype(np.int64) % 4).tobytes())
        seen = {start}
        frontier = [I]
        depth = 0
        while frontier:
            depth += 1
            nxt = []
            for A in frontier:
                for Gm in G:
                    C = A.compose(Gm)
                    n += 1
                    k = (np.asarray(C.gs).astype(np.int64).tobytes(), (np.asarray(C.ps).astype(np.int64) % 4).tobytes())
                    if k not in seen:
                        seen.add(k)
                        nxt.append(C)
            frontier = nxt
        extra['closure_N%d_states' % N] = len(seen)
        extra['closure_N%d_depth' % N] = depth
        if seen != want:
            viol.append(V('C04/closure', [N], 'closure under library compose has %d maps, %d outside the valid set, %d valid maps unreachable' % (
                len(seen), len(seen - want), len(want - seen))))
        keys |= {hash(k) for k in seen}
    return {'n': n, 'nt': n, 'viol': viol, 'extra': extra, 'keys': keys}


def _gf2_inverse(a):
    """Brute-force independent GF(2) inverse via adjugate-free elimination on Python ints."""
    nn = a.shape[0]
    rows = [int(''.join(str(int(x)) for x in a[i]) + ''.join('1' if i == j else '0' for j in range(nn)), 2) for i in range(nn)]
    for col in range(nn):
        bit = 1 << (2 * nn - 1 - col)
        piv = None
        for r_ in range(col, nn):
            if rows[r_] & bit:
                piv = r_
                break
        if piv is None:
            return None
        rows[col], rows[piv] = rows[piv], rows[col]
        for r_ in range(nn):
            if r_ != col and rows[r_] & bit:
                rows[r_] ^= rows[col]
    out = np.zeros((nn, nn), dtype=np.int64)
    for i in range(nn):
        for j in range(nn):
            out[i, j] = (rows[i] >> (nn - 1 - j)) & 1
    return out


def fn_z2inv(items):
    """item = [n, lo, hi, pkg]: every n x n binary matrix with index in [lo,hi): z2inv returns the
    GF(2) inverse or raises ValueError exactly when the matrix is singular."""
    cnt = nt = 0
    viol = []
    for nn, lo, hi, pkg in items:
        f = lib.pu.z2inv if pkg == 'py' else lib.torch_mods()['tu'].z2inv
        for code in range(lo, hi):
            bits = [(code >> k) & 1 for k in range(nn * nn - 1, -1, -1)]
            a = np.array(bits, dtype=lib.INT).reshape(nn, nn)
            want = _gf2_inverse(a)
            cnt += 1
            try:
                got = f(a.copy())
            except ValueError:
                got = 'ValueError'
            except Exception as e:
                got = type(e).__name__
            if want is None:
                if not isinstance(got, str) or got != 'ValueError':
                    viol.append(V('C04/z2inv/%s/singular-not-rejected' % pkg, [nn, code, code + 1, pkg], 'singular matrix %s: z2inv returned %s' % (a.tolist(), got if isinstance(got, str) else np.asarray(got).tolist())))
            else:
                nt += 1
                if isinstance(got, str) or (np.asarray(got) % 2 != want).any():
                    viol.append(V('C04/z2inv/%s/wrong-inverse' % pkg, [nn, code, code + 1, pkg], 'z2inv(%s) = %s, true inverse %s' % (a.tolist(), got if isinstance(got, str) else np.asarray(got).tolist(), want.tolist())))
    return {'n': cnt, 'nt': nt, 'viol': viol}


def legs(tier):
    out = []
    dom.valid_maps(1)
    dom.valid_maps(2)
    gens(1)
    gens(2)
    out.append(Leg('N1_all', fn_n1, [['py', i] for i in range(24)], chunk=2, src_states=24, bound='N=1: all 24^2 pairs, all 24^3 triples, inverse, neutrality, anti-homomorphism'))
    blk = 45
    out.append(Leg('N2_gens', fn_n2, [['py', lo, lo + blk] for lo in range(0, 11520, blk)], chunk=1, src_states=11520,
                   bound='N=2: all 11520 maps: inverse (two-sided, reference + library), neutrality, compose with 10 generators on both sides, anti-homomorphism'))
    hstep = 40 if tier == 'quick' else 4
    out.append(Leg('histories', fn_history, [[1, i, i + 1] for i in range(24)] + [[2, lo, lo + 1] for lo in range(0, 11520, hstep)], chunk=4,
                   bound='one live map object: inverse -> in-place rotate_by / transform_by -> inverse, compose again; all 24 maps of N=1, every %dth of the 11520 maps of N=2, x (a third of the generators rotating with the map index + 10 generator maps)' % hstep))
    from .c03 import fn_maps_n3
    out.append(Leg('N3_bfs', fn_maps_n3, [[r_, 3, 400] for r_ in range(12)] if tier == 'quick' else [[r_, 6, 20000] for r_ in range(18)], chunk=1, exhaustive=False, supplementary=True,
                   bound='N=3: BFS under the library compose from each generator (depth 3 / 400 maps per root; thorough depth 6 / 20000): compose vs reference, inverse two-sided, validity, action on all 256 strings'))
    sp = [[pkg, N, kind] for pkg in ('py', 'torch') for kind in ('perm', 'pauli', 'kept') for N in ((1, 2, 3, 4) if kind != 'pauli' else (1, 2, 3))]
    out.append(Leg('special_operands', fn_special, sp, chunk=1,
                   bound='both packages: every qubit-relabeling map of N<=4 (x2 sign patterns) as first / second operand against generators and scrambled maps; sign-only and identity operands N<=3 with the result '
                         'overwritten in place afterwards; inverses / compositions of N<=4 maps kept and re-read after later calls, inverse of an inverse'))
    out.append(Leg('closure', fn_closure, [[1], [2]], chunk=1, bound='BFS closure under the library compose = the enumerated group (24 / 11520)'))
    z = [[2, 0, 16, 'py']] + [[4, lo, lo + 4096, 'py'] for lo in range(0, 65536, 4096)]
    out.append(Leg('z2inv', fn_z2inv, z, chunk=1, bound='all 16 2x2 and all 65536 4x4 binary matrices (20160 invertible, 45376 singular)'))
    if tier != 'quick':
        out.append(Leg('N2_allpairs', fn_allpairs, [[lo, lo + 20] for lo in range(0, 11520, 20)], chunk=1, src_states=11520,
                       bound='N=2: ALL 11520^2 = 132 710 400 ordered pairs', timeout=7200))
        z6 = [[3, lo, lo + 32, 'py'] for lo in range(0, 512, 32)]
        out.append(Leg('z2inv_3x3', fn_z2inv, z6, chunk=4, bound='all 512 3x3 binary matrices'))
    from .. import circ as _circ
    _circ.warmup('py')
    cm = [['py', N, it[1]] for N in (2, 3) for it in _circ.programs('py', N, 3 if N == 2 else 2) if len(it[1]) >= 1]
    out.append(Leg('compiled_maps', fn_compiled_maps, cm, chunk=32,
                   bound='maps built by compile() (compose/inverse in use): all programs of <=3 gates (N=2) / <=2 gates (N=3) over the C09 alphabets: circuit, layer and gate level forward/backward maps mutually inverse, circuit forward map = reference composition'))
    _circ.warmup('torch')
    cmt = [['torch', N, it[1]] for N in (2, 3) for it in _circ.programs('torch', N, 2) if len(it[1]) >= 1] + [['torch', 2, list(w)] for w in itertools.product(range(4), repeat=3)]
    out.append(Leg('compiled_maps_torch', fn_compiled_maps, cmt, chunk=4,
                   bound='torchclifford: the same for all programs of <=2 gates (N=2,3) and 64 three-gate programs'))
    out.append(Leg('torch_N1', fn_n1, [['torch', i] for i in range(24)], chunk=2, bound='torchclifford N=1: all pairs, inverse'))
    tstep = 16 if tier == 'quick' else 2
    out.append(Leg('torch_N2', fn_n2, [['torch', lo, lo + 1] for lo in range(0, 11520, tstep)], chunk=4,
                   bound='torchclifford N=2: every %dth map: inverse, compose with 10 generators on both sides' % tstep))
    return out
