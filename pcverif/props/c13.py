"""C13 torchclifford computes the same results as pyclifford (port equivalence).

Differential exhaustive exploration: the same enumerated well-formed inputs are pushed through
both packages (pyclifford = reference) and the returned REPRESENTATIONS are compared: Pauli
strings (bit arrays), phases mod 4, ranks, numbers (rtol 1e-5, dyadic coefficients so that
complex64 is exact).  Kernel level: same-named functions of the two utils modules.  Class
level: parsing, Pauli/PauliList/PauliPolynomial algebra, rotations and transforms (with and
without masks), Clifford maps, stabilizer states, gates/layers/circuits.

Every compared call is a "case"; a case is identified by (leg item, running case number), so a
violation's item = leg item + [case number] and the replay re-executes exactly that case.
Signature = C13/<level>/<function>/<kind>; <kind> names the semantic class of the input
(computed from the input / the reference side only), plus ':torch-raises-<Exc>' when pyclifford
returns a value and torchclifford raises."""
import itertools
import numpy as np
from .. import ref, dom, lib, stab
from ..core import Leg, V

PROP = 'C13'
RULE = ('differential: every enumerated well-formed input is executed on pyclifford (reference) and on torchclifford, '
        'results compared field by field (strings exactly, phases mod 4, ranks exactly, numbers rtol 1e-5); one '
        'transition = one pair of real calls compared; non-trivial = the operation takes a non-default branch '
        '(anticommuting operands, non-zero phases, mixed tableau, non-trivial mask ...) as flagged per case; '
        'states = distinct leg items (operands / maps / tableaux / programs)')
ASSUMPTIONS = ['pyclifford is the reference: where pyclifford itself raises there is no value to compare (counted, not judged)',
               'CPU only, float32 / complex64 tensors, dyadic coefficients (exact in complex64)',
               'bounded to N<=2 complete (N=3 for position dependent control flow), measurement excluded (nondeterministic, not in the statement)',
               'term order of polynomials and dtype / container type are representation details: results are compared as '
               '(strings, phases mod 4, coefficients) in the order returned']

CPOOL = [1.0, -0.5, 1j, 1 + 2j, 2.5, -2j, 0.25 - 1j]      # dyadic, |c| >= 0.25 >> both reduce tolerances


# ------------------------------------------------------------------------------ plumbing
def TM():
    return lib.torch_mods()


def _np(x):
    """library value -> numpy array (tensors detached, lists of tensors stacked)."""
    if lib._tc is not None and lib._tc['torch'].is_tensor(x):
        return x.detach().cpu().numpy()
    if isinstance(x, (list, tuple)) and len(x) and lib._tc is not None and lib._tc['torch'].is_tensor(x[0]):
        return np.array([t.detach().cpu().numpy() for t in x])
    return np.asarray(x)


def _int(x):
    """exact integer view of a value (float tensors holding integers -> int64); non-integral
    values are returned unchanged so that the comparison fails visibly."""
    a = _np(x)
    if a.dtype == bool:
        return a.astype(np.int64)
    if a.dtype == object:
        return a
    if np.iscomplexobj(a):
        if a.size and np.any(a.imag != 0):
            return a
        a = a.real
    if a.dtype.kind in 'iu':
        return a.astype(np.int64)
    r = np.rint(a)
    if a.size and not np.array_equal(a, r):
        return a.astype(float)
    return r.astype(np.int64)


def fdiff(fa, fb):
    """Compare two field lists [(name, type, value)...]: type 'g' exact ints, 'p' ints mod 4,
    'r' exact scalar int, 'x' numbers (rtol 1e-5).  Returns None or (field, row index, text)."""
    if len(fa) != len(fb):
        return ('structure', None, 'different number of result fields %d vs %d' % (len(fa), len(fb)))
    for (na, ka, a), (nb, kb, b) in zip(fa, fb):
        if ka == 'x':
            A = np.asarray(_np(a), dtype=complex)
            B = np.asarray(_np(b), dtype=complex)
        else:
            A, B = _int(a), _int(b)
        if ka == 'r':
            A, B = np.squeeze(A), np.squeeze(B)
        if A.shape != B.shape:
            return (na, None, '%s: shape %s vs %s' % (na, A.shape, B.shape))
        if ka == 'x':
            bad = ~np.isclose(B, A, rtol=1e-5, atol=1e-6)
        elif ka == 'p':
            if A.dtype.kind not in 'iu' or B.dtype.kind not in 'iu':
                bad = np.ones(A.shape, dtype=bool) if A.size else np.zeros(A.shape, dtype=bool)
            else:
                bad = (A % 4) != (B % 4)
        else:
            if A.dtype.kind != B.dtype.kind:
                bad = np.ones(A.shape, dtype=bool) if A.size else np.zeros(A.shape, dtype=bool)
            else:
                bad = A != B
        bad = np.asarray(bad)
        if bad.any():
            idx = np.argwhere(bad)[0]
            row = int(idx[0]) if len(idx) else None
            return (na, row, '%s%s: pyclifford %s, torchclifford %s' % (
                na, list(map(int, idx)), np.asarray(A)[tuple(idx)], np.asarray(B)[tuple(idx)]))
    return None


def fjson(f):
    if f is None:
        return None
    out = {}
    for n, k, v in f:
        a = _int(v) if k != 'x' else np.asarray(_np(v), dtype=complex)
        if k == 'p' and getattr(a, 'dtype', None) is not None and a.dtype.kind in 'iu':
            a = a % 4
        out[n] = a
    return out


# both packages raising is agreement only where no value is required: explicit refusals
REFUSALS = (NotImplementedError,)


class Acc(object):
    """Per-item accumulator.  run() executes one differential case."""

    def __init__(self, item, sel=None):
        self.item = list(item)
        self.sel = sel
        self.cid = 0
        self.n = self.nt = 0
        self.viol = []
        self.extra = {}
        self.samples = []
        self.sigs = {}

    def report(self, sig, it, mk):
        """record at most one violation per signature and item (the rest is counted): the expected
        divergences hit hundreds of thousands of cases and each record costs a description."""
        c = self.sigs.get(sig, 0)
        self.sigs[sig] = c + 1
        if c == 0:
            self.viol.append(V(sig, it, *mk()))
        else:
            self.count('further_cases:' + sig)

    def count(self, k, d=1):
        self.extra[k] = self.extra.get(k, 0) + d

    def skip(self):
        """advance the case counter; True if this case is to be executed."""
        c = self.cid
        self.cid += 1
        return self.sel is None or c == self.sel

    def run(self, level, func, kind, label, py, tq, nt=True, both_raise_ok=False):
        """kind: str or callable(field, row) -> str (row = first differing row of the result,
        used to classify the failing INPUT row); label: str or callable() -> str."""
        if not self.skip():
            return None
        cid = self.cid - 1
        self.n += 1
        self.nt += 1 if nt else 0
        ea = eb = None
        a = b = None
        try:
            a = py()
        except Exception as e:      # noqa
            ea = e
        try:
            b = tq()
        except Exception as e:      # noqa
            eb = e
        it = self.item + [cid]
        if ea is not None:
            if eb is not None:
                self.count('both_raise')
                if both_raise_ok or (isinstance(ea, REFUSALS) and isinstance(eb, REFUSALS)):
                    return None
                k = kind('raise', None) if callable(kind) else kind
                self.report('C13/%s/%s/%s:both-raise-%s' % (level, func, k, type(ea).__name__), it, lambda: (
                    '%s: pyclifford raised %s (%s), torchclifford raised %s (%s); the property requires a value here' % (
                        label() if callable(label) else label, type(ea).__name__, str(ea)[:120], type(eb).__name__, str(eb)[:120]),))
                return None
            self.count('pyclifford_raises_no_reference')
            self.count('pyclifford_raises:%s/%s' % (func, type(ea).__name__))
            return None
        if eb is not None:
            k = kind('raise', None) if callable(kind) else kind
            self.report('C13/%s/%s/%s:torch-raises-%s' % (level, func, k, type(eb).__name__), it, lambda: (
                '%s: pyclifford returns a value, torchclifford raises %s: %s' % (
                    label() if callable(label) else label, type(eb).__name__, str(eb)[:200]),
                'raises %s' % type(eb).__name__, fjson(a)))
            return None
        d = fdiff(a, b)
        if d is not None:
            k = kind(d[0], d[1]) if callable(kind) else kind
            self.report('C13/%s/%s/%s' % (level, func, k), it, lambda: (
                '%s: %s' % (label() if callable(label) else label, d[2]), fjson(b), fjson(a)))
        return a

    def out(self):
        return {'n': self.n, 'nt': self.nt, 'viol': self.viol, 'extra': self.extra, 'samples': self.samples}


def split(item, k):
    """item = k leg fields (+ optional case selector)."""
    item = list(item)
    return item[:k], (item[k] if len(item) > k else None)


def merge_out(outs):
    tot = {'n': 0, 'nt': 0, 'viol': [], 'extra': {}, 'samples': []}
    for o in outs:
        tot['n'] += o['n']
        tot['nt'] += o['nt']
        tot['viol'] += o['viol']
        for k, v in o['extra'].items():
            tot['extra'][k] = tot['extra'].get(k, 0) + v
        if len(tot['samples']) < 2:
            tot['samples'] += o['samples'][:1]
    return tot


def I(a):
    return np.array(a, dtype=lib.INT)


def T(a):
    return lib.tT(a)


def allp(N):
    """all group elements as arrays (Gs, Ps), phase-major."""
    G = ref.all_g(N)
    return np.concatenate([G] * 4), np.repeat(np.arange(4), len(G))


def gstr(g, p=None):
    return ref.g_to_str(np.asarray(g), p)


# ------------------------------------------------------------------------------ kernel legs
def fn_k_pair(items):
    """item = [N, i1]: acq / ipow on every ordered pair (scalar form) and row-broadcast form."""
    tu, pu = TM()['tu'], lib.pu
    outs = []
    for item in items:
        (N, i1), sel = split(item, 2)
        acc = Acc([N, i1], sel)
        G = ref.all_g(N)
        a1, t1 = I(G[i1]), T(G[i1])
        tG = T(G)
        A = ref.anti(G[i1][None, :], G)
        x1, z1 = G[i1][0::2], G[i1][1::2]
        kinds = []
        for j, g2 in enumerate(G):
            a2, t2 = I(g2), T(g2)
            ov = bool(((x1 & g2[0::2]) | (z1 & g2[1::2])).any())
            kd = ('anticommuting' if A[j] else 'commuting') + (',overlap(carry)' if ov else ',no-overlap')
            kinds.append(kd)
            lab = '(%s,%s)' % (gstr(G[i1]), gstr(g2))
            acc.run('kernel', 'acq', 'anticommuting' if A[j] else 'commuting', 'acq' + lab,
                    lambda: [('acq', 'r', pu.acq(a1, a2))], lambda: [('acq', 'r', tu.acq(t1, t2))], nt=bool(A[j]))
            acc.run('kernel', 'ipow', kd, 'ipow' + lab,
                    lambda: [('ipow', 'p', pu.ipow(a1, a2))], lambda: [('ipow', 'p', tu.ipow(t1, t2))], nt=bool(A[j]) or ov)
        Gi = [I(g) for g in G]
        acc.run('kernel', 'acq', lambda f, r: 'rows,' + ('anticommuting' if r is not None and A[r] else 'commuting'),
                'acq(%s, all strings)' % gstr(G[i1]),
                lambda: [('acq', 'g', [pu.acq(a1, g) for g in Gi])], lambda: [('acq', 'g', tu.acq(t1, tG))])
        acc.run('kernel', 'ipow', lambda f, r: 'rows,' + (kinds[r] if r is not None else 'shape'),
                'ipow(%s, all strings)' % gstr(G[i1]),
                lambda: [('ipow', 'p', [pu.ipow(a1, g) for g in Gi])], lambda: [('ipow', 'p', tu.ipow(t1.unsqueeze(0), tG))])
        if not acc.samples and i1 == 3:
            acc.samples.append({'N': N, 'left': gstr(G[i1]), 'right': gstr(G[-1]), 'acq': int(A[-1]), 'kinds': sorted(set(kinds))})
        outs.append(acc.out())
    return merge_out(outs)


def fn_k_lists(items):
    """item = [N, fname, i]: list-valued kernels ps0, acq_mat, batch_dot, pauli_tokenize."""
    tu, pu, torch = TM()['tu'], lib.pu, TM()['torch']
    outs = []
    for item in items:
        (N, fname, i), sel = split(item, 3)
        acc = Acc([N, fname, i], sel)
        G = ref.all_g(N)
        Gs, Ps = allp(N)
        if fname == 'ps0':
            ov = (G[:, 0::2] & G[:, 1::2]).sum(-1)
            acc.run('kernel', 'ps0', lambda f, r: 'rows,#Y=%d' % (ov[r] % 4) if r is not None else 'shape', 'ps0(all strings)',
                    lambda: [('ps0', 'p', pu.ps0(I(G)))], lambda: [('ps0', 'p', tu.ps0(T(G)))])
            for j, g in enumerate(G):
                acc.run('kernel', 'ps0', '#Y=%d' % (ov[j] % 4), 'ps0([%s])' % gstr(g),
                        lambda: [('ps0', 'p', pu.ps0(I([g])))], lambda: [('ps0', 'p', tu.ps0(T([g])))], nt=bool(ov[j]))
        elif fname == 'acq_mat':
            lists = [[i, j] for j in range(len(G))]
            if N == 1:
                lists += [[i, j, k] for j in range(4) for k in range(4)]
            if i == 0:
                lists.append(list(range(len(G))))
                lists.append([0])
            for idx in lists:
                gs = G[idx]
                anyanti = bool(ref.anti_mat(gs).any())
                acc.run('kernel', 'acq_mat', 'L=%s,%s' % (len(idx) if len(idx) < 4 else 'all', 'some-anticommute' if anyanti else 'all-commute'),
                        'acq_mat(%s)' % [gstr(g) for g in gs[:4]],
                        lambda: [('mat', 'g', pu.acq_mat(I(gs)))], lambda: [('mat', 'g', tu.acq_mat(T(gs)))], nt=anyanti)
        elif fname == 'batch_dot':
            M = len(Gs)
            cs_all = np.array([CPOOL[k % len(CPOOL)] for k in range(M)])
            g1s = np.array([G[i]] * 4)
            p1s = np.arange(4)
            c1s = np.array([CPOOL[(i + k) % len(CPOOL)] for k in range(4)])

            def bd_py(a, b):
                r = pu.batch_dot(I(a[0]), I(a[1]), np.array(a[2], dtype=np.complex128), I(b[0]), I(b[1]), np.array(b[2], dtype=np.complex128))
                return [('gs', 'g', r[0]), ('ps', 'p', r[1]), ('cs', 'x', r[2])]

            def bd_t(a, b):
                c64 = lambda c: torch.tensor(np.array(c, dtype=np.complex64))
                r = tu.batch_dot(T(a[0]), T(a[1]), c64(a[2]), T(b[0]), T(b[1]), c64(b[2]))
                return [('gs', 'g', r[0]), ('ps', 'p', r[1]), ('cs', 'x', r[2])]
            left, right = (g1s, p1s, c1s), (Gs, Ps, cs_all)
            acc.run('kernel', 'batch_dot', lambda f, r: 'left=4-terms,right=group:' + f, 'batch_dot(4 terms of %s, whole group)' % gstr(G[i]),
                    lambda: bd_py(left, right), lambda: bd_t(left, right))
            acc.run('kernel', 'batch_dot', lambda f, r: 'left=group,right=4-terms:' + f, 'batch_dot(whole group, 4 terms of %s)' % gstr(G[i]),
                    lambda: bd_py(right, left), lambda: bd_t(right, left))
            one = (G[i:i + 1], np.array([3]), np.array([1 + 2j]))
            acc.run('kernel', 'batch_dot', lambda f, r: 'left=1-term,right=1-term:' + f, 'batch_dot(1 term, 1 term)',
                    lambda: bd_py(one, one), lambda: bd_t(one, one))
            if i == 0:
                acc.run('kernel', 'batch_dot', lambda f, r: 'group-x-group:' + f, 'batch_dot(whole group, whole group)',
                        lambda: bd_py(right, right), lambda: bd_t(right, right))
        elif fname == 'pauli_tokenize':
            acc.run('kernel', 'pauli_tokenize', lambda f, r: 'rows,p=%d' % Ps[r] if r is not None else 'shape', 'pauli_tokenize(whole group)',
                    lambda: [('ts', 'g', pu.pauli_tokenize(I(Gs), I(Ps)))], lambda: [('ts', 'g', tu.pauli_tokenize(T(Gs), T(Ps)))])
            for j in range(len(Gs)):
                acc.run('kernel', 'pauli_tokenize', 'p=%d' % Ps[j], 'pauli_tokenize([%s])' % gstr(Gs[j], Ps[j]),
                        lambda: [('ts', 'g', pu.pauli_tokenize(I(Gs[j:j + 1]), I(Ps[j:j + 1])))],
                        lambda: [('ts', 'g', tu.pauli_tokenize(T(Gs[j:j + 1]), T(Ps[j:j + 1])))], nt=bool(Ps[j]))
        outs.append(acc.out())
    return merge_out(outs)


def fn_k_combine(items):
    """item = [N, i1, p1]: pauli_combine.  N=1: all ordered triples of (string, phase) with first string
    fixed x all 8 selection rows; N=2: all 64 x 64 ordered pairs x 4 selection rows."""
    tu, pu = TM()['tu'], lib.pu
    outs = []
    for item in items:
        (N, i1, p1), sel = split(item, 3)
        acc = Acc([N, i1, p1], sel)
        G = ref.all_g(N)
        Gs, Ps = allp(N)
        if N == 1:
            C = np.array([[(k >> 2) & 1, (k >> 1) & 1, k & 1] for k in range(8)])
            rest = [(j, k) for j in range(len(Gs)) for k in range(len(Gs))]
        else:
            C = np.array([[1, 1], [1, 0], [0, 1], [0, 0]])
            rest = [(j,) for j in range(len(Gs))]
        tC, iC = T(C), I(C)
        if True:
            for idx in rest:
                gs = np.array([G[i1]] + [Gs[j] for j in idx])
                ps = np.array([p1] + [Ps[j] for j in idx])
                anti = bool(ref.anti_mat(gs).any())
                acc.run('kernel', 'pauli_combine', 'anticommuting-rows' if anti else 'commuting-rows',
                        lambda: 'pauli_combine(C=%s, %s)' % (C.tolist(), [gstr(g, p) for g, p in zip(gs, ps)]),
                        lambda: (lambda r: [('gs', 'g', r[0]), ('ps', 'p', r[1])])(pu.pauli_combine(iC, I(gs), I(ps))),
                        lambda: (lambda r: [('gs', 'g', r[0]), ('ps', 'p', r[1])])(tu.pauli_combine(tC, T(gs), T(ps))),
                        nt=anti or bool(ps.any()))
        outs.append(acc.out())
    return merge_out(outs)


def _maps_for(N, tier, per=2):
    """indices into dom.valid_maps(N): all for N=1 / thorough.  quick N=2: every one of the 720 tables
    with per=1: one sign pattern that rotates with the table index through all 16 patterns;
    per=2: additionally the all-plus pattern (or the all-minus one where the rotating one is all-plus)."""
    if N == 1 or tier != 'quick':
        return list(range(len(dom.valid_maps(N))))
    ns = 4 ** N
    out = []
    for t in range(len(dom.symplectic_tables(N))):
        out.append(t * ns + t % ns)
        if per == 2:
            out.append(t * ns + (0 if t % ns else ns - 1))
    return out


def fn_k_transform(items):
    """item = [N, map index]: pauli_transform of the whole group (all 4 phases) by a valid map;
    map_to_state / state_to_map on the same arrays (signs of the map and a 0..3 phase ramp)."""
    tu, pu = TM()['tu'], lib.pu
    outs = []
    for item in items:
        (N, mi), sel = split(item, 2)
        acc = Acc([N, mi], sel)
        gm, pm = dom.valid_maps(N)[mi]
        Gs, Ps = allp(N)
        ov = (Gs[:, 0::2] & Gs[:, 1::2]).sum(-1)

        def kd(f, r):
            if r is None:
                return 'shape'
            return ('input-with-Y' if ov[r] else 'input-without-Y') + ',' + ('signed-map' if pm.any() else 'unsigned-map')
        acc.run('kernel', 'pauli_transform', kd, lambda: 'pauli_transform(whole group, map %s)' % [gstr(g, p) for g, p in zip(gm, pm)],
                lambda: (lambda r: [('gs', 'g', r[0]), ('ps', 'p', r[1])])(pu.pauli_transform(I(Gs), I(Ps), I(gm), I(pm))),
                lambda: (lambda r: [('gs', 'g', r[0]), ('ps', 'p', r[1])])(tu.pauli_transform(T(Gs), T(Ps), T(gm), T(pm))))
        ramp = np.arange(2 * N) % 4
        for nm, pp in (('map-signs', pm), ('phase-ramp', ramp)):
            acc.run('kernel', 'map_to_state', lambda f, r: nm + ':' + f, 'map_to_state(%s)' % [gstr(g, p) for g, p in zip(gm, pp)],
                    lambda: (lambda r: [('gs', 'g', r[0]), ('ps', 'p', r[1])])(pu.map_to_state(I(gm), I(pp))),
                    lambda: (lambda r: [('gs', 'g', r[0]), ('ps', 'p', r[1])])(tu.map_to_state(T(gm), T(pp))))
            acc.run('kernel', 'state_to_map', lambda f, r: nm + ':' + f, 'state_to_map(%s)' % [gstr(g, p) for g, p in zip(gm, pp)],
                    lambda: (lambda r: [('gs', 'g', r[0]), ('ps', 'p', r[1])])(pu.state_to_map(I(gm), I(pp))),
                    lambda: (lambda r: [('gs', 'g', r[0]), ('ps', 'p', r[1])])(tu.state_to_map(T(gm), T(pp))))
        outs.append(acc.out())
    return merge_out(outs)


def fn_k_rotate(items):
    """item = [N, gi]: clifford_rotate / clifford_rotate_signless by generator +-G[gi] on the whole group."""
    tu, pu = TM()['tu'], lib.pu
    outs = []
    for item in items:
        (N, gi), sel = split(item, 2)
        acc = Acc([N, gi], sel)
        G = ref.all_g(N)
        Gs, Ps = allp(N)
        A = ref.anti(G[gi][None, :], Gs)

        def kd(f, r):
            return 'shape' if r is None else ('anticommuting-row' if A[r] else 'commuting-row')
        for p in (0, 2):
            acc.run('kernel', 'clifford_rotate', lambda f, r: kd(f, r) + ',p=%d' % p, 'clifford_rotate(%s, whole group)' % gstr(G[gi], p),
                    lambda: (lambda r: [('gs', 'g', r[0]), ('ps', 'p', r[1])])(pu.clifford_rotate(I(G[gi]), p, I(Gs), I(Ps))),
                    lambda: (lambda r: [('gs', 'g', r[0]), ('ps', 'p', r[1])])(tu.clifford_rotate(T(G[gi]), p, T(Gs), T(Ps))))
        acc.run('kernel', 'clifford_rotate_signless', kd, 'clifford_rotate_signless(%s, all strings)' % gstr(G[gi]),
                lambda: [('gs', 'g', pu.clifford_rotate_signless(I(G[gi]), I(G)))],
                lambda: [('gs', 'g', tu.clifford_rotate_signless(T(G[gi]), T(G)))])
        outs.append(acc.out())
    return merge_out(outs)


# ---- projection kernels
def step_kind(gs, ps, r, g, p=None):
    """Semantic class of projecting observable g onto tableau (gs, ps, r) - from the input only."""
    gs = np.asarray(gs)
    N = gs.shape[1] // 2
    A = ref.anti(gs, np.asarray(g)[None, :])
    purity = 'pure' if r == 0 else 'mixed'
    sb_st, act, sb_de = bool(A[:r].any()), bool(A[r:N].any()), bool(A[N:N + r].any())
    if act and sb_st:
        return purity + ',standby-and-active-anticommute'
    if act:
        return purity + ',pivot=active-stabilizer'
    if sb_st:
        return purity + ',pivot=standby-stabilizer'
    if sb_de:
        return purity + ',pivot=standby-destabilizer'
    # eigen-observable: a product of the active stabilizers whose destabilizers anticommute
    rows = [j for j in range(r, N) if A[N + j]]
    if ps is None:
        return purity + ',eigen'
    acc_g = np.zeros(2 * N, dtype=np.int64)
    cross = 0
    for j in rows:
        acc_g, ph = ref.mul(acc_g, 0, gs[j], 0)
        cross = (cross + int(ph)) % 4
    return 'eigen,%s' % ('generator-product-carries-phase' if cross else ('single-generator' if len(rows) == 1 else (
        'identity' if not rows else 'phase-free-generator-product')))


def _gs_tabs(N):
    """(table, r) pairs: stabilizer_project does not read phases."""
    out = []
    for t in dom.symplectic_tables(N):
        gs, _ = dom.map_to_tableau(t, np.zeros(2 * N, dtype=np.int64))
        for r in range(N + 1):
            out.append((gs, r))
    return out


_GT = {}


def gs_tabs(N):
    if N not in _GT:
        _GT[N] = _gs_tabs(N)
    return _GT[N]


def _localise(run_py, run_t, L):
    """first list position at which the two kernels (run on prefixes) differ."""
    for k in range(1, L + 1):
        try:
            a = run_py(k)
        except Exception:
            return k - 1
        try:
            b = run_t(k)
        except Exception:
            return k - 1
        if fdiff(a, b) is not None:
            return k - 1
    return L - 1


def fn_k_project(items):
    """item = [N, ti, mode]: stabilizer_project on tableau (table, r) #ti.  mode 1: every single
    observable string; mode 2: every ordered independent commuting pair."""
    tu, pu = TM()['tu'], lib.pu
    outs = []
    for item in items:
        (N, ti, mode), sel = split(item, 3)
        acc = Acc([N, ti, mode], sel)
        gs0, r0 = gs_tabs(N)[ti]
        G = ref.all_g(N)
        lists = [[j] for j in range(len(G))] if mode == 1 else [list(c) for c in dom.commuting_lists(N, 2)]
        for idx in lists:
            obs = G[idx]

            def rp(k=len(idx)):
                r = pu.stabilizer_project(I(gs0), I(obs[:k]), r0)
                return [('gs', 'g', r[0]), ('r', 'r', r[1])]

            def rt(k=len(idx)):
                r = tu.stabilizer_project(T(gs0), T(obs[:k]), r0)
                return [('gs', 'g', r[0]), ('r', 'r', r[1])]

            def kd(f, row):
                k = _localise(rp, rt, len(idx)) if len(idx) > 1 else 0
                if k == 0:
                    return step_kind(gs0, None, r0, obs[0])
                mid = pu.stabilizer_project(I(gs0), I(obs[:k]), r0)
                return step_kind(mid[0], None, int(mid[1]), obs[k])
            k0 = step_kind(gs0, None, r0, obs[0])
            acc.run('kernel', 'stabilizer_project', kd,
                    lambda: 'stabilizer_project(%s, %s)' % (stab.describe(gs0, np.zeros(2 * N, dtype=int), r0), [gstr(g) for g in obs]),
                    rp, rt, nt=not k0.endswith('eigen'))
        if not acc.samples and ti % 101 == 7:
            acc.samples.append({'N': N, 'tableau': stab.describe(gs0, np.zeros(2 * N, dtype=int), r0), 'observables': len(lists), 'mode': mode})
        outs.append(acc.out())
    return merge_out(outs)


def _tabs_for(N, tier, per=1):
    """indices into stab.tableaux(N) (map-major, r-minor) for the maps of _maps_for."""
    return [m * (N + 1) + r for m in _maps_for(N, tier, per) for r in range(N + 1)]


def _rep_tabs(N):
    """one tableau index per distinct density matrix (7 / 91)."""
    return sorted(stab.representatives(N, 0))


def fn_k_trace(items):
    """item = [N, tableau index, mode]: stabilizer_projection_trace; mode 1 = every signed Hermitian
    observable, mode 2 = every ordered independent commuting pair with signs (+,+) and (-,+)."""
    tu, pu = TM()['tu'], lib.pu
    outs = []
    for item in items:
        (N, ti, mode), sel = split(item, 3)
        acc = Acc([N, ti, mode], sel)
        gs0, ps0, r0 = stab.tableaux(N)[ti]
        G = ref.all_g(N)
        if mode == 1:
            lists = [([j], [p]) for j in range(len(G)) for p in (0, 2)]
        else:
            lists = [(list(c), [pa, 0]) for c in dom.commuting_lists(N, 2) for pa in (0, 2)]
        for idx, pp in lists:
            obs, po = G[idx], np.array(pp)

            def rp(k=len(idx)):
                r = pu.stabilizer_projection_trace(I(gs0), I(ps0), I(obs[:k]), I(po[:k]), r0)
                return [('gs', 'g', r[0]), ('ps', 'p', r[1][:N]), ('r', 'r', r[2]), ('trace', 'x', r[3])]

            def rt(k=len(idx)):
                r = tu.stabilizer_projection_trace(T(gs0), T(ps0), T(obs[:k]), T(po[:k]), r0)
                return [('gs', 'g', r[0]), ('ps', 'p', r[1][:N]), ('r', 'r', r[2]), ('trace', 'x', r[3])]

            def kd(f, row):
                k = _localise(rp, rt, len(idx)) if len(idx) > 1 else 0
                if k == 0:
                    return step_kind(gs0, ps0, r0, obs[0])
                mid = pu.stabilizer_projection_trace(I(gs0), I(ps0), I(obs[:k]), I(po[:k]), r0)
                return step_kind(mid[0], mid[1], int(mid[2]), obs[k])
            k0 = step_kind(gs0, ps0, r0, obs[0])
            acc.run('kernel', 'stabilizer_projection_trace', kd,
                    lambda: 'stabilizer_projection_trace(%s, %s)' % (stab.describe(gs0, ps0, r0), [gstr(g, p) for g, p in zip(obs, po)]),
                    rp, rt, nt=not k0.startswith('eigen,identity'))
        outs.append(acc.out())
    return merge_out(outs)


def fn_k_expect(items):
    """item = [N, tableau index, mode]: stabilizer_expect and vectorizable_stabilizer_expect (torch) against
    pyclifford stabilizer_expect.  Observables: the whole group with all 4 phases (64 rows at N=2); in
    mode 'q' the (python-loop, 40 ms) vectorizable kernel gets every string once with a phase that
    rotates with string and tableau index."""
    tu, pu = TM()['tu'], lib.pu
    outs = []
    for item in items:
        (N, ti, mode), sel = split(item, 3)
        acc = Acc([N, ti, mode], sel)
        gs0, ps0, r0 = stab.tableaux(N)[ti]
        Gs, Ps = allp(N)
        G = ref.all_g(N)
        Pq = (np.arange(len(G)) + ti) % 4

        def kdf(gsx, psx):
            def kd(f, row):
                if row is None:
                    return 'shape'
                k = step_kind(gs0, ps0, r0, gsx[row])
                return ('eigen' if k.startswith('eigen') else 'zero-expectation') + ',' + ('hermitian' if psx[row] % 2 == 0 else 'phase-odd')
            return kd
        lab = lambda: 'stabilizer_expect(%s, whole group)' % (stab.describe(gs0, ps0, r0),)
        acc.run('kernel', 'stabilizer_expect', kdf(Gs, Ps), lab,
                lambda: [('xs', 'g', pu.stabilizer_expect(I(gs0), I(ps0), I(Gs), I(Ps), r0))],
                lambda: [('xs', 'g', tu.stabilizer_expect(T(gs0), T(ps0), T(Gs), T(Ps), r0))])
        go, po = (Gs, Ps) if mode == 'f' else (G, Pq)
        acc.run('kernel', 'vectorizable_stabilizer_expect', kdf(go, po), lab,
                lambda: [('xs', 'g', pu.stabilizer_expect(I(gs0), I(ps0), I(go), I(po), r0))],
                lambda: [('xs', 'g', tu.vectorizable_stabilizer_expect(T(gs0), T(ps0), T(go), T(po), r0))])
        outs.append(acc.out())
    return merge_out(outs)


def _stab_lists(N):
    """all ordered independent commuting lists of length 0..N (index tuples)."""
    out = [()]
    for L in range(1, N + 1):
        out += list(dom.commuting_lists(N, L))
    return out


def fn_k_entropy(items):
    """item = [N, lo, hi]: stabilizer_entropy(list, mask) for lists #lo..hi-1 of _stab_lists(N) x all 2^N masks."""
    tu, pu, torch = TM()['tu'], lib.pu, TM()['torch']
    outs = []
    for item in items:
        (N, lo, hi), sel = split(item, 3)
        acc = Acc([N, lo, hi], sel)
        G = ref.all_g(N)
        lists = _stab_lists(N)[lo:hi]
        masks = list(itertools.product((False, True), repeat=N))
        for idx in lists:
            gs = G[list(idx)].reshape(len(idx), 2 * N)
            for m in masks:
                mk = np.array(m, dtype=np.bool_)
                kind = ('pure' if len(idx) == N else 'mixed') + ',' + ('empty-mask' if not mk.any() else ('full-mask' if mk.all() else 'proper-subsystem'))
                acc.run('kernel', 'stabilizer_entropy', kind, lambda: 'stabilizer_entropy(%s, %s)' % ([gstr(g) for g in gs], mk.tolist()),
                        lambda: [('S', 'r', pu.stabilizer_entropy(I(gs).reshape(len(idx), 2 * N), mk.copy()))],
                        lambda: [('S', 'r', tu.stabilizer_entropy(T(gs).reshape(len(idx), 2 * N), torch.tensor(mk)))],
                        nt=mk.any() and not mk.all())
        outs.append(acc.out())
    return merge_out(outs)


def _mats(nr, nc, lo, hi):
    for k in range(lo, hi):
        yield k, np.array([(k >> b) & 1 for b in range(nr * nc)], dtype=np.int64).reshape(nr, nc)


def fn_k_z2(items):
    """item = [fname, nr, nc, lo, hi]: z2rank / z2inv on the binary matrices #lo..hi-1 of shape nr x nc."""
    tu, pu = TM()['tu'], lib.pu
    outs = []
    for item in items:
        (fname, nr, nc, lo, hi), sel = split(item, 5)
        acc = Acc([fname, nr, nc, lo, hi], sel)
        mats = _mats(nr, nc, lo, hi) if fname != 'z2inv_sp' else [(k, dom.symplectic_tables(nr // 2)[k]) for k in range(lo, hi)]
        for k, m in mats:
            if fname == 'z2rank':
                rr = int(np.linalg.matrix_rank(m.astype(float)))
                gr = dom.z2_rank(m)
                acc.run('kernel', 'z2rank', 'real-rank%sgf2-rank' % ('=' if rr == gr else '>'), 'z2rank(%s)' % m.tolist(),
                        lambda: [('rank', 'r', pu.z2rank(I(m)))], lambda: [('rank', 'r', tu.z2rank(T(m)))], nt=gr < min(nr, nc))
            else:
                inv = dom.z2_rank(m) == nr
                acc.run('kernel', 'z2inv', 'invertible' if inv else 'singular', 'z2inv(%s)' % m.tolist(),
                        lambda: [('inv', 'g', pu.z2inv(I(m)))], lambda: [('inv', 'g', tu.z2inv(np.array(m, dtype=np.float32)))],
                        nt=inv, both_raise_ok=not inv)
        outs.append(acc.out())
    return merge_out(outs)


def fn_k_misc(items):
    """item = [fname, N]: position dependent helpers on all strings of N qubits with every target qubit:
    front, condense, pauli_is_onsite, pauli_diagonalize1/2, mask, binary_repr, aggregate."""
    tu, pu, torch = TM()['tu'], lib.pu, TM()['torch']
    outs = []
    for item in items:
        (fname, N), sel = split(item, 2)
        acc = Acc([fname, N], sel)
        G = ref.all_g(N) if N <= 4 else None
        if fname == 'front':
            for g in G:
                sup = np.nonzero(g[0::2] | g[1::2])[0]
                kind = 'identity-string' if not len(sup) else 'first-site=%s' % ('0' if sup[0] == 0 else '>0')
                acc.run('kernel', 'front', kind, 'front(%s)' % gstr(g), lambda: [('i', 'r', pu.front(I(g)))], lambda: [('i', 'r', tu.front(T(g)))],
                        nt=len(sup) and sup[0] > 0)
        elif fname == 'condense':
            for g in G:
                sup = np.nonzero(g[0::2] | g[1::2])[0]
                kind = 'identity-string' if not len(sup) else ('full-support' if len(sup) == N else (
                    'contiguous-support' if sup[-1] - sup[0] + 1 == len(sup) else 'non-contiguous-support'))
                acc.run('kernel', 'condense', kind, 'condense(%s)' % gstr(g),
                        lambda: (lambda r: [('g', 'g', r[0]), ('qubits', 'g', r[1])])(pu.condense(I(g))),
                        lambda: (lambda r: [('g', 'g', r[0]), ('qubits', 'g', r[1])])(tu.condense(T(g))), nt=0 < len(sup) < N)
        elif fname == 'pauli_is_onsite':
            for g in G:
                for i0 in range(N):
                    acc.run('kernel', 'pauli_is_onsite', 'i0=%s' % ('0' if i0 == 0 else ('last' if i0 == N - 1 else 'middle')),
                            'pauli_is_onsite(%s, %d)' % (gstr(g), i0),
                            lambda: [('b', 'r', pu.pauli_is_onsite(I(g), i0))], lambda: [('b', 'r', tu.pauli_is_onsite(T(g), i0))], nt=i0 > 0)
        elif fname == 'pauli_diagonalize1':
            for g in G:
                for i0 in range(N):
                    here = 2 * g[2 * i0] + g[2 * i0 + 1]
                    kind = 'i0=%s,site=%s' % ('0' if i0 == 0 else '>0', 'IZXY'[here])
                    def d1(r_, conv):
                        return [('n', 'r', len(r_)), ('gs', 'g', conv(r_).reshape(len(r_), 2 * N))]
                    acc.run('kernel', 'pauli_diagonalize1', kind, 'pauli_diagonalize1(%s, %d)' % (gstr(g), i0),
                            lambda: d1(pu.pauli_diagonalize1(I(g), i0), lambda r_: np.array(list(r_), dtype=np.int64)),
                            lambda: d1(tu.pauli_diagonalize1(T(g), i0), lambda r_: np.asarray(_np(r_), dtype=np.float64)),
                            nt=bool(g.any()))
        elif fname == 'pauli_diagonalize2':
            A = ref.anti_mat(G)
            for a, g1 in enumerate(G):
                for b, g2 in enumerate(G):
                    if not A[a, b]:
                        continue
                    for i0 in range(N):
                        kind = 'i0=%s,site1=%s' % ('0' if i0 == 0 else '>0', 'IZXY'[2 * g1[2 * i0] + g1[2 * i0 + 1]])

                        def fp():
                            r = pu.pauli_diagonalize2(I(g1), I(g2), i0)
                            return [('n', 'r', len(r[0])), ('gs', 'g', np.array(list(r[0])).reshape(len(r[0]), 2 * N)), ('g1', 'g', r[1]), ('g2', 'g', r[2])]

                        def ft():
                            r = tu.pauli_diagonalize2(T(g1), T(g2), i0)
                            return [('n', 'r', len(r[0])), ('gs', 'g', _np(r[0]).reshape(len(r[0]), 2 * N)), ('g1', 'g', r[1]), ('g2', 'g', r[2])]
                        acc.run('kernel', 'pauli_diagonalize2', kind, 'pauli_diagonalize2(%s, %s, %d)' % (gstr(g1), gstr(g2), i0), fp, ft)
        elif fname == 'mask':
            for k in range(1, N + 1):
                for qs in itertools.permutations(range(N), k):
                    kind = 'ascending' if list(qs) == sorted(qs) else 'unordered'
                    for form in ('list', 'tuple'):
                        q = list(qs) if form == 'list' else tuple(qs)
                        acc.run('kernel', 'mask', kind + ',' + form, 'mask(%r, %d)' % (q, N),
                                lambda: [('mask', 'g', pu.mask(q, N))], lambda: [('mask', 'g', tu.mask(q, N))], nt=len(qs) < N)
        elif fname == 'binary_repr':
            for k in range(0, N + 1):           # here N = max number of bits
                n = 2 ** k
                for width in [None] + list(range(1, N + 2)):
                    kind = 'width=%s' % ('None' if width is None else ('given>=needed' if width >= k else 'given<needed'))
                    if k == 0 and width is None:
                        kind = 'width=None,single-zero'
                    acc.run('kernel', 'binary_repr', kind, 'binary_repr(arange(%d), width=%s)' % (n, width),
                            lambda: [('bits', 'g', pu.binary_repr(np.arange(n), width))],
                            lambda: [('bits', 'g', tu.binary_repr(torch.arange(n), width))], nt=k > 0)
        elif fname == 'aggregate':
            for L in range(1, N + 1):           # here N = max data length
                data = np.array([CPOOL[k % len(CPOOL)] for k in range(L)])
                for l in range(1, L + 1):
                    for inds in itertools.product(range(l), repeat=L):
                        kind = 'injective' if len(set(inds)) == L else 'merging'
                        acc.run('kernel', 'aggregate', kind, 'aggregate(%s, %s, %d)' % (data.tolist(), list(inds), l),
                                lambda: [('out', 'x', pu.aggregate(data.astype(np.complex128), I(inds), l))],
                                lambda: [('out', 'x', tu.aggregate(torch.tensor(data.astype(np.complex64)), torch.tensor(list(inds), dtype=torch.long), l))],
                                nt=kind == 'merging')
        outs.append(acc.out())
    return merge_out(outs)


def kernel_legs(tier):
    out = []
    q = tier == 'quick'
    Np = (1, 2, 3)
    out.append(Leg('k_pair', fn_k_pair, [[N, i] for N in Np for i in range(4 ** N)], chunk=4,
                   bound='acq, ipow: all ordered pairs of strings N<=3, scalar and row-broadcast forms'))
    li = [[N, f, 0] for N in Np for f in ('ps0', 'pauli_tokenize')]
    li += [[N, f, i] for N in (1, 2) for f in ('acq_mat', 'batch_dot') for i in range(4 ** N)]
    out.append(Leg('k_lists', fn_k_lists, li, chunk=2,
                   bound='ps0, pauli_tokenize: whole group N<=3 in one call and row by row; acq_mat: all pairs (N<=2), triples (N=1), '
                         'whole group; batch_dot: 4 phases of every string x whole group both orders, group x group'))
    out.append(Leg('k_combine', fn_k_combine, [[N, i, p] for N in (1, 2) for i in range(4 ** N) for p in range(4)], chunk=2,
                   bound='pauli_combine: N=1 all ordered triples of (string,phase) x 8 selections; N=2 all 64x64 ordered pairs x 4 selections'))
    ti = [[N, m] for N in (1, 2) for m in _maps_for(N, tier, 2)]
    out.append(Leg('k_transform', fn_k_transform, ti, chunk=24, src_states=len(ti),
                   bound='pauli_transform of the whole group (4 phases), map_to_state, state_to_map: N=1 all 24 maps; N=2 %s' % (
                       'all 720 tables x 2 sign patterns (one rotating through all 16 + all-plus)' if q else 'all 11520 maps')))
    out.append(Leg('k_rotate', fn_k_rotate, [[N, i] for N in Np for i in range(4 ** N)], chunk=4,
                   bound='clifford_rotate (+-generator) and clifford_rotate_signless: all generators x whole group, N<=3'))
    pi = [[N, t, 1] for N in (1, 2) for t in range(len(gs_tabs(N)))]
    if q:
        reps = sorted({(t // (3 * 16)) * 3 + t % 3 for t in _rep_tabs(2)})
        pi += [[2, t, 2] for t in reps]
    else:
        pi += [[2, t, 2] for t in range(len(gs_tabs(2)))]
    out.append(Leg('k_project', fn_k_project, pi, chunk=16, src_states=len(gs_tabs(1)) + len(gs_tabs(2)),
                   bound='stabilizer_project: all (table, r) tableaux N<=2 (phases are not read: complete) x every single string; all 90 ordered '
                         'independent commuting pairs on %s' % ('the tableaux of one representative per density matrix' if q else 'all N=2 tableaux')))
    tr = [[N, t, 1] for N in (1, 2) for t in _tabs_for(N, tier)]
    tr += [[2, t, 2] for t in (_rep_tabs(2) if q else _tabs_for(2, 'quick'))]
    out.append(Leg('k_trace', fn_k_trace, tr, chunk=16, src_states=len(tr), timeout=3000,
                   bound='stabilizer_projection_trace: N=1 all 48 tableaux, N=2 %s x all signed Hermitian observables; ordered commuting '
                         'pairs (signs ++ and -+) on %s' % (
                             ('720 tables x 1 sign pattern (rotating through all 16) x 3 ranks', 'one tableau per density matrix (91)') if q else
                             ('all 34560 tableaux', '720 tables x 1 rotating sign pattern x 3 ranks'))))
    ex = [[N, t, 'q' if (q and N == 2) else 'f'] for N in (1, 2) for t in _tabs_for(N, tier)]
    out.append(Leg('k_expect', fn_k_expect, ex, chunk=16, src_states=len(ex), timeout=3000,
                   bound='stabilizer_expect (whole group, all 4 observable phases) and vectorizable_stabilizer_expect (%s): same tableau set as k_trace' % (
                       'every string once, phase rotating with string and tableau index' if q else 'whole group, all 4 phases')))
    en = []
    for N in ((1, 2) if q else (1, 2, 3)):
        tot = len(_stab_lists(N))
        en += [[N, lo, min(lo + 40, tot)] for lo in range(0, tot, 40)]
    out.append(Leg('k_entropy', fn_k_entropy, en, chunk=2,
                   bound='stabilizer_entropy: all ordered independent commuting lists of length 0..N, N<=%d, x all 2^N boolean masks' % (2 if q else 3)))
    zi = []
    shapes = [(1, 1), (1, 2), (2, 1), (2, 2), (2, 3), (3, 2), (3, 3), (2, 4), (4, 2)] + ([] if q else [(3, 4), (4, 3), (4, 4)])
    for nr, nc in shapes:
        tot = 2 ** (nr * nc)
        zi += [['z2rank', nr, nc, lo, min(lo + 512, tot)] for lo in range(0, tot, 512)]
    for n in ((1, 2, 3) if q else (1, 2, 3, 4)):
        tot = 2 ** (n * n)
        zi += [['z2inv', n, n, lo, min(lo + 4096, tot)] for lo in range(0, tot, 4096)]
    zi += [['z2inv_sp', 4, 4, lo, lo + 90] for lo in range(0, 720, 90)] + [['z2inv_sp', 2, 2, 0, 6]]
    out.append(Leg('k_z2', fn_k_z2, zi, chunk=1,
                   bound='z2rank: all binary matrices of shapes %s; z2inv: all square binary matrices up to %s (singular ones raise in both), '
                         'all 6 + 720 symplectic tables' % (shapes, '3x3' if q else '4x4')))
    mi = [[f, N] for f in ('front', 'condense', 'pauli_is_onsite', 'pauli_diagonalize1', 'mask') for N in (1, 2, 3)]
    mi += [['pauli_diagonalize2', N] for N in (1, 2, 3)]
    mi += [['binary_repr', 4], ['aggregate', 4]]
    out.append(Leg('k_misc', fn_k_misc, mi, chunk=1,
                   bound='front, condense, pauli_is_onsite, pauli_diagonalize1/2 (all anticommuting pairs), mask (all ordered qubit tuples): all '
                         'strings N<=3 with every target qubit; binary_repr up to 4 bits all widths; aggregate all index maps of up to 4 entries'))
    return out


def legs(tier):
    return kernel_legs(tier)
