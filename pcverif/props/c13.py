"""C13 torchclifford computes the same results as pyclifford (port equivalence).

Differential exhaustive exploration: the same enumerated well-formed inputs are pushed through
both packages (pyclifford = reference) and the returned REPRESENTATIONS are compared: Pauli
strings (bit arrays), phases mod 4, ranks, numbers (rtol 1e-5, dyadic coefficients so that
complex64 is exact).  Kernel level: same-named functions of the two utils modules.  Class
level: parsing, Pauli/PauliList/PauliPolynomial algebra, rotations and transforms (with and
without masks), Clifford maps, stabilizer states, gates/layers/circuits.

Every compared call is a "case"; a case is identified by (leg item, running case number), so a
violation's item = leg item + [case number] and the replay re-executes exactly that case.
Signature = C13/<level>/<function>/<kind>; <kind> names the semantic class of the input
(computed from the input / the reference side only), plus ':torch-raises-<Exc>' when pyclifford
returns a value and torchclifford raises."""
import itertools
import numpy as np
from .. import ref, dom, lib, stab
from ..core import Leg, V

PROP = 'C13'
RULE = ('differential: every enumerated well-formed input is executed on pyclifford (reference) and on torchclifford, '
        'results compared field by field (strings exactly, phases mod 4, ranks exactly, numbers rtol 1e-5); one '
        'transition = one pair of real calls compared; non-trivial = the operation takes a non-default branch '
        '(anticommuting operands, non-zero phases, mixed tableau, non-trivial mask ...) as flagged per case; '
        'states = distinct leg items (operands / maps / tableaux / programs)')
ASSUMPTIONS = ['pyclifford is the reference: where pyclifford itself raises there is no value to compare (counted, not judged)',
               'CPU only, float32 / complex64 tensors, dyadic coefficients (exact in complex64)',
               'bounded to N<=2 complete (N=3 for position dependent control flow), measurement excluded (nondeterministic, not in the statement)',
               'term order of polynomials and dtype / container type are representation details: results are compared as '
               '(strings, phases mod 4, coefficients) in the order returned']

CPOOL = [1.0, -0.5, 1j, 1 + 2j, 2.5, -2j, 0.25 - 1j]      # dyadic, |c| >= 0.25 >> both reduce tolerances


# ------------------------------------------------------------------------------ plumbing
def TM():
    return lib.torch_mods()


def _np(x):
    """library value -> numpy array (tensors detached, lists of tensors stacked)."""
    if lib._tc is not None and lib._tc['torch'].is_tensor(x):
        return x.detach().cpu().numpy()
    if isinstance(x, (list, tuple)) and len(x) and lib._tc is not None and lib._tc['torch'].is_tensor(x[0]):
        return np.array([t.detach().cpu().numpy() for t in x])
    return np.asarray(x)


def _int(x):
    """exact integer view of a value (float tensors holding integers -> int64); non-integral
    values are returned unchanged so that the comparison fails visibly."""
    a = _np(x)
    if a.dtype == bool:
        return a.astype(np.int64)
    if a.dtype == object:
        return a
    if np.iscomplexobj(a):
        if a.size and np.any(a.imag != 0):
            return a
        a = a.real
    if a.dtype.kind in 'iu':
        return a.astype(np.int64)
    r = np.rint(a)
    if a.size and not np.array_equal(a, r):
        return a.astype(float)
    return r.astype(np.int64)


def fdiff(fa, fb):
    """Compare two field lists [(name, type, value)...]: type 'g' exact ints, 'p' ints mod 4,
    'r' exact scalar int, 'x' numbers (rtol 1e-5), 's' python objects (==).  Returns None or (field, row index, text)."""
    if len(fa) != len(fb):
        return ('structure', None, 'different number of result fields %d vs %d' % (len(fa), len(fb)))
    for (na, ka, a), (nb, kb, b) in zip(fa, fb):
        if ka == 's':
            if a != b:
                return (na, None, '%s: pyclifford %r, torchclifford %r' % (na, a, b))
            continue
        if ka == 'x':
            A = np.asarray(_np(a), dtype=complex)
            B = np.asarray(_np(b), dtype=complex)
        else:
            A, B = _int(a), _int(b)
        if ka == 'r':
            A, B = np.squeeze(A), np.squeeze(B)
        if A.shape != B.shape:
            return (na, None, '%s: shape %s vs %s' % (na, A.shape, B.shape))
        if ka == 'x':
            bad = ~np.isclose(B, A, rtol=1e-5, atol=1e-6)
        elif ka == 'p':
            if A.dtype.kind not in 'iu' or B.dtype.kind not in 'iu':
                bad = np.ones(A.shape, dtype=bool) if A.size else np.zeros(A.shape, dtype=bool)
            else:
                bad = (A % 4) != (B % 4)
        else:
            if A.dtype.kind != B.dtype.kind:
                bad = np.ones(A.shape, dtype=bool) if A.size else np.zeros(A.shape, dtype=bool)
            else:
                bad = A != B
        bad = np.asarray(bad)
        if bad.any():
            idx = np.argwhere(bad)[0]
            row = int(idx[0]) if len(idx) else None
            return (na, row, '%s%s: pyclifford %s, torchclifford %s' % (
                na, list(map(int, idx)), np.asarray(A)[tuple(idx)], np.asarray(B)[tuple(idx)]))
    return None


def fjson(f):
    if f is None:
        return None
    out = {}
    for n, k, v in f:
        if k == 's':
            out[n] = v
            continue
        a = _int(v) if k != 'x' else np.asarray(_np(v), dtype=complex)
        if k == 'p' and getattr(a, 'dtype', None) is not None and a.dtype.kind in 'iu':
            a = a % 4
        out[n] = a
    return out


def jsonable_small(d):
    out = {}
    for k, v in (d or {}).items():
        a = np.asarray(v)
        out[k] = a.tolist() if a.size <= 24 and a.dtype != object and not np.iscomplexobj(a) else (str(a.tolist())[:200] if a.size <= 24 else 'array%s' % (a.shape,))
    return out


# both packages raising is agreement only where no value is required: explicit refusals
REFUSALS = (NotImplementedError,)


class Blocked(Exception):
    """a prerequisite step (compared as a case of its own) failed: the dependent case is not judged."""


def pre(f):
    try:
        return f()
    except Exception as e:      # noqa
        raise Blocked('%s: %s' % (type(e).__name__, e))


class Acc(object):
    """Per-item accumulator.  run() executes one differential case."""

    def __init__(self, item, sel=None):
        self.item = list(item)
        self.sel = sel
        self.cid = 0
        self.n = self.nt = 0
        self.viol = []
        self.extra = {}
        self.samples = []
        self.sigs = {}

    def report(self, sig, it, mk):
        """record at most one violation per signature and item (the rest is counted): the expected
        divergences hit hundreds of thousands of cases and each record costs a description."""
        c = self.sigs.get(sig, 0)
        self.sigs[sig] = c + 1
        if c == 0:
            self.viol.append(V(sig, it, *mk()))
        else:
            self.count('further_cases:' + sig)

    def count(self, k, d=1):
        self.extra[k] = self.extra.get(k, 0) + d

    def skip(self):
        """advance the case counter; True if this case is to be executed."""
        c = self.cid
        self.cid += 1
        return self.sel is None or c == self.sel

    def run(self, level, func, kind, label, py, tq, nt=True, both_raise_ok=False):
        """kind: str or callable(field, row) -> str (row = first differing row of the result,
        used to classify the failing INPUT row); label: str or callable() -> str."""
        if not self.skip():
            return None
        cid = self.cid - 1
        self.n += 1
        self.nt += 1 if nt else 0
        ea = eb = None
        a = b = None
        try:
            a = py()
        except Exception as e:      # noqa
            ea = e
        try:
            b = tq()
        except Exception as e:      # noqa
            eb = e
        it = self.item + [cid]
        if isinstance(ea, Blocked) or isinstance(eb, Blocked):
            self.count('blocked_by_failed_prerequisite:' + func)
            self.n -= 1
            self.nt -= 1 if nt else 0
            return None
        if ea is not None:
            if eb is not None:
                self.count('both_raise')
                self.count('both_raise:%s/%s' % (func, type(ea).__name__))
                if both_raise_ok or (isinstance(ea, REFUSALS) and isinstance(eb, REFUSALS)):
                    return None
                k = kind('raise', None) if callable(kind) else kind
                self.report('C13/%s/%s/%s:both-raise-%s' % (level, func, k, type(ea).__name__), it, lambda: (
                    '%s: pyclifford raised %s (%s), torchclifford raised %s (%s); the property requires a value here' % (
                        label() if callable(label) else label, type(ea).__name__, str(ea)[:120], type(eb).__name__, str(eb)[:120]),))
                return None
            self.count('pyclifford_raises_no_reference')
            self.count('pyclifford_raises:%s/%s' % (func, type(ea).__name__))
            return None
        if eb is not None:
            k = kind('raise', None) if callable(kind) else kind
            self.report('C13/%s/%s/%s:torch-raises-%s' % (level, func, k, type(eb).__name__), it, lambda: (
                '%s: pyclifford returns a value, torchclifford raises %s: %s' % (
                    label() if callable(label) else label, type(eb).__name__, str(eb)[:200]),
                'raises %s' % type(eb).__name__, fjson(a)))
            return None
        d = fdiff(a, b)
        if d is None and not self.samples and (cid % 7 == 3 or self.sel is not None):
            fk = None if callable(kind) else kind
            self.samples.append({'item': it, 'function': func, 'kind': fk, 'case': (label() if callable(label) else label)[:300],
                                 'agreed_value': jsonable_small(fjson(a))})
        if d is not None:
            k = kind(d[0], d[1]) if callable(kind) else kind
            self.report('C13/%s/%s/%s' % (level, func, k), it, lambda: (
                '%s: %s' % (label() if callable(label) else label, d[2]), fjson(b), fjson(a)))
        return a

    def out(self):
        return {'n': self.n, 'nt': self.nt, 'viol': self.viol, 'extra': self.extra, 'samples': self.samples}


def split(item, k):
    """item = k leg fields (+ optional case selector)."""
    item = list(item)
    return item[:k], (item[k] if len(item) > k else None)


def merge_out(outs):
    tot = {'n': 0, 'nt': 0, 'viol': [], 'extra': {}, 'samples': []}
    for o in outs:
        tot['n'] += o['n']
        tot['nt'] += o['nt']
        tot['viol'] += o['viol']
        for k, v in o['extra'].items():
            tot['extra'][k] = tot['extra'].get(k, 0) + v
        if len(tot['samples']) < 2:
            tot['samples'] += o['samples'][:1]
    return tot


def I(a):
    return np.array(a, dtype=lib.INT)


def T(a):
    return lib.tT(a)


def allp(N):
    """all group elements as arrays (Gs, Ps), phase-major."""
    G = ref.all_g(N)
    return np.concatenate([G] * 4), np.repeat(np.arange(4), len(G))


def gstr(g, p=None):
    return ref.g_to_str(np.asarray(g), p)


# ------------------------------------------------------------------------------ kernel legs
def fn_k_pair(items):
    """item = [N, i1]: acq / ipow on every ordered pair (scalar form) and row-broadcast form."""
    tu, pu = TM()['tu'], lib.pu
    outs = []
    for item in items:
        (N, i1), sel = split(item, 2)
        acc = Acc([N, i1], sel)
        G = ref.all_g(N)
        a1, t1 = I(G[i1]), T(G[i1])
        tG = T(G)
        A = ref.anti(G[i1][None, :], G)
        x1, z1 = G[i1][0::2], G[i1][1::2]
        kinds = []
        for j, g2 in enumerate(G):
            a2, t2 = I(g2), T(g2)
            ov = bool(((x1 & g2[0::2]) | (z1 & g2[1::2])).any())
            kd = ('anticommuting' if A[j] else 'commuting') + (',overlap(carry)' if ov else ',no-overlap')
            kinds.append(kd)
            lab = '(%s,%s)' % (gstr(G[i1]), gstr(g2))
            acc.run('kernel', 'acq', 'anticommuting' if A[j] else 'commuting', 'acq' + lab,
                    lambda: [('acq', 'r', pu.acq(a1, a2))], lambda: [('acq', 'r', tu.acq(t1, t2))], nt=bool(A[j]))
            acc.run('kernel', 'ipow', kd, 'ipow' + lab,
                    lambda: [('ipow', 'p', pu.ipow(a1, a2))], lambda: [('ipow', 'p', tu.ipow(t1, t2))], nt=bool(A[j]) or ov)
        Gi = [I(g) for g in G]
        acc.run('kernel', 'acq', lambda f, r: 'rows,' + ('anticommuting' if r is not None and A[r] else 'commuting'),
                'acq(%s, all strings)' % gstr(G[i1]),
                lambda: [('acq', 'g', [pu.acq(a1, g) for g in Gi])], lambda: [('acq', 'g', tu.acq(t1, tG))])
        acc.run('kernel', 'ipow', lambda f, r: 'rows,' + (kinds[r] if r is not None else 'shape'),
                'ipow(%s, all strings)' % gstr(G[i1]),
                lambda: [('ipow', 'p', [pu.ipow(a1, g) for g in Gi])], lambda: [('ipow', 'p', tu.ipow(t1.unsqueeze(0), tG))])
        if not acc.samples and i1 == 3:
            acc.samples.append({'N': N, 'left': gstr(G[i1]), 'right': gstr(G[-1]), 'acq': int(A[-1]), 'kinds': sorted(set(kinds))})
        outs.append(acc.out())
    return merge_out(outs)


def fn_k_lists(items):
    """item = [N, fname, i]: list-valued kernels ps0, acq_mat, batch_dot, pauli_tokenize."""
    tu, pu, torch = TM()['tu'], lib.pu, TM()['torch']
    outs = []
    for item in items:
        (N, fname, i), sel = split(item, 3)
        acc = Acc([N, fname, i], sel)
        G = ref.all_g(N)
        Gs, Ps = allp(N)
        if fname == 'ps0':
            ov = (G[:, 0::2] & G[:, 1::2]).sum(-1)
            acc.run('kernel', 'ps0', lambda f, r: 'rows,#Y=%d' % (ov[r] % 4) if r is not None else 'shape', 'ps0(all strings)',
                    lambda: [('ps0', 'p', pu.ps0(I(G)))], lambda: [('ps0', 'p', tu.ps0(T(G)))])
            for j, g in enumerate(G):
                acc.run('kernel', 'ps0', '#Y=%d' % (ov[j] % 4), 'ps0([%s])' % gstr(g),
                        lambda: [('ps0', 'p', pu.ps0(I([g])))], lambda: [('ps0', 'p', tu.ps0(T([g])))], nt=bool(ov[j]))
        elif fname == 'acq_mat':
            lists = [[i, j] for j in range(len(G))]
            if N == 1:
                lists += [[i, j, k] for j in range(4) for k in range(4)]
            if i == 0:
                lists.append(list(range(len(G))))
                lists.append([0])
            for idx in lists:
                gs = G[idx]
                anyanti = bool(ref.anti_mat(gs).any())
                acc.run('kernel', 'acq_mat', 'L=%s,%s' % (len(idx) if len(idx) < 4 else 'all', 'some-anticommute' if anyanti else 'all-commute'),
                        'acq_mat(%s)' % [gstr(g) for g in gs[:4]],
                        lambda: [('mat', 'g', pu.acq_mat(I(gs)))], lambda: [('mat', 'g', tu.acq_mat(T(gs)))], nt=anyanti)
        elif fname == 'batch_dot':
            M = len(Gs)
            cs_all = np.array([CPOOL[k % len(CPOOL)] for k in range(M)])
            g1s = np.array([G[i]] * 4)
            p1s = np.arange(4)
            c1s = np.array([CPOOL[(i + k) % len(CPOOL)] for k in range(4)])

            def bd_py(a, b):
                r = pu.batch_dot(I(a[0]), I(a[1]), np.array(a[2], dtype=np.complex128), I(b[0]), I(b[1]), np.array(b[2], dtype=np.complex128))
                return [('gs', 'g', r[0]), ('ps', 'p', r[1]), ('cs', 'x', r[2])]

            def bd_t(a, b):
                c64 = lambda c: torch.tensor(np.array(c, dtype=np.complex64))
                r = tu.batch_dot(T(a[0]), T(a[1]), c64(a[2]), T(b[0]), T(b[1]), c64(b[2]))
                return [('gs', 'g', r[0]), ('ps', 'p', r[1]), ('cs', 'x', r[2])]
            left, right = (g1s, p1s, c1s), (Gs, Ps, cs_all)
            acc.run('kernel', 'batch_dot', lambda f, r: 'left=4-terms,right=group:' + f, 'batch_dot(4 terms of %s, whole group)' % gstr(G[i]),
                    lambda: bd_py(left, right), lambda: bd_t(left, right))
            acc.run('kernel', 'batch_dot', lambda f, r: 'left=group,right=4-terms:' + f, 'batch_dot(whole group, 4 terms of %s)' % gstr(G[i]),
                    lambda: bd_py(right, left), lambda: bd_t(right, left))
            one = (G[i:i + 1], np.array([3]), np.array([1 + 2j]))
            acc.run('kernel', 'batch_dot', lambda f, r: 'left=1-term,right=1-term:' + f, 'batch_dot(1 term, 1 term)',
                    lambda: bd_py(one, one), lambda: bd_t(one, one))
            if i == 0:
                acc.run('kernel', 'batch_dot', lambda f, r: 'group-x-group:' + f, 'batch_dot(whole group, whole group)',
                        lambda: bd_py(right, right), lambda: bd_t(right, right))
        elif fname == 'pauli_tokenize':
            acc.run('kernel', 'pauli_tokenize', lambda f, r: 'rows,p=%d' % Ps[r] if r is not None else 'shape', 'pauli_tokenize(whole group)',
                    lambda: [('ts', 'g', pu.pauli_tokenize(I(Gs), I(Ps)))], lambda: [('ts', 'g', tu.pauli_tokenize(T(Gs), T(Ps)))])
            for j in range(len(Gs)):
                acc.run('kernel', 'pauli_tokenize', 'p=%d' % Ps[j], 'pauli_tokenize([%s])' % gstr(Gs[j], Ps[j]),
                        lambda: [('ts', 'g', pu.pauli_tokenize(I(Gs[j:j + 1]), I(Ps[j:j + 1])))],
                        lambda: [('ts', 'g', tu.pauli_tokenize(T(Gs[j:j + 1]), T(Ps[j:j + 1])))], nt=bool(Ps[j]))
        outs.append(acc.out())
    return merge_out(outs)


def fn_k_combine(items):
    """item = [N, i1, p1]: pauli_combine.  N=1: all ordered triples of (string, phase) with first string
    fixed x all 8 selection rows; N=2: all 64 x 64 ordered pairs x 4 selection rows."""
    tu, pu = TM()['tu'], lib.pu
    outs = []
    for item in items:
        (N, i1, p1), sel = split(item, 3)
        acc = Acc([N, i1, p1], sel)
        G = ref.all_g(N)
        Gs, Ps = allp(N)
        if N == 1:
            C = np.array([[(k >> 2) & 1, (k >> 1) & 1, k & 1] for k in range(8)])
            rest = [(j, k) for j in range(len(Gs)) for k in range(len(Gs))]
        else:
            C = np.array([[1, 1], [1, 0], [0, 1], [0, 0]])
            rest = [(j,) for j in range(len(Gs))]
        tC, iC = T(C), I(C)
        if True:
            for idx in rest:
                gs = np.array([G[i1]] + [Gs[j] for j in idx])
                ps = np.array([p1] + [Ps[j] for j in idx])
                anti = bool(ref.anti_mat(gs).any())
                acc.run('kernel', 'pauli_combine', 'anticommuting-rows' if anti else 'commuting-rows',
                        lambda: 'pauli_combine(C=%s, %s)' % (C.tolist(), [gstr(g, p) for g, p in zip(gs, ps)]),
                        lambda: (lambda r: [('gs', 'g', r[0]), ('ps', 'p', r[1])])(pu.pauli_combine(iC, I(gs), I(ps))),
                        lambda: (lambda r: [('gs', 'g', r[0]), ('ps', 'p', r[1])])(tu.pauli_combine(tC, T(gs), T(ps))),
                        nt=anti or bool(ps.any()))
        outs.append(acc.out())
    return merge_out(outs)


def _maps_for(N, tier, per=2):
    """indices into dom.valid_maps(N): all for N=1 / thorough.  quick N=2: every one of the 720 tables
    with per=1: one sign pattern that rotates with the table index through all 16 patterns;
    per=2: additionally the all-plus pattern (or the all-minus one where the rotating one is all-plus)."""
    if N == 1 or tier != 'quick':
        return list(range(len(dom.valid_maps(N))))
    ns = 4 ** N
    out = []
    for t in range(len(dom.symplectic_tables(N))):
        out.append(t * ns + t % ns)
        if per == 2:
            out.append(t * ns + (0 if t % ns else ns - 1))
    return out


def fn_k_transform(items):
    """item = [N, map index]: pauli_transform of the whole group (all 4 phases) by a valid map;
    map_to_state / state_to_map on the same arrays (signs of the map and a 0..3 phase ramp)."""
    tu, pu = TM()['tu'], lib.pu
    outs = []
    for item in items:
        (N, mi), sel = split(item, 2)
        acc = Acc([N, mi], sel)
        gm, pm = dom.valid_maps(N)[mi]
        Gs, Ps = allp(N)
        ov = (Gs[:, 0::2] & Gs[:, 1::2]).sum(-1)

        def kd(f, r):
            if r is None:
                return 'shape'
            return ('input-with-Y' if ov[r] else 'input-without-Y') + ',' + ('signed-map' if pm.any() else 'unsigned-map')
        acc.run('kernel', 'pauli_transform', kd, lambda: 'pauli_transform(whole group, map %s)' % [gstr(g, p) for g, p in zip(gm, pm)],
                lambda: (lambda r: [('gs', 'g', r[0]), ('ps', 'p', r[1])])(pu.pauli_transform(I(Gs), I(Ps), I(gm), I(pm))),
                lambda: (lambda r: [('gs', 'g', r[0]), ('ps', 'p', r[1])])(tu.pauli_transform(T(Gs), T(Ps), T(gm), T(pm))))
        ramp = np.arange(2 * N) % 4
        for nm, pp in (('map-signs', pm), ('phase-ramp', ramp)):
            acc.run('kernel', 'map_to_state', lambda f, r: nm + ':' + f, 'map_to_state(%s)' % [gstr(g, p) for g, p in zip(gm, pp)],
                    lambda: (lambda r: [('gs', 'g', r[0]), ('ps', 'p', r[1])])(pu.map_to_state(I(gm), I(pp))),
                    lambda: (lambda r: [('gs', 'g', r[0]), ('ps', 'p', r[1])])(tu.map_to_state(T(gm), T(pp))))
            acc.run('kernel', 'state_to_map', lambda f, r: nm + ':' + f, 'state_to_map(%s)' % [gstr(g, p) for g, p in zip(gm, pp)],
                    lambda: (lambda r: [('gs', 'g', r[0]), ('ps', 'p', r[1])])(pu.state_to_map(I(gm), I(pp))),
                    lambda: (lambda r: [('gs', 'g', r[0]), ('ps', 'p', r[1])])(tu.state_to_map(T(gm), T(pp))))
        outs.append(acc.out())
    return merge_out(outs)


def fn_k_rotate(items):
    """item = [N, gi]: clifford_rotate / clifford_rotate_signless by generator +-G[gi] on the whole group."""
    tu, pu = TM()['tu'], lib.pu
    outs = []
    for item in items:
        (N, gi), sel = split(item, 2)
        acc = Acc([N, gi], sel)
        G = ref.all_g(N)
        Gs, Ps = allp(N)
        A = ref.anti(G[gi][None, :], Gs)

        def kd(f, r):
            return 'shape' if r is None else ('anticommuting-row' if A[r] else 'commuting-row')
        for p in (0, 2):
            acc.run('kernel', 'clifford_rotate', lambda f, r: kd(f, r) + ',p=%d' % p, 'clifford_rotate(%s, whole group)' % gstr(G[gi], p),
                    lambda: (lambda r: [('gs', 'g', r[0]), ('ps', 'p', r[1])])(pu.clifford_rotate(I(G[gi]), p, I(Gs), I(Ps))),
                    lambda: (lambda r: [('gs', 'g', r[0]), ('ps', 'p', r[1])])(tu.clifford_rotate(T(G[gi]), p, T(Gs), T(Ps))))
        acc.run('kernel', 'clifford_rotate_signless', kd, 'clifford_rotate_signless(%s, all strings)' % gstr(G[gi]),
                lambda: [('gs', 'g', pu.clifford_rotate_signless(I(G[gi]), I(G)))],
                lambda: [('gs', 'g', tu.clifford_rotate_signless(T(G[gi]), T(G)))])
        outs.append(acc.out())
    return merge_out(outs)


# ---- projection kernels
def step_kind(gs, ps, r, g, p=None):
    """Semantic class of projecting observable g onto tableau (gs, ps, r) - from the input only."""
    gs = np.asarray(gs)
    N = gs.shape[1] // 2
    A = ref.anti(gs, np.asarray(g)[None, :])
    purity = 'pure' if r == 0 else 'mixed'
    sb_st, act, sb_de = bool(A[:r].any()), bool(A[r:N].any()), bool(A[N:N + r].any())
    if act and sb_st:
        return purity + ',standby-and-active-anticommute'
    if act:
        return purity + ',pivot=active-stabilizer'
    if sb_st:
        return purity + ',pivot=standby-stabilizer'
    if sb_de:
        return purity + ',pivot=standby-destabilizer'
    # eigen-observable: a product of the active stabilizers whose destabilizers anticommute
    rows = [j for j in range(r, N) if A[N + j]]
    if ps is None:
        return purity + ',eigen'
    acc_g = np.zeros(2 * N, dtype=np.int64)
    cross = 0
    for j in rows:
        acc_g, ph = ref.mul(acc_g, 0, gs[j], 0)
        cross = (cross + int(ph)) % 4
    return 'eigen,%s' % ('generator-product-carries-phase' if cross else ('single-generator' if len(rows) == 1 else (
        'identity' if not rows else 'phase-free-generator-product')))


def _gs_tabs(N):
    """(table, r) pairs: stabilizer_project does not read phases."""
    out = []
    for t in dom.symplectic_tables(N):
        gs, _ = dom.map_to_tableau(t, np.zeros(2 * N, dtype=np.int64))
        for r in range(N + 1):
            out.append((gs, r))
    return out


_GT = {}


def gs_tabs(N):
    if N not in _GT:
        _GT[N] = _gs_tabs(N)
    return _GT[N]


def _localise(run_py, run_t, L):
    """first list position at which the two kernels (run on prefixes) differ."""
    for k in range(1, L + 1):
        try:
            a = run_py(k)
        except Exception:
            return k - 1
        try:
            b = run_t(k)
        except Exception:
            return k - 1
        if fdiff(a, b) is not None:
            return k - 1
    return L - 1


def fn_k_project(items):
    """item = [N, ti, mode]: stabilizer_project on tableau (table, r) #ti.  mode 1: every single
    observable string; mode 2: every ordered independent commuting pair."""
    tu, pu = TM()['tu'], lib.pu
    outs = []
    for item in items:
        (N, ti, mode), sel = split(item, 3)
        acc = Acc([N, ti, mode], sel)
        gs0, r0 = gs_tabs(N)[ti]
        G = ref.all_g(N)
        lists = [[j] for j in range(len(G))] if mode == 1 else [list(c) for c in dom.commuting_lists(N, 2)]
        for idx in lists:
            obs = G[idx]

            def rp(k=len(idx)):
                r = pu.stabilizer_project(I(gs0), I(obs[:k]), r0)
                return [('gs', 'g', r[0]), ('r', 'r', r[1])]

            def rt(k=len(idx)):
                r = tu.stabilizer_project(T(gs0), T(obs[:k]), r0)
                return [('gs', 'g', r[0]), ('r', 'r', r[1])]

            def kd(f, row):
                k = _localise(rp, rt, len(idx)) if len(idx) > 1 else 0
                if k == 0:
                    return step_kind(gs0, None, r0, obs[0])
                mid = pu.stabilizer_project(I(gs0), I(obs[:k]), r0)
                return step_kind(mid[0], None, int(mid[1]), obs[k])
            k0 = step_kind(gs0, None, r0, obs[0])
            acc.run('kernel', 'stabilizer_project', kd,
                    lambda: 'stabilizer_project(%s, %s)' % (stab.describe(gs0, np.zeros(2 * N, dtype=int), r0), [gstr(g) for g in obs]),
                    rp, rt, nt=not k0.endswith('eigen'))
        if not acc.samples and ti % 101 == 7:
            acc.samples.append({'N': N, 'tableau': stab.describe(gs0, np.zeros(2 * N, dtype=int), r0), 'observables': len(lists), 'mode': mode})
        outs.append(acc.out())
    return merge_out(outs)


def _tabs_for(N, tier, per=1):
    """indices into stab.tableaux(N) (map-major, r-minor) for the maps of _maps_for."""
    return [m * (N + 1) + r for m in _maps_for(N, tier, per) for r in range(N + 1)]


def _rep_tabs(N):
    """one tableau index per distinct density matrix (7 / 91)."""
    return sorted(stab.representatives(N, 0))


def fn_k_trace(items):
    """item = [N, tableau index, mode]: stabilizer_projection_trace; mode 1 = every signed Hermitian
    observable, mode 2 = every ordered independent commuting pair with signs (+,+) and (-,+); mode 3 = signs (-,+) only."""
    tu, pu = TM()['tu'], lib.pu
    outs = []
    for item in items:
        (N, ti, mode), sel = split(item, 3)
        acc = Acc([N, ti, mode], sel)
        gs0, ps0, r0 = stab.tableaux(N)[ti]
        G = ref.all_g(N)
        if mode == 1:
            lists = [([j], [p]) for j in range(len(G)) for p in (0, 2)]
        else:
            lists = [(list(c), [pa, 0]) for c in dom.commuting_lists(N, 2) for pa in ((2,) if mode == 3 else (0, 2))]
        for idx, pp in lists:
            obs, po = G[idx], np.array(pp)

            def rp(k=len(idx)):
                r = pu.stabilizer_projection_trace(I(gs0), I(ps0), I(obs[:k]), I(po[:k]), r0)
                return [('gs', 'g', r[0]), ('ps', 'p', r[1][:N]), ('r', 'r', r[2]), ('trace', 'x', r[3])]

            def rt(k=len(idx)):
                r = tu.stabilizer_projection_trace(T(gs0), T(ps0), T(obs[:k]), T(po[:k]), r0)
                return [('gs', 'g', r[0]), ('ps', 'p', r[1][:N]), ('r', 'r', r[2]), ('trace', 'x', r[3])]

            def kd(f, row):
                k = _localise(rp, rt, len(idx)) if len(idx) > 1 else 0
                if k == 0:
                    return step_kind(gs0, ps0, r0, obs[0])
                mid = pu.stabilizer_projection_trace(I(gs0), I(ps0), I(obs[:k]), I(po[:k]), r0)
                return step_kind(mid[0], mid[1], int(mid[2]), obs[k])
            k0 = step_kind(gs0, ps0, r0, obs[0])
            acc.run('kernel', 'stabilizer_projection_trace', kd,
                    lambda: 'stabilizer_projection_trace(%s, %s)' % (stab.describe(gs0, ps0, r0), [gstr(g, p) for g, p in zip(obs, po)]),
                    rp, rt, nt=not k0.startswith('eigen,identity'))
        outs.append(acc.out())
    return merge_out(outs)


def fn_k_expect(items):
    """item = [N, tableau index, mode]: stabilizer_expect and vectorizable_stabilizer_expect (torch) against
    pyclifford stabilizer_expect.  Observables: the whole group with all 4 phases (64 rows at N=2); in
    mode 'q' the (python-loop, 40 ms) vectorizable kernel gets every string once with a phase that
    rotates with string and tableau index."""
    tu, pu = TM()['tu'], lib.pu
    outs = []
    for item in items:
        (N, ti, mode), sel = split(item, 3)
        acc = Acc([N, ti, mode], sel)
        gs0, ps0, r0 = stab.tableaux(N)[ti]
        Gs, Ps = allp(N)
        G = ref.all_g(N)
        Pq = (np.arange(len(G)) + ti) % 4

        def kdf(gsx, psx):
            def kd(f, row):
                if row is None:
                    return 'shape'
                k = step_kind(gs0, ps0, r0, gsx[row])
                return ('eigen' if k.startswith('eigen') else 'zero-expectation') + ',' + ('hermitian' if psx[row] % 2 == 0 else 'phase-odd')
            return kd
        lab = lambda: 'stabilizer_expect(%s, whole group)' % (stab.describe(gs0, ps0, r0),)
        acc.run('kernel', 'stabilizer_expect', kdf(Gs, Ps), lab,
                lambda: [('xs', 'g', pu.stabilizer_expect(I(gs0), I(ps0), I(Gs), I(Ps), r0))],
                lambda: [('xs', 'g', tu.stabilizer_expect(T(gs0), T(ps0), T(Gs), T(Ps), r0))])
        go, po = (Gs, Ps) if mode == 'f' else (G, Pq)
        acc.run('kernel', 'vectorizable_stabilizer_expect', kdf(go, po), lab,
                lambda: [('xs', 'g', pu.stabilizer_expect(I(gs0), I(ps0), I(go), I(po), r0))],
                lambda: [('xs', 'g', tu.vectorizable_stabilizer_expect(T(gs0), T(ps0), T(go), T(po), r0))])
        outs.append(acc.out())
    return merge_out(outs)


def _stab_lists(N):
    """all ordered independent commuting lists of length 0..N (index tuples)."""
    out = [()]
    for L in range(1, N + 1):
        out += list(dom.commuting_lists(N, L))
    return out


def fn_k_entropy(items):
    """item = [N, lo, hi]: stabilizer_entropy(list, mask) for lists #lo..hi-1 of _stab_lists(N) x all 2^N masks."""
    tu, pu, torch = TM()['tu'], lib.pu, TM()['torch']
    outs = []
    for item in items:
        (N, lo, hi), sel = split(item, 3)
        acc = Acc([N, lo, hi], sel)
        G = ref.all_g(N)
        lists = _stab_lists(N)[lo:hi]
        masks = list(itertools.product((False, True), repeat=N))
        for idx in lists:
            gs = G[list(idx)].reshape(len(idx), 2 * N)
            for m in masks:
                mk = np.array(m, dtype=np.bool_)
                kind = ('pure' if len(idx) == N else 'mixed') + ',' + ('empty-mask' if not mk.any() else ('full-mask' if mk.all() else 'proper-subsystem'))
                acc.run('kernel', 'stabilizer_entropy', kind, lambda: 'stabilizer_entropy(%s, %s)' % ([gstr(g) for g in gs], mk.tolist()),
                        lambda: [('S', 'r', pu.stabilizer_entropy(I(gs).reshape(len(idx), 2 * N), mk.copy()))],
                        lambda: [('S', 'r', tu.stabilizer_entropy(T(gs).reshape(len(idx), 2 * N), torch.tensor(mk)))],
                        nt=mk.any() and not mk.all())
        outs.append(acc.out())
    return merge_out(outs)


def _mats(nr, nc, lo, hi):
    for k in range(lo, hi):
        yield k, np.array([(k >> b) & 1 for b in range(nr * nc)], dtype=np.int64).reshape(nr, nc)


def fn_k_z2(items):
    """item = [fname, nr, nc, lo, hi]: z2rank / z2inv on the binary matrices #lo..hi-1 of shape nr x nc."""
    tu, pu = TM()['tu'], lib.pu
    outs = []
    for item in items:
        (fname, nr, nc, lo, hi), sel = split(item, 5)
        acc = Acc([fname, nr, nc, lo, hi], sel)
        mats = _mats(nr, nc, lo, hi) if fname != 'z2inv_sp' else [(k, dom.symplectic_tables(nr // 2)[k]) for k in range(lo, hi)]
        for k, m in mats:
            if fname == 'z2rank':
                rr = int(np.linalg.matrix_rank(m.astype(float)))
                gr = dom.z2_rank(m)
                acc.run('kernel', 'z2rank', 'real-rank%sgf2-rank' % ('=' if rr == gr else '>'), 'z2rank(%s)' % m.tolist(),
                        lambda: [('rank', 'r', pu.z2rank(I(m)))], lambda: [('rank', 'r', tu.z2rank(T(m)))], nt=gr < min(nr, nc))
            else:
                inv = dom.z2_rank(m) == nr
                acc.run('kernel', 'z2inv', 'invertible' if inv else 'singular', 'z2inv(%s)' % m.tolist(),
                        lambda: [('inv', 'g', pu.z2inv(I(m)))], lambda: [('inv', 'g', tu.z2inv(np.array(m, dtype=np.float32)))],
                        nt=inv, both_raise_ok=not inv)
        outs.append(acc.out())
    return merge_out(outs)


def fn_k_misc(items):
    """item = [fname, N]: position dependent helpers on all strings of N qubits with every target qubit:
    front, condense, pauli_is_onsite, pauli_diagonalize1/2, mask, binary_repr, aggregate."""
    tu, pu, torch = TM()['tu'], lib.pu, TM()['torch']
    outs = []
    for item in items:
        (fname, N), sel = split(item, 2)
        acc = Acc([fname, N], sel)
        G = ref.all_g(N) if N <= 4 else None
        if fname == 'front':
            for g in G:
                sup = np.nonzero(g[0::2] | g[1::2])[0]
                kind = 'identity-string' if not len(sup) else 'first-site=%s' % ('0' if sup[0] == 0 else '>0')
                acc.run('kernel', 'front', kind, 'front(%s)' % gstr(g), lambda: [('i', 'r', pu.front(I(g)))], lambda: [('i', 'r', tu.front(T(g)))],
                        nt=len(sup) and sup[0] > 0)
        elif fname == 'condense':
            for g in G:
                sup = np.nonzero(g[0::2] | g[1::2])[0]
                kind = 'identity-string' if not len(sup) else ('full-support' if len(sup) == N else (
                    'contiguous-support' if sup[-1] - sup[0] + 1 == len(sup) else 'non-contiguous-support'))
                acc.run('kernel', 'condense', kind, 'condense(%s)' % gstr(g),
                        lambda: (lambda r: [('g', 'g', r[0]), ('qubits', 'g', r[1])])(pu.condense(I(g))),
                        lambda: (lambda r: [('g', 'g', r[0]), ('qubits', 'g', r[1])])(tu.condense(T(g))), nt=0 < len(sup) < N)
        elif fname == 'pauli_is_onsite':
            for g in G:
                for i0 in range(N):
                    acc.run('kernel', 'pauli_is_onsite', 'i0=%s' % ('0' if i0 == 0 else ('last' if i0 == N - 1 else 'middle')),
                            'pauli_is_onsite(%s, %d)' % (gstr(g), i0),
                            lambda: [('b', 'r', pu.pauli_is_onsite(I(g), i0))], lambda: [('b', 'r', tu.pauli_is_onsite(T(g), i0))], nt=i0 > 0)
        elif fname == 'pauli_diagonalize1':
            for g in G:
                for i0 in range(N):
                    here = 2 * g[2 * i0] + g[2 * i0 + 1]
                    kind = 'i0=%s,site=%s' % ('0' if i0 == 0 else '>0', 'IZXY'[here])
                    def d1(r_, conv):
                        return [('n', 'r', len(r_)), ('gs', 'g', conv(r_).reshape(len(r_), 2 * N))]
                    acc.run('kernel', 'pauli_diagonalize1', kind, 'pauli_diagonalize1(%s, %d)' % (gstr(g), i0),
                            lambda: d1(pu.pauli_diagonalize1(I(g), i0), lambda r_: np.array(list(r_), dtype=np.int64)),
                            lambda: d1(tu.pauli_diagonalize1(T(g), i0), lambda r_: np.asarray(_np(r_), dtype=np.float64)),
                            nt=bool(g.any()))
        elif fname == 'pauli_diagonalize2':
            A = ref.anti_mat(G)
            for a, g1 in enumerate(G):
                for b, g2 in enumerate(G):
                    if not A[a, b]:
                        continue
                    for i0 in range(N):
                        kind = 'i0=%s,site1=%s' % ('0' if i0 == 0 else '>0', 'IZXY'[2 * g1[2 * i0] + g1[2 * i0 + 1]])

                        def fp():
                            r = pu.pauli_diagonalize2(I(g1), I(g2), i0)
                            return [('n', 'r', len(r[0])), ('gs', 'g', np.array(list(r[0])).reshape(len(r[0]), 2 * N)), ('g1', 'g', r[1]), ('g2', 'g', r[2])]

                        def ft():
                            r = tu.pauli_diagonalize2(T(g1), T(g2), i0)
                            return [('n', 'r', len(r[0])), ('gs', 'g', _np(r[0]).reshape(len(r[0]), 2 * N)), ('g1', 'g', r[1]), ('g2', 'g', r[2])]
                        acc.run('kernel', 'pauli_diagonalize2', kind, 'pauli_diagonalize2(%s, %s, %d)' % (gstr(g1), gstr(g2), i0), fp, ft)
        elif fname == 'mask':
            for k in range(1, N + 1):
                for qs in itertools.permutations(range(N), k):
                    kind = 'ascending' if list(qs) == sorted(qs) else 'unordered'
                    for form in ('list', 'tuple'):
                        q = list(qs) if form == 'list' else tuple(qs)
                        acc.run('kernel', 'mask', kind + ',' + form, 'mask(%r, %d)' % (q, N),
                                lambda: [('mask', 'g', pu.mask(q, N))], lambda: [('mask', 'g', tu.mask(q, N))], nt=len(qs) < N)
        elif fname == 'binary_repr':
            for k in range(0, N + 1):           # here N = max number of bits
                n = 2 ** k
                for width in [None] + list(range(1, N + 2)):
                    kind = 'width=%s' % ('None' if width is None else ('given>=needed' if width >= k else 'given<needed'))
                    if k == 0 and width is None:
                        kind = 'width=None,single-zero'
                    acc.run('kernel', 'binary_repr', kind, 'binary_repr(arange(%d), width=%s)' % (n, width),
                            lambda: [('bits', 'g', pu.binary_repr(np.arange(n), width))],
                            lambda: [('bits', 'g', tu.binary_repr(torch.arange(n), width))], nt=k > 0)
        elif fname == 'aggregate':
            for L in range(1, N + 1):           # here N = max data length
                data = np.array([CPOOL[k % len(CPOOL)] for k in range(L)])
                for l in range(1, L + 1):
                    for inds in itertools.product(range(l), repeat=L):
                        kind = 'injective' if len(set(inds)) == L else 'merging'
                        acc.run('kernel', 'aggregate', kind, 'aggregate(%s, %s, %d)' % (data.tolist(), list(inds), l),
                                lambda: [('out', 'x', pu.aggregate(data.astype(np.complex128), I(inds), l))],
                                lambda: [('out', 'x', tu.aggregate(torch.tensor(data.astype(np.complex64)), torch.tensor(list(inds), dtype=torch.long), l))],
                                nt=kind == 'merging')
        outs.append(acc.out())
    return merge_out(outs)


def kernel_legs(tier):
    out = []
    q = tier == 'quick'
    Np = (1, 2, 3)
    out.append(Leg('k_pair', fn_k_pair, [[N, i] for N in Np for i in range(4 ** N)], chunk=4,
                   bound='acq, ipow: all ordered pairs of strings N<=3, scalar and row-broadcast forms'))
    li = [[N, f, 0] for N in Np for f in ('ps0', 'pauli_tokenize')]
    li += [[N, f, i] for N in (1, 2) for f in ('acq_mat', 'batch_dot') for i in range(4 ** N)]
    out.append(Leg('k_lists', fn_k_lists, li, chunk=2,
                   bound='ps0, pauli_tokenize: whole group N<=3 in one call and row by row; acq_mat: all pairs (N<=2), triples (N=1), '
                         'whole group; batch_dot: 4 phases of every string x whole group both orders, group x group'))
    out.append(Leg('k_combine', fn_k_combine, [[N, i, p] for N in (1, 2) for i in range(4 ** N) for p in range(4)], chunk=2,
                   bound='pauli_combine: N=1 all ordered triples of (string,phase) x 8 selections; N=2 all 64x64 ordered pairs x 4 selections'))
    ti = [[N, m] for N in (1, 2) for m in _maps_for(N, tier, 2)]
    out.append(Leg('k_transform', fn_k_transform, ti, chunk=24, src_states=len(ti),
                   bound='pauli_transform of the whole group (4 phases), map_to_state, state_to_map: N=1 all 24 maps; N=2 %s' % (
                       'all 720 tables x 2 sign patterns (one rotating through all 16 + all-plus)' if q else 'all 11520 maps')))
    out.append(Leg('k_rotate', fn_k_rotate, [[N, i] for N in Np for i in range(4 ** N)], chunk=4,
                   bound='clifford_rotate (+-generator) and clifford_rotate_signless: all generators x whole group, N<=3'))
    pi = [[N, t, 1] for N in (1, 2) for t in range(len(gs_tabs(N)))]
    if q:
        reps = sorted({(t // (3 * 16)) * 3 + t % 3 for t in _rep_tabs(2)})
        pi += [[2, t, 2] for t in reps]
    else:
        pi += [[2, t, 2] for t in range(len(gs_tabs(2)))]
    out.append(Leg('k_project', fn_k_project, pi, chunk=16, src_states=len(gs_tabs(1)) + len(gs_tabs(2)),
                   bound='stabilizer_project: all (table, r) tableaux N<=2 (phases are not read: complete) x every single string; all 90 ordered '
                         'independent commuting pairs on %s' % ('the tableaux of one representative per density matrix' if q else 'all N=2 tableaux')))
    tr = [[N, t, 1] for N in (1, 2) for t in _tabs_for(N, tier)]
    tr += [[2, t, 3] for t in _rep_tabs(2)] if q else [[2, t, 2] for t in _tabs_for(2, 'quick')]
    out.append(Leg('k_trace', fn_k_trace, tr, chunk=16, src_states=len(tr), timeout=3000,
                   bound='stabilizer_projection_trace: N=1 all 48 tableaux, N=2 %s x all signed Hermitian observables; ordered commuting '
                         'pairs (signs -+; thorough also ++) on %s' % (
                             ('720 tables x 1 sign pattern (rotating through all 16) x 3 ranks', 'one tableau per density matrix (91)') if q else
                             ('all 34560 tableaux', '720 tables x 1 rotating sign pattern x 3 ranks'))))
    ex = [[N, t, 'q' if (q and N == 2) else 'f'] for N in (1, 2) for t in _tabs_for(N, tier)]
    out.append(Leg('k_expect', fn_k_expect, ex, chunk=16, src_states=len(ex), timeout=3000,
                   bound='stabilizer_expect (whole group, all 4 observable phases) and vectorizable_stabilizer_expect (%s): same tableau set as k_trace' % (
                       'every string once, phase rotating with string and tableau index' if q else 'whole group, all 4 phases')))
    en = []
    for N in (1, 2, 3):
        tot = len(_stab_lists(N))
        if q and N == 3:
            tot = 1 + 63 + len(dom.commuting_lists(3, 2))      # quick: the mixed N=3 lists (length <= 2); pure N=3 lists in the thorough tier
        en += [[N, lo, min(lo + 40, tot)] for lo in range(0, tot, 40)]
    out.append(Leg('k_entropy', fn_k_entropy, en, chunk=2,
                   bound='stabilizer_entropy: all ordered independent commuting lists of length 0..N x all 2^N boolean masks, N<=%s' % ('2, and N=3 lists of length <= 2 (mixed states)' if q else '3')))
    zi = []
    shapes = [(1, 1), (1, 2), (2, 1), (2, 2), (2, 3), (3, 2), (3, 3), (2, 4), (4, 2)] + ([] if q else [(3, 4), (4, 3), (4, 4)])
    for nr, nc in shapes:
        tot = 2 ** (nr * nc)
        zi += [['z2rank', nr, nc, lo, min(lo + 512, tot)] for lo in range(0, tot, 512)]
    for n in ((1, 2, 3) if q else (1, 2, 3, 4)):
        tot = 2 ** (n * n)
        zi += [['z2inv', n, n, lo, min(lo + 4096, tot)] for lo in range(0, tot, 4096)]
    zi += [['z2inv_sp', 4, 4, lo, lo + 90] for lo in range(0, 720, 90)] + [['z2inv_sp', 2, 2, 0, 6]]
    out.append(Leg('k_z2', fn_k_z2, zi, chunk=1,
                   bound='z2rank: all binary matrices of shapes %s; z2inv: all square binary matrices up to %s (singular ones raise in both), '
                         'all 6 + 720 symplectic tables' % (shapes, '3x3' if q else '4x4')))
    mi = [[f, N] for f in ('front', 'condense', 'pauli_is_onsite', 'pauli_diagonalize1', 'mask') for N in (1, 2, 3)]
    mi += [['pauli_diagonalize2', N] for N in (1, 2, 3)]
    mi += [['binary_repr', 4], ['aggregate', 4]]
    out.append(Leg('k_misc', fn_k_misc, mi, chunk=1,
                   bound='front, condense, pauli_is_onsite, pauli_diagonalize1/2 (all anticommuting pairs), mask (all ordered qubit tuples): all '
                         'strings N<=3 with every target qubit; binary_repr up to 4 bits all widths; aggregate all index maps of up to 4 entries'))
    return out



# ------------------------------------------------------------------------------ class level
class _Py(object):
    name = 'py'

    def __init__(self):
        self.alg, self.st, self.ci = lib.ppa, lib.pst, lib.pci
    P = staticmethod(lib.P)
    PL = staticmethod(lib.PL)
    CM = staticmethod(lib.CM)
    ST = staticmethod(lib.ST)
    POLY = staticmethod(lib.POLY)

    def mask(self, bools):
        return np.array(bools, dtype=np.bool_)

    def ints(self, a):
        return np.array(a, dtype=lib.INT)


class _Tq(object):
    name = 'torch'

    def __init__(self):
        m = TM()
        self.alg, self.st, self.ci, self.torch = m['tpa'], m['tst'], m['tci'], m['torch']
    P = staticmethod(lib.tP)
    PL = staticmethod(lib.tPL)
    CM = staticmethod(lib.tCM)
    ST = staticmethod(lib.tST)
    POLY = staticmethod(lib.tPOLY)

    def mask(self, bools):
        return self.torch.tensor(list(map(bool, bools)), dtype=self.torch.bool)

    def ints(self, a):
        return lib.tT(a)


_SIDES = {}


def sides():
    if not _SIDES:
        _SIDES['py'], _SIDES['tq'] = _Py(), _Tq()
    return _SIDES['py'], _SIDES['tq']


def _is_num(o):
    if isinstance(o, (int, float, complex, np.number, np.ndarray, bool)):
        return True
    return lib._tc is not None and lib._tc['torch'].is_tensor(o)


def rep(o):
    """representation of a library object as comparable fields (types are not compared:
    PauliMonomial (pyclifford only) = one-term polynomial)."""
    if o is None:
        return [('none', 's', None)]
    if isinstance(o, str):
        return [('text', 's', o)]
    if isinstance(o, (list, tuple)) and not (len(o) and _is_num(o[0])):
        out = []
        for k, x in enumerate(o):
            out += [('%d.%s' % (k, n), t, v) for n, t, v in rep(x)]
        return [('len', 'r', len(o))] + out
    if _is_num(o) or isinstance(o, (list, tuple)):
        return [('value', 'x', o)]
    if hasattr(o, 'cs'):
        return [('gs', 'g', np.atleast_2d(_int(o.gs))), ('ps', 'p', np.atleast_1d(_int(o.ps))),
                ('cs', 'x', np.atleast_1d(np.asarray(_np(o.cs), dtype=complex)))]
    if hasattr(o, 'c'):
        return [('gs', 'g', np.atleast_2d(_int(o.g))), ('ps', 'p', np.atleast_1d(_int(o.p))),
                ('cs', 'x', np.atleast_1d(np.asarray(_np(o.c), dtype=complex)))]
    if hasattr(o, 'r') and hasattr(o, 'gs'):
        return [('gs', 'g', o.gs), ('ps', 'p', o.ps), ('r', 'r', o.r)]
    if hasattr(o, 'gs'):
        return [('gs', 'g', o.gs), ('ps', 'p', o.ps)]
    if hasattr(o, 'g'):
        return [('g', 'g', o.g), ('p', 'p', np.squeeze(_int(o.p)))]
    return [('repr', 's', repr(o))]


def cl(acc, func, kind, label, op, nt=True, **kw):
    """one class-level case: op(side) builds FRESH operands with the side's own types and returns the result."""
    py, tq = sides()
    return acc.run('class', func, kind, label, lambda: rep(op(py)), lambda: rep(op(tq)), nt=nt, **kw)


PREFIX = [('', 0), ('+', 0), ('-', 2), ('i', 1), ('+i', 1), ('-i', 3)]
LET2CODE = {'I': 0, 'X': 1, 'Y': 2, 'Z': 3}


def fn_c_parse(items):
    """item = [N]: pauli(...) / paulis(...) in every accepted description format for all strings of N qubits."""
    outs = []
    for item in items:
        (N,), sel = split(item, 1)
        acc = Acc([N], sel)
        G = ref.all_g(N)
        strs = [gstr(g) for g in G]
        for s in strs:
            codes = [LET2CODE[c] for c in s]
            for pre, p in PREFIX:
                cl(acc, 'pauli', 'str,prefix=%r' % pre, 'pauli(%r)' % (pre + s), lambda S: S.alg.pauli(pre + s), nt=bool(pre))
            cl(acc, 'pauli', 'code-list', 'pauli(%r)' % (codes,), lambda S: S.alg.pauli(list(codes)))
            cl(acc, 'pauli', 'code-tuple', 'pauli(%r)' % (tuple(codes),), lambda S: S.alg.pauli(tuple(codes)))
            cl(acc, 'pauli', 'code-ndarray', 'pauli(array(%r))' % (codes,), lambda S: S.alg.pauli(np.array(codes)))
            cl(acc, 'pauli', 'letter-list', 'pauli(%r)' % (list(s),), lambda S: S.alg.pauli(list(s)))
            for tok in (4, 5, 6, 7):
                cl(acc, 'pauli', 'code-list,phase-token-first', 'pauli(%r)' % ([tok] + codes,), lambda S: S.alg.pauli([tok] + codes))
                cl(acc, 'pauli', 'code-list,phase-token-last', 'pauli(%r)' % (codes + [tok],), lambda S: S.alg.pauli(codes + [tok]))
            d = {i: c for i, c in enumerate(codes) if c}
            cl(acc, 'pauli', 'dict', 'pauli(%r, N=%d)' % (d, N), lambda S: S.alg.pauli(dict(d), N))
            cl(acc, 'pauli', 'Pauli-object', 'pauli(Pauli(%s))' % s, lambda S: S.alg.pauli(S.P(ref.str_to_g(s), 3)))
        # lists
        sg = ['-i' + strs[-1], strs[0], '-' + strs[len(strs) // 2], 'i' + strs[1]]
        forms = [('varargs', lambda S: S.alg.paulis(*sg)), ('list', lambda S: S.alg.paulis(list(sg))), ('tuple', lambda S: S.alg.paulis(tuple(sg))),
                 ('generator', lambda S: S.alg.paulis(x for x in sg)), ('ndarray-of-str', lambda S: S.alg.paulis(np.array(sg))),
                 ('single-str', lambda S: S.alg.paulis(sg[0])), ('all-strings', lambda S: S.alg.paulis(strs)),
                 ('code-lists', lambda S: S.alg.paulis([[LET2CODE[c] for c in x] for x in strs])),
                 ('dicts', lambda S: S.alg.paulis([{0: 1}, {N - 1: 3}, {}], N=N)),
                 ('PauliList', lambda S: S.alg.paulis(S.PL(G, np.arange(len(G)) % 4))),
                 ('Pauli-objects', lambda S: S.alg.paulis([S.P(g, k % 4) for k, g in enumerate(G)]))]
        for nm, op in forms:
            cl(acc, 'paulis', nm, 'paulis(<%s> of N=%d)' % (nm, N), op)
        cl(acc, 'pauli_identity', 'N', 'pauli_identity(%d)' % N, lambda S: S.alg.pauli_identity(N))
        cl(acc, 'pauli_zero', 'N', 'pauli_zero(%d)' % N, lambda S: S.alg.pauli_zero(N))
        outs.append(acc.out())
    return merge_out(outs)


SCAL = [1, -1, 1j, -1j, 2.5, -0.5, 1 + 2j, 2]


def _sc(c):
    return ('unit' if c in (1, -1, 1j, -1j) else 'general') + ('' if isinstance(c, complex) else ',real')


def poly_desc(N, k):
    """deterministic pool of polynomials (gs, ps, cs): two-term polynomials over all pairs of group
    elements (index k = i * M + j) incl. equal strings that add up or cancel exactly."""
    Gs, Ps = allp(N)
    M = len(Gs)
    i, j = divmod(k, M)
    if (i + j) % 3 == 0:
        cs = [1.0, 1.0]
    else:
        cs = [CPOOL[i % len(CPOOL)], CPOOL[(i + 2 * j + 1) % len(CPOOL)]]
    return np.array([Gs[i], Gs[j]]), np.array([Ps[i], Ps[j]]), np.array(cs, dtype=complex)


def poly_kind(gs, ps, cs):
    same = len(gs) == 2 and (gs[0] == gs[1]).all()
    if same:
        tot = cs[0] * 1j ** int(ps[0]) + cs[1] * 1j ** int(ps[1])
        return 'repeated-string,' + ('cancelling' if abs(tot) < 1e-9 else 'adding')
    return 'distinct-strings'


def fn_c_pauli(items):
    """item = [N, i1]: Pauli algebra with left operand string #i1 (all 4 phases) against every group element."""
    outs = []
    for item in items:
        (N, i1), sel = split(item, 2)
        acc = Acc([N, i1], sel)
        G = ref.all_g(N)
        Gs, Ps = allp(N)
        g1 = G[i1]
        A = ref.anti(g1[None, :], Gs)
        ident = not g1.any()
        for p1 in range(4):
            s1 = gstr(g1, p1)
            for j in range(len(Gs)):
                g2, p2 = Gs[j], int(Ps[j])
                s2 = gstr(g2, p2)
                cl(acc, 'Pauli.__matmul__', 'anticommuting' if A[j] else 'commuting', '%s @ %s' % (s1, s2),
                   lambda S: S.P(g1, p1) @ S.P(g2, p2), nt=bool(A[j]) or bool(p1 or p2))
                k = poly_kind([g1, g2], [p1, p2], [1, 1])
                cl(acc, 'Pauli.__add__', 'operand=Pauli,' + k, '%s + %s' % (s1, s2), lambda S: S.P(g1, p1) + S.P(g2, p2))
                k = poly_kind([g1, g2], [p1, p2 + 2], [1, 1])
                cl(acc, 'Pauli.__add__', 'operand=Pauli,' + k, '%s - %s' % (s1, s2), lambda S: S.P(g1, p1) - S.P(g2, p2))
            cl(acc, 'Pauli.__neg__', 'any', '-(%s)' % s1, lambda S: -S.P(g1, p1))
            for c in SCAL:
                cl(acc, 'Pauli.__rmul__', 'scalar=' + _sc(c), '%r * %s' % (c, s1), lambda S: c * S.P(g1, p1))
                cl(acc, 'Pauli.__truediv__', 'scalar=' + _sc(c), '%s / %r' % (s1, c), lambda S: S.P(g1, p1) / c)
            cl(acc, 'trace', ('identity-string,phase%s0' % ('=' if p1 == 0 else '!=') if ident else 'traceless-string'),
               '(%s).trace()' % s1, lambda S: S.P(g1, p1).trace(), nt=ident)
            cl(acc, 'weight', 'Pauli', '(%s).weight()' % s1, lambda S: S.P(g1, p1).weight())
            cl(acc, 'tokenize', 'Pauli,p=%d' % p1, '(%s).tokenize()' % s1, lambda S: S.P(g1, p1).tokenize())
            cl(acc, 'copy', 'Pauli', '(%s).copy()' % s1, lambda S: S.P(g1, p1).copy())
            cl(acc, 'as_polynomial', 'Pauli', '(%s).as_polynomial()' % s1, lambda S: S.P(g1, p1).as_polynomial())
            cl(acc, 'as_list', 'Pauli', '(%s).as_list()' % s1, lambda S: S.P(g1, p1).as_list())
            cl(acc, 'Pauli.N', 'Pauli', '(%s).N' % s1, lambda S: S.P(g1, p1).N)
            for c in (2.5, 1j, 0):
                cl(acc, 'Pauli.__add__', 'operand=number', '%s + %r' % (s1, c), lambda S: S.P(g1, p1) + c)
                cl(acc, 'Pauli.__add__', 'operand=number', '%r + %s' % (c, s1), lambda S: c + S.P(g1, p1))
                cl(acc, 'Pauli.__add__', 'operand=number', '%s - %r' % (s1, c), lambda S: S.P(g1, p1) - c)
            # other operand types: polynomial, list
            pg, pp, pc = poly_desc(N, (7 * i1 + p1) % (len(Gs) ** 2))
            cl(acc, 'Pauli.__matmul__', 'operand=PauliPolynomial', '%s @ poly' % s1, lambda S: S.P(g1, p1) @ S.POLY(pg, pp, pc))
            cl(acc, 'Pauli.__add__', 'operand=PauliPolynomial', '%s + poly' % s1, lambda S: S.P(g1, p1) + S.POLY(pg, pp, pc))
            cl(acc, 'Pauli.__add__', 'operand=PauliPolynomial', '%s - poly' % s1, lambda S: S.P(g1, p1) - S.POLY(pg, pp, pc))
            cl(acc, 'Pauli.__add__', 'operand=PauliList', '%s + list' % s1, lambda S: S.P(g1, p1) + S.PL(pg, pp))
            cl(acc, 'Pauli.__matmul__', 'operand=PauliList', '%s @ list' % s1, lambda S: S.P(g1, p1) @ S.PL(pg, pp))
        outs.append(acc.out())
    return merge_out(outs)


def _getitems(S, L):
    return [('int0', 0), ('int-1', -1), ('np.int', np.int64(L - 1)), ('slice', slice(0, L, 2)), ('slice-tail', slice(1, None)),
            ('bool-mask', S.mask([k % 2 == 0 for k in range(L)])), ('index-array', S.ints([L - 1, 0]).astype(int) if S.name == 'py' else S.ints([L - 1, 0]).long())]


def fn_c_list(items):
    """item = [N]: PauliList methods on the whole group (all phases) and on sub-lists."""
    outs = []
    for item in items:
        (N,), sel = split(item, 1)
        acc = Acc([N], sel)
        Gs, Ps = allp(N)
        L = len(Gs)
        mk = lambda S: S.PL(Gs, Ps)
        cl(acc, 'PauliList.__neg__', 'any', '-list', lambda S: -mk(S))
        for c in SCAL:
            cl(acc, 'PauliList.__rmul__', 'scalar=' + _sc(c), '%r * list' % (c,), lambda S: c * mk(S))
            cl(acc, 'PauliList.__truediv__', 'scalar=' + _sc(c), 'list / %r' % (c,), lambda S: mk(S) / c)
        cl(acc, 'trace', 'identity-string,phase!=0', 'list.trace()', lambda S: mk(S).trace())
        cl(acc, 'trace', 'identity-string,phase=0', 'list[phase 0 part].trace()', lambda S: S.PL(Gs[:L // 4], Ps[:L // 4]).trace())
        cl(acc, 'trace', 'traceless-string', 'list[without identity].trace()', lambda S: S.PL(Gs[1:L // 4], Ps[L // 4 + 1: L // 2]).trace())
        cl(acc, 'weight', 'PauliList', 'list.weight()', lambda S: mk(S).weight())
        cl(acc, 'tokenize', 'PauliList', 'list.tokenize()', lambda S: mk(S).tokenize())
        cl(acc, 'copy', 'PauliList', 'list.copy()', lambda S: mk(S).copy())
        cl(acc, 'as_polynomial', 'PauliList', 'list.as_polynomial()', lambda S: mk(S).as_polynomial())
        cl(acc, 'PauliList.L,N', 'any', '(len(list), list.L, list.N)', lambda S: [len(mk(S)), mk(S).L, mk(S).N])
        py, tq = sides()
        for (nm, ip), (_, it) in zip(_getitems(py, L), _getitems(tq, L)):
            if ip is None:
                continue
            acc.run('class', 'PauliList.__getitem__', nm, 'list[%s]' % nm, lambda: rep(mk(py)[ip]), lambda: rep(mk(tq)[it]))
        for k in range(L):
            acc.run('class', 'PauliList.__getitem__', 'int', 'list[%d]' % k, lambda: rep(mk(py)[k]), lambda: rep(mk(tq)[k]))
        cl(acc, 'PauliList.__iter__', 'any', 'list(iter(list))[:5]', lambda S: [x for x in mk(S)][:5])
        outs.append(acc.out())
    return merge_out(outs)


def fn_c_poly(items):
    """item = [N, lo, hi, npart]: PauliPolynomial algebra on pool polynomials #lo..hi-1, npart partner polynomials for + - @."""
    outs = []
    for item in items:
        (N, lo, hi, npart), sel = split(item, 4)
        acc = Acc([N, lo, hi, npart], sel)
        Gs, Ps = allp(N)
        M = len(Gs)
        partners = [0, M + 1, (M * M) // 2 + 3, 2 * M + 2 + 2 * (M // 4), 1, M * M - 1, 5 * M + 7, 3 * M + 3][:npart]
        for k in range(lo, hi):
            gs, ps, cs = poly_desc(N, k)
            kd = poly_kind(gs, ps, cs)
            mk = lambda S: S.POLY(gs, ps, cs)
            nm = 'poly#%d[%s]' % (k, ' + '.join('(%s)%s' % (c, gstr(g, p)) for g, p, c in zip(gs, ps, cs)))
            cl(acc, 'PauliPolynomial.reduce', kd, nm + '.reduce()', lambda S: mk(S).reduce(), nt=kd != 'distinct-strings')
            cl(acc, 'PauliPolynomial.reduce', kd + ',tol=1e-3', nm + '.reduce(1e-3)', lambda S: mk(S).reduce(1e-3))
            cl(acc, 'PauliPolynomial.__neg__', 'any', '-' + nm, lambda S: -mk(S))
            for c in (2.5, 1j, 1 + 2j, 0):
                cl(acc, 'PauliPolynomial.__rmul__', 'scalar', '%r * %s' % (c, nm), lambda S: c * mk(S))
            for c in (2, -0.5, 1j):
                cl(acc, 'PauliPolynomial.__truediv__', 'scalar', '%s / %r' % (nm, c), lambda S: mk(S) / c)
            idph = any((not g.any()) and p % 4 for g, p in zip(gs, ps))
            idany = any(not g.any() for g in gs)
            cl(acc, 'trace', ('identity-string,phase!=0' if idph else ('identity-string,phase=0' if idany else 'traceless-string')),
               nm + '.trace()', lambda S: mk(S).trace(), nt=idany)
            cl(acc, 'weight', 'PauliPolynomial', nm + '.weight()', lambda S: mk(S).weight())
            cl(acc, 'tokenize', 'PauliPolynomial', nm + '.tokenize()', lambda S: mk(S).tokenize())
            cl(acc, 'copy', 'PauliPolynomial', nm + '.copy()', lambda S: mk(S).copy())
            cl(acc, 'as_polynomial', 'PauliPolynomial', nm + '.as_polynomial()', lambda S: mk(S).as_polynomial())
            py, tq = sides()
            for (gn, ip), (_, it) in zip(_getitems(py, 2), _getitems(tq, 2)):
                if ip is None:
                    continue
                acc.run('class', 'PauliPolynomial.__getitem__', gn, '%s[%s]' % (nm, gn), lambda: rep(mk(py)[ip]), lambda: rep(mk(tq)[it]))
            for c in (2.5, 1j):
                cl(acc, 'PauliPolynomial.__add__', 'operand=number', '%s + %r' % (nm, c), lambda S: mk(S) + c)
                cl(acc, 'PauliPolynomial.__add__', 'operand=number', '%r + %s' % (c, nm), lambda S: c + mk(S))
                cl(acc, 'PauliPolynomial.__add__', 'operand=number', '%s - %r' % (nm, c), lambda S: mk(S) - c)
            cl(acc, 'PauliPolynomial.__add__', 'operand=Pauli', nm + ' + Pauli', lambda S: mk(S) + S.P(gs[1], 3))
            cl(acc, 'PauliPolynomial.__add__', 'operand=Pauli', 'Pauli + ' + nm, lambda S: S.P(gs[0], 2) + mk(S))
            cl(acc, 'PauliPolynomial.__add__', 'operand=Pauli', nm + ' - Pauli', lambda S: mk(S) - S.P(gs[0], ps[0]))
            cl(acc, 'PauliPolynomial.__add__', 'operand=PauliList', nm + ' + PauliList', lambda S: mk(S) + S.PL(gs[::-1], ps))
            cl(acc, 'PauliPolynomial.__matmul__', 'operand=Pauli', nm + ' @ Pauli', lambda S: mk(S) @ S.P(gs[1], 1))
            cl(acc, 'PauliPolynomial.__matmul__', 'operand=PauliList', nm + ' @ PauliList', lambda S: mk(S) @ S.PL(gs, ps))
            cl(acc, 'PauliPolynomial.__add__', 'operand=self(empty result)', nm + ' - ' + nm, lambda S: mk(S) - mk(S))
            cl(acc, 'PauliPolynomial.__add__', 'operand=empty-polynomial', '(%s - itself) + %s' % (nm, nm), lambda S: (mk(S) - mk(S)) + mk(S))
            cl(acc, 'PauliPolynomial.__matmul__', 'operand=empty-polynomial', '(%s - itself) @ %s' % (nm, nm), lambda S: (mk(S) - mk(S)) @ mk(S))
            cl(acc, 'trace', 'empty-polynomial', '(%s - itself).trace()' % nm, lambda S: (mk(S) - mk(S)).trace())
            for q in partners:
                g2, p2, c2 = poly_desc(N, (q + k) % (M * M))
                mk2 = lambda S: S.POLY(g2, p2, c2)
                n2 = 'poly#%d' % ((q + k) % (M * M))
                cl(acc, 'PauliPolynomial.__add__', 'operand=PauliPolynomial', '%s + %s' % (nm, n2), lambda S: mk(S) + mk2(S))
                cl(acc, 'PauliPolynomial.__add__', 'operand=PauliPolynomial', '%s - %s' % (nm, n2), lambda S: mk(S) - mk2(S))
                cl(acc, 'PauliPolynomial.__matmul__', 'operand=PauliPolynomial', '%s @ %s' % (nm, n2), lambda S: mk(S) @ mk2(S))
                cl(acc, 'PauliPolynomial.reduce', 'product', '(%s @ %s).reduce()' % (nm, n2), lambda S: (mk(S) @ mk2(S)).reduce())
        outs.append(acc.out())
    return merge_out(outs)



# ---- rotations and transforms
def _subsets(N, n):
    return [list(c) for c in itertools.combinations(range(N), n)]


def _mask_kind(qs, N):
    if len(qs) == N:
        return 'full'
    return 'contiguous' if qs[-1] - qs[0] + 1 == len(qs) else 'non-contiguous'


def _fixed_states(N):
    """a few tableaux (gs, ps, r) spread over the enumeration incl. mixed ones and signs."""
    tabs = stab.tableaux(N)
    idx = sorted({0, len(tabs) - 1, len(tabs) // 2 + 1, len(tabs) // 3 + 2, (2 * len(tabs)) // 3, 5 % len(tabs), len(tabs) // 5})
    return [(i, tabs[i]) for i in idx]


def _big_states(N):
    """N=3 states (the enumeration covers N<=2): products of an N=2 tableau on qubits (0,2) with a signed
    one-qubit tableau on qubit 1, every rank."""
    out = []
    t2 = stab.tableaux(2)
    t1 = stab.tableaux(1)
    for a, b in ((7, 5), (len(t2) // 2 + 1, 11), (len(t2) - 2, 40), (3001, 22)):
        g2, p2, r2 = t2[a]
        g1, p1, r1 = t1[b]
        # stabilizers first, then destabilizers; standby rows first among the stabilizers
        rows = []
        for blk in (0, 1):
            part2 = [(np.array([g2[k + 2 * blk][0], g2[k + 2 * blk][1], 0, 0, g2[k + 2 * blk][2], g2[k + 2 * blk][3]]), p2[k + 2 * blk], k < r2) for k in range(2)]
            part1 = [(np.array([0, 0, g1[blk][0], g1[blk][1], 0, 0]), p1[blk], r1 == 1)]
            allr = part2 + part1
            order = [x for x in range(3) if allr[x][2]] + [x for x in range(3) if not allr[x][2]]
            rows.append([allr[x] for x in order])
        gs = np.array([r_[0] for r_ in rows[0]] + [r_[0] for r_ in rows[1]])
        ps = np.array([r_[1] for r_ in rows[0]] + [r_[1] for r_ in rows[1]])
        r = r2 + r1
        assert ref.tableau_invariant(gs, ps, r) == '', ref.tableau_invariant(gs, ps, r)
        out.append((gs, ps, r))
    return out


_BS = {}


def big_states(N):
    if N not in _BS:
        _BS[N] = _big_states(N)
    return _BS[N]


def fn_c_rotate(items):
    """item = [N, gi]: obj.rotate_by(+-G[gi]) without mask for every object kind."""
    outs = []
    for item in items:
        (N, gi), sel = split(item, 2)
        acc = Acc([N, gi], sel)
        G = ref.all_g(N)
        Gs, Ps = allp(N)
        cs = np.array([CPOOL[k % len(CPOOL)] for k in range(len(Gs))])
        A = ref.anti(G[gi][None, :], Gs)
        for p in (0, 2):
            sg = gstr(G[gi], p)
            gen = lambda S: S.P(G[gi], p)
            rk = lambda f, r: 'shape' if r is None else ('anticommuting-row' if A[r] else 'commuting-row')
            cl(acc, 'PauliList.rotate_by', rk, 'PauliList(whole group).rotate_by(%s)' % sg, lambda S: S.PL(Gs, Ps).rotate_by(gen(S)))
            cl(acc, 'PauliPolynomial.rotate_by', rk, 'PauliPolynomial(whole group).rotate_by(%s)' % sg, lambda S: S.POLY(Gs, Ps, cs).rotate_by(gen(S)))
            if N <= 2:
                for j in range(len(Gs)):
                    cl(acc, 'Pauli.rotate_by', 'anticommuting' if A[j] else 'commuting', '(%s).rotate_by(%s)' % (gstr(Gs[j], Ps[j]), sg),
                       lambda S: S.P(Gs[j], Ps[j]).rotate_by(gen(S)), nt=bool(A[j]))
                reps = _rep_tabs(N)
                for ti in reps:
                    gs0, ps0, r0 = stab.tableaux(N)[ti]
                    cl(acc, 'StabilizerState.rotate_by', 'pure' if r0 == 0 else 'mixed',
                       lambda: '%s.rotate_by(%s)' % (stab.describe(gs0, ps0, r0), sg), lambda S: S.ST(gs0, ps0, r0).rotate_by(gen(S)))
                nm = len(dom.valid_maps(N))
                for mi in sorted({0, nm - 1, nm // 2 + 3, nm // 3 + 1}):
                    gm, pm = dom.valid_maps(N)[mi]
                    cl(acc, 'CliffordMap.rotate_by', 'map', 'map#%d.rotate_by(%s)' % (mi, sg), lambda S: S.CM(gm, pm).rotate_by(gen(S)))
            else:
                for gs0, ps0, r0 in big_states(N):
                    cl(acc, 'StabilizerState.rotate_by', 'pure' if r0 == 0 else 'mixed',
                       lambda: '%s.rotate_by(%s)' % (stab.describe(gs0, ps0, r0), sg), lambda S: S.ST(gs0, ps0, r0).rotate_by(gen(S)))
        outs.append(acc.out())
    return merge_out(outs)


def fn_c_rotate_mask(items):
    """item = [N, n, gi]: n-qubit generator +-G_n[gi] applied through every n-subset mask of N qubits."""
    py, tq = sides()
    outs = []
    for item in items:
        (N, n, gi), sel = split(item, 3)
        acc = Acc([N, n, gi], sel)
        g = ref.all_g(n)[gi]
        Gs, Ps = allp(N)
        cs = np.array([CPOOL[k % len(CPOOL)] for k in range(len(Gs))])
        states = [t for _, t in _fixed_states(N)] if N <= 2 else big_states(N)
        for qs in _subsets(N, n):
            bools = [q in qs for q in range(N)]
            mk = _mask_kind(qs, N)
            for p in (0, 2):
                sg = gstr(g, p)
                gen = lambda S: S.P(g, p)
                cl(acc, 'PauliList.rotate_by', 'mask=' + mk, 'PauliList(whole group).rotate_by(%s, mask=%s)' % (sg, qs),
                   lambda S: S.PL(Gs, Ps).rotate_by(gen(S), mask=S.mask(bools)))
                cl(acc, 'PauliList.rotate_by', 'mask=' + mk + ',numpy-bool-mask', 'PauliList(whole group).rotate_by(%s, mask=numpy %s)' % (sg, qs),
                   lambda S: S.PL(Gs, Ps).rotate_by(gen(S), mask=np.array(bools)))
                cl(acc, 'PauliPolynomial.rotate_by', 'mask=' + mk, 'PauliPolynomial(whole group).rotate_by(%s, mask=%s)' % (sg, qs),
                   lambda S: S.POLY(Gs, Ps, cs).rotate_by(gen(S), mask=S.mask(bools)))
                cl(acc, 'Pauli.rotate_by', 'mask=' + mk, 'Pauli.rotate_by(%s, mask=%s)' % (sg, qs),
                   lambda S: [S.P(Gs[j], Ps[j]).rotate_by(gen(S), mask=S.mask(bools)) for j in range(0, len(Gs), max(1, len(Gs) // 16))])
                for gs0, ps0, r0 in states:
                    cl(acc, 'StabilizerState.rotate_by', 'mask=' + mk + (',pure' if r0 == 0 else ',mixed'),
                       lambda: '%s.rotate_by(%s, mask=%s)' % (stab.describe(gs0, ps0, r0), sg, qs),
                       lambda S: S.ST(gs0, ps0, r0).rotate_by(gen(S), mask=S.mask(bools)))
        outs.append(acc.out())
    return merge_out(outs)


def _partners(N):
    nm = len(dom.valid_maps(N))
    if N == 1:
        return list(range(nm))
    return sorted({(k * 1531 + 7) % nm for k in range(8)})


def fn_c_map(items):
    """item = [N, mi]: transform_by(map #mi) of every object kind; compose / inverse / copy / to_state / to_map."""
    outs = []
    for item in items:
        (N, mi), sel = split(item, 2)
        acc = Acc([N, mi], sel)
        gm, pm = dom.valid_maps(N)[mi]
        Gs, Ps = allp(N)
        G = ref.all_g(N)
        cs = np.array([CPOOL[k % len(CPOOL)] for k in range(len(Gs))])
        ov = (Gs[:, 0::2] & Gs[:, 1::2]).sum(-1)
        sgn = 'signed-map' if pm.any() else 'unsigned-map'
        rk = lambda f, r: 'shape' if r is None else (('input-with-Y' if ov[r] else 'input-without-Y') + ',' + sgn)
        mp = lambda S: S.CM(gm, pm)
        nm = 'map#%d%s' % (mi, [gstr(g, p) for g, p in zip(gm, pm)])
        cl(acc, 'PauliList.transform_by', rk, 'PauliList(whole group).transform_by(%s)' % nm, lambda S: S.PL(Gs, Ps).transform_by(mp(S)))
        cl(acc, 'PauliPolynomial.transform_by', rk, 'PauliPolynomial(whole group).transform_by(%s)' % nm, lambda S: S.POLY(Gs, Ps, cs).transform_by(mp(S)))
        for j, g in enumerate(G):
            pj = (j + mi) % 4
            cl(acc, 'Pauli.transform_by', ('input-with-Y' if ov[j] else 'input-without-Y') + ',' + sgn, '(%s).transform_by(%s)' % (gstr(g, pj), nm),
               lambda S: S.P(g, pj).transform_by(mp(S)))
        for ti, (gs0, ps0, r0) in _fixed_states(N):
            cl(acc, 'StabilizerState.transform_by', ('pure,' if r0 == 0 else 'mixed,') + sgn, lambda: '%s.transform_by(%s)' % (stab.describe(gs0, ps0, r0), nm),
               lambda S: S.ST(gs0, ps0, r0).transform_by(mp(S)))
        cl(acc, 'CliffordMap.inverse', sgn, nm + '.inverse()', lambda S: mp(S).inverse())
        cl(acc, 'CliffordMap.copy', sgn, nm + '.copy()', lambda S: mp(S).copy())
        cl(acc, 'CliffordMap.to_state', sgn + ',r=None', nm + '.to_state()', lambda S: mp(S).to_state())
        for r in range(N + 1):
            cl(acc, 'CliffordMap.to_state', sgn + ',r=int', nm + '.to_state(%d)' % r, lambda S: mp(S).to_state(r))
            tg, tp = dom.map_to_tableau(gm, pm)
            cl(acc, 'StabilizerState.to_map', sgn, 'state(tableau of %s, r=%d).to_map()' % (nm, r), lambda S: S.ST(tg, tp, r).to_map())
            cl(acc, 'StabilizerState.copy', sgn + (',pure' if r == 0 else ',mixed'), 'state(tableau of %s, r=%d).copy()' % (nm, r), lambda S: S.ST(tg, tp, r).copy())
            cl(acc, 'CliffordMap.to_state', sgn + ',round-trip', nm + '.to_state(%d).to_map()' % r, lambda S: pre(lambda: mp(S).to_state(r)).to_map())
        for qi in _partners(N):
            g2, p2 = dom.valid_maps(N)[qi]
            cl(acc, 'CliffordMap.compose', 'self-first', '%s.compose(map#%d)' % (nm, qi), lambda S: mp(S).compose(S.CM(g2, p2)))
            cl(acc, 'CliffordMap.compose', 'self-second', 'map#%d.compose(%s)' % (qi, nm), lambda S: S.CM(g2, p2).compose(mp(S)))
        cl(acc, 'CliffordMap.compose', 'with-inverse', '%s.compose(its inverse)' % nm, lambda S: mp(S).compose(mp(S).inverse()))
        outs.append(acc.out())
    return merge_out(outs)


def fn_c_map_mask(items):
    """item = [N, n, mi]: n-qubit map #mi through every n-subset mask of N qubits: transform_by(map, mask)
    on lists / polynomials / states, and identity_map(N).embed(map, mask)."""
    outs = []
    for item in items:
        (N, n, mi), sel = split(item, 3)
        acc = Acc([N, n, mi], sel)
        gm, pm = dom.valid_maps(n)[mi]
        G = ref.all_g(N)
        Pq = (np.arange(len(G)) + mi) % 4
        cs = np.array([CPOOL[k % len(CPOOL)] for k in range(len(G))])
        states = [t for _, t in _fixed_states(N)][:4] if N <= 2 else big_states(N)
        mp = lambda S: S.CM(gm, pm)
        nm = 'map%d#%d' % (n, mi)
        for qs in _subsets(N, n):
            bools = [q in qs for q in range(N)]
            mk = _mask_kind(qs, N)
            cl(acc, 'PauliList.transform_by', 'mask=' + mk, 'PauliList(all strings).transform_by(%s, mask=%s)' % (nm, qs),
               lambda S: S.PL(G, Pq).transform_by(mp(S), mask=S.mask(bools)))
            if n == 1 or mi % 16 == 0:
                cl(acc, 'PauliPolynomial.transform_by', 'mask=' + mk, 'PauliPolynomial(all strings).transform_by(%s, mask=%s)' % (nm, qs),
                   lambda S: S.POLY(G, Pq, cs).transform_by(mp(S), mask=S.mask(bools)))
            cl(acc, 'Pauli.transform_by', 'mask=' + mk, 'Pauli.transform_by(%s, mask=%s)' % (nm, qs),
               lambda S: [S.P(G[j], Pq[j]).transform_by(mp(S), mask=S.mask(bools)) for j in (1, len(G) // 2 + 1, len(G) - 1)])
            for gs0, ps0, r0 in states:
                cl(acc, 'StabilizerState.transform_by', 'mask=' + mk + (',pure' if r0 == 0 else ',mixed'),
                   lambda: '%s.transform_by(%s, mask=%s)' % (stab.describe(gs0, ps0, r0), nm, qs),
                   lambda S: S.ST(gs0, ps0, r0).transform_by(mp(S), mask=S.mask(bools)))
            cl(acc, 'CliffordMap.embed', lambda f, r: 'any-mask' if f == 'raise' else 'mask=' + mk, 'identity_map(%d).embed(%s, mask=%s)' % (N, nm, qs),
               lambda S: S.st.identity_map(N).embed(mp(S), S.mask(bools)))
        outs.append(acc.out())
    return merge_out(outs)


# ---- states
def fn_c_state(items):
    """item = [N, tableau index]: queries of a stabilizer state."""
    outs = []
    for item in items:
        (N, ti), sel = split(item, 2)
        acc = Acc([N, ti], sel)
        gs0, ps0, r0 = stab.tableaux(N)[ti]
        Gs, Ps = allp(N)
        G = ref.all_g(N)
        pur = 'pure' if r0 == 0 else 'mixed'
        st = lambda S: S.ST(gs0, ps0, r0)
        nm = lambda: str(stab.describe(gs0, ps0, r0))

        def ek(f, row):
            if row is None:
                return pur + ',shape'
            k = step_kind(gs0, ps0, r0, Gs[row])
            return pur + ',' + ('eigen' if k.startswith('eigen') else 'zero-expectation')
        cl(acc, 'StabilizerState.expect', lambda f, r: 'operand=PauliList,' + ek(f, r), lambda: nm() + '.expect(PauliList whole group)',
           lambda S: _with_receiver(st(S), lambda a: a.expect(S.PL(Gs, Ps))))
        for j, g in enumerate(G):
            pj = (j + ti) % 4
            k = step_kind(gs0, ps0, r0, g)
            cl(acc, 'StabilizerState.expect', 'operand=Pauli,' + pur + ',' + ('eigen' if k.startswith('eigen') else 'zero-expectation'),
               lambda: nm() + '.expect(%s)' % gstr(g, pj), lambda S: st(S).expect(S.P(g, pj)), nt=k.startswith('eigen'))
        cs = np.array([CPOOL[k % len(CPOOL)] for k in range(len(Gs))])
        cl(acc, 'StabilizerState.expect', 'operand=PauliPolynomial,' + pur, lambda: nm() + '.expect(polynomial over the whole group)',
           lambda S: st(S).expect(S.POLY(Gs, Ps, cs)))
        pg, pp, pc = poly_desc(N, (ti * 37 + 11) % (len(Gs) ** 2))
        cl(acc, 'StabilizerState.expect', 'operand=PauliPolynomial,' + pur, lambda: nm() + '.expect(two-term polynomial)',
           lambda S: st(S).expect(S.POLY(pg, pp, pc)))
        for sub in dom.subsets(N):
            sk = 'empty' if not sub else ('whole' if len(sub) == N else 'proper')
            forms = [('list', lambda: list(sub)), ('tuple', lambda: tuple(sub)), ('int-ndarray', lambda: np.array(sub, dtype=int))]
            if sub:
                forms.append(('bool-ndarray', lambda: np.array([q in sub for q in range(N)])))
            for fn_, mkf in forms:
                cl(acc, 'StabilizerState.entropy', 'subsys=%s,%s' % (fn_, sk) if fn_ != 'bool-ndarray' else 'subsys=bool-ndarray',
                   lambda: nm() + '.entropy(%s %s)' % (fn_, sub), lambda S: st(S).entropy(mkf()), nt=bool(sub) and len(sub) < N)
        cl(acc, 'StabilizerState.density_matrix', pur, lambda: nm() + '.density_matrix', lambda S: st(S).density_matrix)
        for bits in itertools.product((0, 1), repeat=N):
            cl(acc, 'StabilizerState.get_prob', pur, lambda: nm() + '.get_prob(%s)' % (bits,), lambda S: _with_receiver(st(S), lambda a: a.get_prob(S.ints(bits))))
        cl(acc, 'StabilizerState.to_map', pur, lambda: nm() + '.to_map()', lambda S: st(S).to_map())
        cl(acc, 'StabilizerState.copy', pur, lambda: nm() + '.copy()', lambda S: st(S).copy())
        cl(acc, 'StabilizerState.tokenize', pur, lambda: nm() + '.tokenize()', lambda S: st(S).tokenize())
        cl(acc, 'StabilizerState.stabilizers', pur, lambda: nm() + '.stabilizers', lambda S: st(S).stabilizers)
        cl(acc, 'StabilizerState.__neg__', pur, lambda: '-' + nm(), lambda S: -st(S))
        cl(acc, 'StabilizerState.__rmul__', pur, lambda: '2.5 * ' + nm(), lambda S: 2.5 * st(S))
        cl(acc, 'StabilizerState.__truediv__', pur, lambda: nm() + ' / 2', lambda S: st(S) / 2)
        cl(acc, 'StabilizerState.__sub__', pur + ',operand=polynomial', lambda: nm() + ' - its density matrix', lambda S: st(S) - st(S).density_matrix)
        cl(acc, 'StabilizerState.__matmul__', pur + ',operand=Pauli', lambda: nm() + ' @ Pauli', lambda S: st(S) @ S.P(G[-1], 1))
        outs.append(acc.out())
    return merge_out(outs)


def _query_with_parties(a, b):
    """expect(state) returning [receiver after, operand after, value]: both packages must also leave the
    same receiver / operand behind (a query that overwrites its receiver diverges here)."""
    v = a.expect(b)
    return [a, b, v]


def _with_receiver(a, f):
    v = f(a)
    return [a, v]


def fn_c_overlap(items):
    """item = [N, receiver tableau index, mode]: expect(StabilizerState): receiver x operand states; mode 'r' = one
    operand per density matrix (all ranks), mode 's' = 8 operands spread over the enumeration."""
    outs = []
    for item in items:
        (N, ti, mode), sel = split(item, 3)
        acc = Acc([N, ti, mode], sel)
        gs0, ps0, r0 = stab.tableaux(N)[ti]
        tabs = stab.tableaux(N)
        ops = _rep_tabs(N) if mode == 'r' else sorted({(k * 4007 + 3 * ti + 1) % len(tabs) for k in range(8)})
        for oi in ops:
            g1, p1, r1 = tabs[oi]
            cl(acc, 'StabilizerState.expect', 'operand=StabilizerState,receiver=%s,operand-%s' % ('pure' if r0 == 0 else 'mixed', 'pure' if r1 == 0 else 'mixed'),
               lambda: '%s.expect(%s)' % (stab.describe(gs0, ps0, r0), stab.describe(g1, p1, r1)),
               lambda S, g1=g1, p1=p1, r1=r1: _query_with_parties(S.ST(gs0, ps0, r0), S.ST(g1, p1, r1)), nt=r0 == 0)
        outs.append(acc.out())
    return merge_out(outs)


def fn_c_ctor(items):
    """item = ['named', N] | ['stab', N, L, lo, hi]: constructors."""
    outs = []
    for item in items:
        if item[0] == 'named':
            (_, N), sel = split(item, 2)
            acc = Acc(['named', N], sel)
            for nm_ in ('zero_state', 'one_state', 'maximally_mixed_state', 'ghz_state'):
                cl(acc, nm_, 'N', '%s(%d)' % (nm_, N), lambda S: getattr(S.st, nm_)(N))
            cl(acc, 'identity_map', 'N', 'identity_map(%d)' % N, lambda S: S.st.identity_map(N))
            cl(acc, 'zero_state', 'then-queries', 'zero_state(%d).expect(one_state(%d))' % (N, N), lambda S: S.st.zero_state(N).expect(S.st.one_state(N)))
            if N <= 3:
                for g, p in dom.hermitian_paulis(N):
                    s_ = ('-' if p == 2 else '') + gstr(g)
                    cl(acc, 'clifford_rotation_map', 'Pauli', 'clifford_rotation_map(Pauli %s)' % gstr(g, p), lambda S: S.st.clifford_rotation_map(S.P(g, p)))
                    cl(acc, 'clifford_rotation_map', 'str', 'clifford_rotation_map(%r)' % s_, lambda S: S.st.clifford_rotation_map(s_))
            outs.append(acc.out())
            continue
        (_, N, L, lo, hi), sel = split(item, 5)
        acc = Acc(['stab', N, L, lo, hi], sel)
        G = ref.all_g(N)
        lists = dom.commuting_lists(N, L)[lo:hi]
        signs = list(itertools.product((0, 2), repeat=L)) if N <= 2 else [tuple([0] * L), tuple([2] * L), tuple(2 * (k % 2) for k in range(L))]
        for idx in lists:
            for sg in signs:
                gs, ps = G[list(idx)], np.array(sg)
                strs = [('-' if p == 2 else '') + gstr(g) for g, p in zip(gs, ps)]
                kd = 'L=N' if L == N else 'L<N'
                cl(acc, 'stabilizer_state', 'input=PauliList,' + kd, 'stabilizer_state(PauliList %s)' % strs, lambda S: S.st.stabilizer_state(S.PL(gs, ps)))
                cl(acc, 'stabilizer_state', 'input=strings', 'stabilizer_state(*%s)' % strs, lambda S: S.st.stabilizer_state(*strs))
                cl(acc, 'stabilizer_state', 'input=strings', 'stabilizer_state(%s)' % strs, lambda S: S.st.stabilizer_state(list(strs)))
        outs.append(acc.out())
    return merge_out(outs)


# ---- gates, layers, circuits
T_H = (np.array([[0, 1], [1, 0]]), np.array([0, 0]))
T_S = (np.array([[1, 1], [0, 1]]), np.array([0, 0]))
T_SX = (np.array([[1, 0], [1, 1]]), np.array([0, 2]))
T_CX = (np.array([[1, 0, 1, 0], [0, 1, 0, 0], [0, 0, 1, 0], [0, 1, 0, 1]]), np.array([0, 0, 0, 0]))
T_CZY = (np.array([[1, 0, 0, 1], [0, 1, 0, 0], [0, 1, 1, 0], [0, 0, 0, 1]]), np.array([0, 2, 2, 0]))   # signed CZ-like table


def alphabet(N):
    """gate letters (name, kind, qubits, data) on ascending qubit tuples."""
    if N == 2:
        return [('H0', 'fwd', (0,), T_H), ('S1', 'fwd', (1,), T_S), ('CX01', 'fwd', (0, 1), T_CX), ('bS0', 'bwd', (0,), T_S),
                ('R+ZZ', 'gen', (0, 1), ('ZZ', 0)), ('R-XY', 'gen', (0, 1), ('XY', 2)), ('R-Y1', 'gen', (1,), ('Y', 2)), ('M01', 'fwd', (0, 1), T_CZY)]
    return [('H0', 'fwd', (0,), T_H), ('S1', 'fwd', (1,), T_S), ('X2', 'fwd', (2,), T_SX), ('CX01', 'fwd', (0, 1), T_CX), ('CX12', 'fwd', (1, 2), T_CX),
            ('M02', 'fwd', (0, 2), T_CZY), ('bS0', 'bwd', (0,), T_S), ('bCX12', 'bwd', (1, 2), T_CX), ('R+ZZ01', 'gen', (0, 1), ('ZZ', 0)),
            ('R-XY02', 'gen', (0, 2), ('XY', 2)), ('R+XYZ', 'gen', (0, 1, 2), ('XYZ', 0)), ('R-Y2', 'gen', (2,), ('Y', 2))]


def mk_gate(S, letter):
    nm, kind, qs, data = letter
    g = S.ci.CliffordGate(*qs)
    if kind == 'fwd':
        g.set_forward_map(S.CM(*data))
    elif kind == 'bwd':
        g.set_backward_map(S.CM(*data))
    else:
        g.set_generator(S.P(ref.str_to_g(data[0]), data[1]))
    return g


def mk_circ(S, N, letters):
    c = S.ci.identity_circuit(N)
    for l in letters:
        c.take(mk_gate(S, l))
    return c


def layout(c):
    """structure of a circuit: per layer the gates' qubits and which data they carry."""
    out = []
    for layer in c.layers_forward():
        out.append(tuple((tuple(int(q) for q in g.qubits), g.generator is not None, g.forward_map is not None, g.backward_map is not None) for g in layer.gates))
    return repr(out)


def _circ_inputs(S, N):
    G = ref.all_g(N)
    Pq = np.arange(len(G)) % 4
    ins = [('PauliList', lambda: S.PL(G, Pq))]
    sts = [t for _, t in _fixed_states(N)][1:4] if N <= 2 else big_states(N)[:3]
    for k, (gs0, ps0, r0) in enumerate(sts):
        ins.append(('state%d' % k, (lambda gs0=gs0, ps0=ps0, r0=r0: S.ST(gs0, ps0, r0))))
    return ins


def fn_c_circ(items):
    """item = [N, program...]: program = letter indices; every configuration of gates / layers / circuits."""
    outs = []
    for item in items:
        N = item[0]
        alpha = alphabet(N)
        # programs are variable length: the case selector is recognised by a trailing ['#', k]
        if len(item) >= 2 and item[-2] == '#':
            prog, sel = list(item[1:-2]), item[-1]
        else:
            prog, sel = list(item[1:]), None
        acc = Acc([N] + prog + ['#'], sel)
        letters = [alpha[k] for k in prog]
        pn = '+'.join(l[0] for l in letters)
        kinds = sorted({l[1] for l in letters})
        pk = 'len=%d,%s' % (len(letters), '+'.join(kinds))
        locality = 'local' if any(len(l[2]) < N for l in letters) else 'global'
        py, tq = sides()
        nin = len(_circ_inputs(py, N))

        def both_dirs(func, kind, label, build):
            """build(S) -> object with forward/backward; applied to each input."""
            for k in range(nin):
                for d in ('forward', 'backward'):
                    cl(acc, func + '.' + d, kind, lambda: '%s.%s(%s)' % (label, d, _circ_inputs(py, N)[k][0]),
                       lambda S: getattr(build(S), d)(_circ_inputs(S, N)[k][1]()))
        if len(letters) == 1:
            l = letters[0]
            gk = 'gate=%s,%s' % (l[1], 'global' if len(l[2]) == N else 'local')
            both_dirs('CliffordGate', gk, 'gate %s' % l[0], lambda S: mk_gate(S, l))
            both_dirs('CliffordGate', gk + ',copy', 'gate %s copy' % l[0], lambda S: mk_gate(S, l).copy())
            both_dirs('CliffordGate', gk + ',compiled', 'gate %s compiled' % l[0], lambda S: pre(lambda: mk_gate(S, l).compile()))
            cl(acc, 'CliffordGate.compile', gk, 'gate %s .compile() maps' % l[0], lambda S: (lambda g: [g.forward_map, g.backward_map])(mk_gate(S, l).compile()))
            both_dirs('CliffordLayer', gk, 'layer(%s)' % l[0], lambda S: S.ci.CliffordLayer(mk_gate(S, l)))
            cl(acc, 'CliffordLayer.compile', lambda f, r: 'any-gate' if f == 'raise' else gk, 'layer(%s).compile(%d) maps' % (l[0], N),
               lambda S: (lambda y: [y.forward_map, y.backward_map])(S.ci.CliffordLayer(mk_gate(S, l)).compile(N)))
            both_dirs('CliffordLayer', gk + ',compiled', 'layer(%s) compiled' % l[0], lambda S: pre(lambda: S.ci.CliffordLayer(mk_gate(S, l)).compile(N)))
        if len(letters) == 2 and not set(letters[0][2]) & set(letters[1][2]):
            both_dirs('CliffordLayer', 'two-disjoint-gates', 'layer(%s)' % pn, lambda S: S.ci.CliffordLayer(*[mk_gate(S, l) for l in letters]))
            both_dirs('CliffordLayer', 'two-disjoint-gates,copy', 'layer(%s).copy()' % pn, lambda S: S.ci.CliffordLayer(*[mk_gate(S, l) for l in letters]).copy())
        cl(acc, 'CliffordCircuit.take', pk, 'circuit(%s) layout' % pn, lambda S: [('layout', layout(mk_circ(S, N, letters)))][0][1])
        cl(acc, 'CliffordCircuit.N', pk, 'circuit(%s).N' % pn, lambda S: mk_circ(S, N, letters).N)
        both_dirs('CliffordCircuit', pk + ',' + locality, 'circuit(%s)' % pn, lambda S: mk_circ(S, N, letters))
        both_dirs('CliffordCircuit', pk + ',' + locality + ',copy', 'circuit(%s).copy()' % pn, lambda S: mk_circ(S, N, letters).copy())
        cl(acc, 'CliffordCircuit.compile', lambda f, r: 'any-program' if f == 'raise' else pk, 'circuit(%s).compile() maps' % pn,
           lambda S: (lambda c: [c.forward_map, c.backward_map])(mk_circ(S, N, letters).compile()))
        both_dirs('CliffordCircuit', pk + ',compiled', 'circuit(%s).compile()' % pn, lambda S: pre(lambda: mk_circ(S, N, letters).compile()))
        cl(acc, 'CliffordCircuit.copy', lambda f, r: 'compiled' if f == 'raise' else 'compiled,' + pk, 'circuit(%s).compile().copy() maps' % pn,
           lambda S: (lambda c: [c.forward_map, c.backward_map])(pre(lambda: mk_circ(S, N, letters).compile()).copy()))
        both_dirs('CliffordCircuit', pk + ',copy-of-compiled', 'circuit(%s).compile().copy()' % pn, lambda S: pre(lambda: mk_circ(S, N, letters).compile().copy()))

        def with_maps(S):
            c = mk_circ(S, N, letters)
            c.forward_map = S.st.identity_map(N)
            c.backward_map = S.st.identity_map(N)
            return c.copy()
        cl(acc, 'CliffordCircuit.copy', 'forward_map-set', 'circuit(%s) with forward_map/backward_map set .copy() maps' % pn,
           lambda S: (lambda c: [c.forward_map, c.backward_map])(with_maps(S)))
        if len(letters) >= 2:
            # histories on one circuit object / between a compiled circuit and its copy (both packages must agree):
            # compile -> extend -> compile, and compile -> copy -> extend the copy -> compile the copy -> compile the ORIGINAL again
            for cut in (range(1, len(letters)) if len(letters) <= 3 else (len(letters) - 1,)):
                def ext_hist(S, cut=cut):
                    c = mk_circ(S, N, letters[:cut])
                    c.compile()
                    for l in letters[cut:]:
                        c.take(mk_gate(S, l))
                    c.compile()
                    return c
                both_dirs('CliffordCircuit.history', pk + ',compile-extend-compile', 'circuit(%s).compile(), +%s, compile()' % (
                    '+'.join(l[0] for l in letters[:cut]), '+'.join(l[0] for l in letters[cut:])), lambda S, cut=cut: pre(lambda: ext_hist(S, cut)))

                def copy_hist(S, cut=cut):
                    c1 = mk_circ(S, N, letters[:cut])
                    c1.compile()
                    c2 = c1.copy()
                    for l in letters[cut:]:
                        c2.take(mk_gate(S, l))
                    c2.compile()
                    c1.compile()
                    return c1, c2
                both_dirs('CliffordCircuit.history', pk + ',original-after-copy-extended', 'c1=circuit(%s).compile(); c2=c1.copy()+%s; c2.compile(); c1.compile(); c1' % (
                    '+'.join(l[0] for l in letters[:cut]), '+'.join(l[0] for l in letters[cut:])), lambda S, cut=cut: pre(lambda: copy_hist(S, cut))[0])
                both_dirs('CliffordCircuit.history', pk + ',extended-copy-after-original-recompiled', 'c1=circuit(%s).compile(); c2=c1.copy()+%s; c2.compile(); c1.compile(); c2' % (
                    '+'.join(l[0] for l in letters[:cut]), '+'.join(l[0] for l in letters[cut:])), lambda S, cut=cut: pre(lambda: copy_hist(S, cut))[1])
            for cut in range(1, len(letters)):
                both_dirs('CliffordCircuit.compose', pk, 'circuit(%s).compose(circuit(%s))' % ('+'.join(l[0] for l in letters[:cut]), '+'.join(l[0] for l in letters[cut:])),
                          lambda S: mk_circ(S, N, letters[:cut]).compose(mk_circ(S, N, letters[cut:])))
        outs.append(acc.out())
    return merge_out(outs)


def fn_c_diag(items):
    """item = [what, N]: clifford_rotation_gate for all Hermitian generators; diagonalize for all Hermitian
    Paulis x target qubit x causal flag and for pure states."""
    outs = []
    for item in items:
        (what, N), sel = split(item, 2)
        acc = Acc([what, N], sel)
        G = ref.all_g(N)
        Pq = np.arange(len(G)) % 4
        if what == 'rotation_gate':
            for g, p in dom.hermitian_paulis(N):
                sup = np.nonzero(g[0::2] | g[1::2])[0]
                kd = 'hermitian-generator'

                def describe(S, qubits=None):
                    gate = S.ci.clifford_rotation_gate(S.P(g, p)) if qubits is None else S.ci.clifford_rotation_gate(S.P(g, p), qubits)
                    return [repr(tuple(int(q) for q in gate.qubits)), gate.generator]
                cl(acc, 'clifford_rotation_gate', kd, 'clifford_rotation_gate(%s)' % gstr(g, p), lambda S: describe(S), nt=0 < len(sup) < N)
                cl(acc, 'clifford_rotation_gate', lambda f, r: kd if f == 'raise' else kd + ',qubits-given', 'clifford_rotation_gate(%s, arange(1,%d))' % (gstr(g, p), N + 1),
                   lambda S: describe(S, np.arange(1, N + 1)))
                if len(sup):
                    cl(acc, 'clifford_rotation_gate', kd + ',then-forward', 'clifford_rotation_gate(%s).forward(all strings)' % gstr(g, p),
                       lambda S: pre(lambda: S.ci.clifford_rotation_gate(S.P(g, p))).forward(S.PL(G, Pq)))
        elif what == 'diagonalize':
            for g, p in dom.hermitian_paulis(N):
                for i0 in range(N):
                    for causal in (False, True):
                        here = g[2 * i0:] if causal else g
                        diag = (not np.delete(here.reshape(-1, 2), 0 if causal else i0, axis=0).any()) and here.reshape(-1, 2)[0 if causal else i0][0] == 0
                        kd = 'operand=Pauli,%s,%s' % ('causal' if causal else 'non-causal', 'already-diagonal(no gate)' if diag else 'needs-gates')

                        def run(S):
                            c = S.ci.diagonalize(S.P(g, p), i0, causal=causal)
                            return [layout(c), c.forward(S.PL(G, Pq)), c.forward(S.P(g, p))]
                        cl(acc, 'diagonalize', kd, 'diagonalize(%s, %d, causal=%s)' % (gstr(g, p), i0, causal), run, nt=not diag)
            for ti, (gs0, ps0, r0) in enumerate([] if N > 2 else [stab.tableaux(N)[k] for k in _rep_tabs(N)]):
                if r0:
                    continue

                def run(S):
                    c = S.ci.diagonalize(S.ST(gs0, ps0, r0))
                    return [layout(c), c.forward(S.ST(gs0, ps0, r0)), c.backward(S.st.zero_state(N))]
                cl(acc, 'diagonalize', 'operand=StabilizerState', lambda: 'diagonalize(%s)' % (stab.describe(gs0, ps0, r0),), run)
        outs.append(acc.out())
    return merge_out(outs)


def legs(tier):
    q = tier == 'quick'
    out = kernel_legs(tier)
    out.append(Leg('c_parse', fn_c_parse, [[N] for N in (1, 2, 3)], chunk=1, bound='pauli()/paulis() in all description formats, all strings N<=3, all 6 prefixes / 4 phase tokens'))
    out.append(Leg('c_pauli', fn_c_pauli, [[N, i] for N in (1, 2) for i in range(4 ** N)], chunk=1,
                   bound='Pauli algebra: all 64x64 (N=2) / 16x16 (N=1) ordered operand pairs for @, +, -; unary ops, scalars %s, numbers, polynomial / list operands' % (SCAL,)))
    out.append(Leg('c_list', fn_c_list, [[N] for N in (1, 2, 3)], chunk=1, bound='PauliList methods on the whole group N<=3 (all phases), every index form'))
    npart = 4 if q else 8
    pi = [[1, lo, lo + 32, npart] for lo in range(0, 256, 32)]
    n2 = 64 * 64
    pi += [[2, lo, lo + 1, npart] for lo in range(0, n2, 15)] if q else [[2, lo, lo + 16, npart] for lo in range(0, n2, 16)]
    out.append(Leg('c_poly', fn_c_poly, pi, chunk=8,
                   bound='PauliPolynomial algebra on the pool of two-term polynomials over all pairs of group elements: N=1 all 256, N=2 %s; '
                         '%d partner polynomials each for + - @' % ('every 15th of the 4096 (274 polynomials, every left and right element occurs)' if q else 'all 4096', npart)))
    out.append(Leg('c_rotate', fn_c_rotate, [[N, i] for N in (1, 2, 3) for i in range(4 ** N)], chunk=2,
                   bound='rotate_by(+-G) without mask: all generators N<=3 on PauliList / PauliPolynomial (whole group), every Pauli, one state per density '
                         'matrix (N<=2), 4 product states (N=3), 4 maps'))
    rm = [[N, n, i] for N in (2, 3) for n in range(1, N) for i in range(4 ** n)]
    out.append(Leg('c_rotate_mask', fn_c_rotate_mask, rm, chunk=1,
                   bound='rotate_by(+-G, mask): all n-qubit generators through every n-subset of N qubits (N=2,3; incl. the non-contiguous mask [0,2])'))
    mi = [[N, m] for N in (1, 2) for m in _maps_for(N, tier, 1)]
    out.append(Leg('c_map', fn_c_map, mi, chunk=8, src_states=len(mi), timeout=3000,
                   bound='transform_by / inverse / copy / to_state(r) / to_map / compose with 8 partner maps on both sides: N=1 all 24 maps (all 24x24 '
                         'compositions), N=2 %s' % ('720 tables x 1 sign pattern rotating through all 16' if q else 'all 11520 maps')))
    mm = [[N, 1, m] for N in (2, 3) for m in range(24)] + [[3, 2, m] for m in _maps_for(2, tier, 1)]
    out.append(Leg('c_map_mask', fn_c_map_mask, mm, chunk=8, timeout=3000,
                   bound='transform_by(map, mask) and identity_map(N).embed(map, mask): all 24 one-qubit maps at every position of N=2,3; two-qubit maps '
                         '(%s) through the three masks of N=3' % ('720 tables x 1 rotating sign pattern' if q else 'all 11520')))
    si = [[N, t] for N in (1, 2) for t in _tabs_for(N, tier)]
    out.append(Leg('c_state', fn_c_state, si, chunk=8, src_states=len(si), timeout=3000,
                   bound='expect (PauliList / Pauli / polynomial), entropy (4 input forms x all subsets), density_matrix, get_prob (all bit strings), to_map, '
                         'copy, tokenize, stabilizers, operator overloads: N=1 all 48 tableaux, N=2 %s' % (
                             '720 tables x 1 rotating sign pattern x 3 ranks' if q else 'all 34560 tableaux')))
    ov = [[1, t, 'r'] for t in range(48)]
    pure2 = [t for t in _tabs_for(2, tier) if t % 3 == 0]
    reps0 = [t for t in _rep_tabs(2)]
    if q:
        ov += [[2, t, 'r'] for t in reps0] + [[2, t, 's'] for t in pure2] + [[2, t + 1, 's'] for t in pure2[::16]]
    else:
        ov += [[2, t, 'r'] for t in pure2] + [[2, t, 's'] for t in _tabs_for(2, 'quick') if t % 3]
    out.append(Leg('c_overlap', fn_c_overlap, ov, chunk=8, timeout=3000,
                   bound='expect(StabilizerState): N=1 all 48 receivers x 7 operands; N=2 %s (mixed receivers refuse in both packages)' % (
                       'one receiver per density matrix x one operand per density matrix (91x91) and 720 pure receivers x 8 operands' if q else
                       'all 11520 pure receivers x one operand per density matrix (91)')))
    ci = [['named', N] for N in (1, 2, 3, 4)]
    for N in ((1, 2) if q else (1, 2, 3)):
        for L in range(1, N + 1):
            tot = len(dom.commuting_lists(N, L))
            ci += [['stab', N, L, lo, min(lo + 30, tot)] for lo in range(0, tot, 30)]
    out.append(Leg('c_ctor', fn_c_ctor, ci, chunk=2,
                   bound='zero/one/ghz/maximally_mixed/identity_map N<=4; clifford_rotation_map for all Hermitian generators N<=3; stabilizer_state on all ordered '
                         'independent commuting lists N<=%d (all sign patterns for N<=2) in 3 input formats' % (2 if q else 3)))
    pr = []
    for N in (2, 3):
        na = len(alphabet(N))
        for L in ((1, 2) if (q or N == 3) else (1, 2, 3)):
            pr += [[N] + list(w) for w in itertools.product(range(na), repeat=L)]
        if q and N == 2:
            # quick tier: three-gate programs over the first 5 letters (three layers need three overlapping gates)
            pr += [[N] + list(w) for w in itertools.product(range(min(5, na)), repeat=3)]
    # four-gate programs at N=3 over CX01, S1, M02, X2 (and H0): a gate sinks into a non-first layer beside another gate, a later gate overlaps only it
    pr4 = [[3] + list(w) for w in itertools.product((3, 1, 5, 2), repeat=4)]
    if not q:
        pr4 += [[3] + list(w) for w in itertools.product((0, 1, 2, 3, 5), repeat=4) if 0 in w]
    out.append(Leg('c_circ_len4', fn_c_circ, pr4, chunk=2, timeout=3000,
                   bound='the same configurations for all 4-gate programs over the 4 letters CX01, S1, M02, X2 at N=3%s' % ('' if q else ' and over the 5 letters with H0')))
    out.append(Leg('c_circ', fn_c_circ, pr, chunk=2, timeout=3000,
                   bound='gate / layer / circuit forward and backward on the full string list and 3 states, configurations plain / copy / compiled / '
                         'copy-of-compiled / composed at every cut: all programs of length <=%s over 8 letters (N=2) and <=2 over 12 letters (N=3)%s' % (2 if q else 3, '; plus all 125 three-gate programs over the first 5 letters at N=2' if q else '')))
    out.append(Leg('c_diag', fn_c_diag, [[w, N] for w in ('rotation_gate', 'diagonalize') for N in (1, 2, 3)], chunk=1,
                   bound='clifford_rotation_gate: all Hermitian generators N<=3; diagonalize: all Hermitian Paulis x target qubit x causal flag N<=3, pure states N<=2'))
    return out
