"""C12 State-map duality and state constructors denote the documented states."""
import itertools
import numpy as np
from .. import ref, dom, lib, rng, stab
from ..core import Leg, V

PROP = 'C12'
RULE = ('all valid maps of N<=2 with all sign patterns (to_state / to_map / to_state(r)); named constructors N<=4; random constructors over all coin '
        'strings; to_qutip of every tableau N<=2; stabilizer_state on ALL ordered independent commuting signed lists of N<=3 in three input formats; '
        'every anticommuting pair must raise; non-trivial = map/list carries a sign or a non-trivial string')
ASSUMPTIONS = ['dependent lists and non-Hermitian phases are outside the statement', 'bounded to N<=2 maps, N<=3 lists, N<=4 named constructors']


def basis_proj(bits):
    N = len(bits)
    b = int(''.join(str(int(x)) for x in bits), 2)
    m = np.zeros((2 ** N, 2 ** N), dtype=complex)
    m[b, b] = 1
    return m


def _st_arrays(pkg, st):
    if pkg == 'py':
        return np.asarray(st.gs), np.asarray(st.ps) % 4, int(st.r)
    return lib.t2n(st.gs), lib.t2n(st.ps) % 4, int(st.r)


def fn_duality(items):
    """item = [N, ti, pkg]: table ti x every sign pattern."""
    n = nt = 0
    viol = []
    samples = []
    for N, ti, pkg in items:
        t = dom.symplectic_tables(N)[ti]
        pats = dom.sign_patterns(2 * N) if pkg == 'py' else dom.sign_patterns(2 * N)[::3]
        for s in pats:
            item = [N, ti, pkg]
            M = lib.CM(t, s) if pkg == 'py' else lib.tCM(t, s)
            eg, ep = dom.map_to_tableau(t, s)
            want_rho = ref.rho(eg, ep, 0)
            try:
                st = M.to_state()
                gs, ps, r = _st_arrays(pkg, st)
            except Exception as e:
                viol.append(V('C12/to_state/%s/raises-%s' % (pkg, type(e).__name__), item, 'to_state raised %s' % e))
                continue
            n += 1
            nt += int(s.any())
            signed = 'signed' if s.any() else 'unsigned'
            if gs.shape != eg.shape or (gs != eg).any() or r != 0:
                viol.append(V('C12/to_state/%s/rows' % pkg, item, 'to_state rows wrong for map %s' % t.tolist()))
            elif (ps != ep).any():
                viol.append(V('C12/to_state/%s/phases/%s' % (pkg, signed), item, 'to_state of map with signs %s has phases %s, expected %s' % (s.tolist(), ps.tolist(), ep.tolist())))
            elif not np.allclose(ref.rho(gs, ps, r), want_rho):
                viol.append(V('C12/to_state/%s/denotation' % pkg, item, 'to_state does not denote U|0><0|U^dag'))
            # the same state by applying the map to zero_state
            try:
                z = lib.pc.zero_state(N) if pkg == 'py' else lib.torch_mods()['tc'].zero_state(N)
                z.transform_by(M)
                zg, zp, zr = _st_arrays(pkg, z)
                n += 1
                if not np.allclose(ref.rho(zg, zp, zr), want_rho):
                    viol.append(V('C12/apply-to-zero/%s/%s' % (pkg, signed), item, 'zero_state.transform_by(map) differs from the map applied to |0..0>'))
            except Exception as e:
                viol.append(V('C12/apply-to-zero/%s/raises-%s' % (pkg, type(e).__name__), item, 'zero_state.transform_by raised %s' % e))
            # round trip
            try:
                M2 = st.to_map()
                mg = np.asarray(M2.gs) if pkg == 'py' else lib.t2n(M2.gs)
                mp = (np.asarray(M2.ps) if pkg == 'py' else lib.t2n(M2.ps)) % 4
                n += 1
                if (mg != t).any() or (mp != s % 4).any():
                    viol.append(V('C12/roundtrip/%s/%s' % (pkg, signed), item, 'to_state().to_map() != map (signs %s -> %s)' % (s.tolist(), mp.tolist())))
            except Exception as e:
                viol.append(V('C12/roundtrip/%s/raises-%s' % (pkg, type(e).__name__), item, 'to_map raised %s' % e))
            for r in range(N + 1):
                try:
                    sr = M.to_state(r)
                    gs, ps, rr = _st_arrays(pkg, sr)
                    n += 1
                    if rr != r or not np.allclose(ref.rho(gs, ps, rr), ref.rho(eg, ep, r)):
                        viol.append(V('C12/to_state(r)/%s/%s' % (pkg, signed), item, 'to_state(%d) wrong (r=%s)' % (r, rr)))
                    bad = ref.tableau_invariant(gs, ps, rr)
                    if bad:
                        viol.append(V('C12/to_state(r)/%s/invalid' % pkg, item, 'to_state(%d) invalid: %s' % (r, bad)))
                except Exception as e:
                    viol.append(V('C12/to_state(r)/%s/raises-%s' % (pkg, type(e).__name__), item, 'to_state(r) raised %s' % e))
        if not samples and ti % 100 == 3:
            samples.append({'N': N, 'map_rows': [ref.g_to_str(g, p) for g, p in zip(t, dom.sign_patterns(2 * N)[5 % 4 ** N])]})
    return {'n': n, 'nt': nt, 'viol': viol, 'samples': samples}


def fn_named(items):
    """item = [N, pkg]: zero / one / ghz / maximally mixed."""
    n = 0
    viol = []
    for N, pkg in items:
        mod = lib.pc if pkg == 'py' else lib.torch_mods()['tc']
        d = 2 ** N
        ghz = np.zeros((d, d), dtype=complex)
        ghz[0, 0] = ghz[0, d - 1] = ghz[d - 1, 0] = ghz[d - 1, d - 1] = 0.5
        want = {'zero_state': (basis_proj([0] * N), 0), 'one_state': (basis_proj([1] * N), 0),
                'maximally_mixed_state': (np.eye(d) / d, N)}
        if N >= 2:
            want['ghz_state'] = (ghz, 0)
        for nm, (m, r) in want.items():
            try:
                st = getattr(mod, nm)(N)
                gs, ps, rr = _st_arrays(pkg, st)
                n += 1
                bad = ref.tableau_invariant(gs, ps, rr)
                if bad:
                    viol.append(V('C12/%s/%s/invalid' % (nm, pkg), [N, pkg], '%s(%d) invalid: %s' % (nm, N, bad)))
                elif rr != r or not np.allclose(ref.rho(gs, ps, rr), m):
                    viol.append(V('C12/%s/%s/denotation' % (nm, pkg), [N, pkg], '%s(%d) does not denote the documented state' % (nm, N)))
            except Exception as e:
                viol.append(V('C12/%s/%s/raises-%s' % (nm, pkg, type(e).__name__), [N, pkg], '%s(%d) raised %s: %s' % (nm, N, type(e).__name__, e)))
    return {'n': n, 'nt': n, 'viol': viol}


def fn_random(items):
    """item = [N, kind]: 'bit': random_bit_state over all 2^(2N) coin strings: always a computational
    basis state, each of the 2^N basis states equally often.  'pauli': random_pauli_state over the
    coin tree (rejection bounded to +2 coins/qubit): a product of single-qubit pure stabilizer states
    (uniformity of the sampler is decided in C16)."""
    n = 0
    viol = []
    extra = {}
    pc = lib.pc
    for N, kind in items:
        if kind == 'bit':
            counts = {}
            for coins in itertools.product((0, 1), repeat=2 * N):
                rng.script(coins, coins)
                st = pc.random_bit_state(N)
                n += 1
                m = stab.rho_of(st.gs, st.ps, st.r)
                bad = stab.state_check(st, N, dense=N <= 3)
                diag = np.real(np.diag(m))
                if bad or int(st.r) != 0 or not np.allclose(m, np.diag(diag)) or sorted(np.round(diag, 9))[-1] != 1:
                    viol.append(V('C12/random_bit_state/not-basis-state', [N, kind], 'coins %s: not a computational basis state (%s)' % (coins, bad)))
                    continue
                counts[int(np.argmax(diag))] = counts.get(int(np.argmax(diag)), 0) + 1
            if len(counts) != 2 ** N or len(set(counts.values())) != 1:
                viol.append(V('C12/random_bit_state/not-uniform', [N, kind], 'basis state frequencies %s' % counts))
        else:
            one_q = set()
            for gs, ps, r in dom.valid_tableaux(1):
                if r == 0:
                    one_q.add(ref.rho_key(ref.rho(gs, ps, 0)))
            for signs in itertools.product((0, 1), repeat=2 * N):
                def run(coins, signs=signs):
                    rng.script(coins, signs)
                    st = pc.random_pauli_state(N)
                    return rng.consumed()[0], st
                for coins, st in rng.explore(run, max_extra=2 * N):
                    if st is None:
                        extra['truncated'] = extra.get('truncated', 0) + 1
                        continue
                    n += 1
                    m = stab.rho_of(st.gs, st.ps, st.r)
                    # product structure: every single-qubit marginal is pure and rho is their tensor product
                    facs = [ref.ptrace(m, [q], N) for q in range(N)]
                    prod = np.array([[1.0 + 0j]])
                    for f in facs:
                        prod = np.kron(prod, f)
                    if int(st.r) != 0 or any(ref.rho_key(f) not in one_q for f in facs) or not np.allclose(prod, m):
                        viol.append(V('C12/random_pauli_state/not-product', [N, kind], 'coins %s signs %s: not a product of single-qubit stabilizer states' % (coins, signs)))
                        continue
    return {'n': n, 'nt': n, 'viol': viol, 'extra': extra}


def fn_random_r(items):
    """item = [pkg, N]: random_pauli_state(N, r) and random_clifford_state(N, r) for every r under every coin string
    of 8 scripted coins (filler 1): the state has the requested log2-rank r, is a valid tableau, denotes a rank-2^r
    projector/2^r, and random_pauli_state is the tensor product of its one-qubit marginals (r maximally mixed,
    N-r pure)."""
    n = 0
    viol = []
    for pkg, N in items:
        if pkg == 'py':
            mod = lib.pc

            def call(f, coins):
                rng.script(coins, coins)
                return f()
        else:
            from . import c16
            mod = lib.torch_mods()['tc']

            def call(f, coins):
                return c16.run_torch(f)(coins, ())[2]
        for nm in ('random_pauli_state', 'random_clifford_state'):
            ctor = getattr(mod, nm)
            for r in range(N + 1):
                for coins in itertools.product((0, 1), repeat=8):
                    try:
                        st = call(lambda: ctor(N, r), coins)
                        gs, ps, rr = _st_arrays(pkg, st)
                    except Exception as e:
                        viol.append(V('C12/%s(N,r)/%s/raises-%s' % (nm, pkg, type(e).__name__), [pkg, N], '%s(%d,%d) coins %s raised %s: %s' % (nm, N, r, coins, type(e).__name__, e)))
                        break
                    n += 1
                    bad = ref.tableau_invariant(gs, ps, rr)
                    if bad:
                        if pkg == 'py':
                            viol.append(V('C12/%s(N,r)/%s/invalid' % (nm, pkg), [pkg, N], '%s(%d,%d) coins %s invalid: %s' % (nm, N, r, coins, bad)))
                        continue      # validity of the torch samplers is judged by C16
                    m = ref.rho(gs, ps, rr)
                    if rr != r or not ref.is_density(m, rank=2 ** r):
                        viol.append(V('C12/%s(N,r)/%s/rank' % (nm, pkg), [pkg, N], '%s(%d,%d) coins %s: returned r=%d, matrix rank %d' % (nm, N, r, coins, rr, int((np.linalg.eigvalsh(m) > 1e-9).sum()))))
                        continue
                    if nm == 'random_pauli_state':
                        facs = [ref.ptrace(m, [q], N) for q in range(N)]
                        prod = np.array([[1.0 + 0j]])
                        for f_ in facs:
                            prod = np.kron(prod, f_)
                        nmixed = sum(1 for f_ in facs if np.allclose(f_, np.eye(2) / 2))
                        if not np.allclose(prod, m) or nmixed != r:
                            viol.append(V('C12/random_pauli_state(N,r)/%s/not-product' % pkg, [pkg, N], 'random_pauli_state(%d,%d) coins %s is not a product state with %d mixed qubits' % (N, r, coins, r)))
    return {'n': n, 'nt': n, 'viol': viol}


def fn_qutip(items):
    """item = [N, idx]: to_qutip() equals the normalised product of stabilizer projectors."""
    n = 0
    viol = []
    for N, idx in items:
        gs0, ps0, r0 = stab.tableaux(N)[idx]
        st = lib.ST(gs0, ps0, r0)
        q = st.to_qutip()
        n += 1
        m = np.asarray(q.full())
        if not np.allclose(m, stab.rho_of(gs0, ps0, r0), atol=1e-12):
            viol.append(V('C12/to_qutip/%s' % ('pure' if r0 == 0 else 'mixed'), [N, idx], 'to_qutip of %s differs from 2^-r prod (1+S_a)/2' % stab.describe(gs0, ps0, r0)))
        if list(q.dims[0]) != [2] * N:
            viol.append(V('C12/to_qutip/dims', [N, idx], 'dims %s' % (q.dims,)))
    return {'n': n, 'nt': n, 'viol': viol}


def fn_qutip_big(items):
    """item = [N, kind, i]: to_qutip for N>=3: kind 'mixed' = maximally_mixed_state(N) and identity_map(N).to_state(r) for
    every r; kind 'bfs' = i-th tableau of the N=3 BFS set (every rank)."""
    n = 0
    viol = []
    for N, kind, i in items:
        if kind == 'mixed':
            sts = [('maximally_mixed_state(%d)' % N, lib.pc.maximally_mixed_state(N))]
            sts += [('identity_map(%d).to_state(%d)' % (N, r), lib.pc.identity_map(N).to_state(r)) for r in range(N + 1)]
            sts += [('ghz_state(%d).set_r(%d)' % (N, r), lib.pc.ghz_state(N).set_r(r)) for r in range(N + 1)]
        else:
            from . import c06
            if i not in c06._N3:
                c06._N3[i] = c06._n3_states(i, 0)
            sts = [('N=3 BFS tableau #%d' % k, lib.ST(*t)) for k, t in enumerate(c06._N3[i])]
        for nm, st in sts:
            m = np.asarray(st.to_qutip().full())
            n += 1
            want = ref.rho(np.asarray(st.gs).astype(np.int64), np.asarray(st.ps).astype(np.int64), int(st.r))
            if not np.allclose(m, want, atol=1e-12):
                viol.append(V('C12/to_qutip/N>=3/r=%d' % int(st.r), [N, kind, i], 'to_qutip of %s (r=%d) has trace %s and differs from 2^-r prod (1+S_a)/2' % (nm, int(st.r), np.trace(m).real)))
    return {'n': n, 'nt': n, 'viol': viol}


# ---------------------------------------------------------------- constructors after an earlier result was edited in place
def fn_ctor_histories(items):
    """item = [N, pkg]: construct -> edit the returned object in place -> construct again.  Every constructor result is
    edited through the public in-place operations (embed for maps, masked / global rotate_by, masked transform_by)
    and by writing into its gs / ps arrays; after each edit EVERY constructor is called again and must still denote
    its documented state / map (a module-level constant or cache handed out without a copy shows up here)."""
    n = nt = 0
    viol = []
    for N, pkg in items:
        py = pkg == 'py'
        if py:
            mod, P, CM = lib.pc, lib.P, lib.CM
        else:
            m_ = lib.torch_mods()
            mod, P, CM = m_['tc'], lib.tP, lib.tCM
            torch = m_['torch']
        d = 2 ** N
        ghz = np.zeros((d, d), dtype=complex)
        ghz[0, 0] = ghz[0, d - 1] = ghz[d - 1, 0] = ghz[d - 1, d - 1] = 0.5
        gX = [1, 0] + [0, 1] * (N - 1)          # X Z Z ...
        # identity_map first: the very first object a constructor hands out in a process may be the cached master itself
        ctors = {'identity_map': lambda: mod.identity_map(N), 'zero_state': lambda: mod.zero_state(N), 'one_state': lambda: mod.one_state(N),
                 'maximally_mixed_state': lambda: mod.maximally_mixed_state(N),
                 'identity_map.to_state': lambda: mod.identity_map(N).to_state()}
        ghz_strs = ['I' * k + 'ZZ' + 'I' * (N - 2 - k) for k in range(N - 1)] + ['X' * N]
        if N >= 2:
            ctors['ghz_state'] = lambda: mod.ghz_state(N)
            ctors['stabilizer_state(strings)'] = lambda: mod.stabilizer_state(*ghz_strs)
            ctors['stabilizer_state(paulis)'] = lambda: mod.stabilizer_state(mod.paulis(*ghz_strs))
        if hasattr(mod, 'clifford_rotation_map') and N <= 3:
            ctors['clifford_rotation_map'] = lambda: mod.clifford_rotation_map(P(gX, 2))
        # parsed operators are sources of edits too (a memoised parse handing out its arrays shows up in the string constructors)
        sources = dict(ctors)
        if N >= 2:
            for k_, s_ in enumerate(ghz_strs[:3]):
                sources['pauli(%r)' % s_] = (lambda s_=s_: mod.pauli(s_))
            sources['paulis(strings)'] = lambda: mod.paulis(*ghz_strs)
        want_state = {'zero_state': (basis_proj([0] * N), 0), 'one_state': (basis_proj([1] * N), 0), 'maximally_mixed_state': (np.eye(d) / d, N),
                      'ghz_state': (ghz, 0), 'identity_map.to_state': (basis_proj([0] * N), 0),
                      'stabilizer_state(strings)': (ghz, 0), 'stabilizer_state(paulis)': (ghz, 0)}
        rot_ref = ref.map_perm  # noqa (kept for readers: rotation maps are compared with the first pristine call below)

        def arrays(o):
            return (lib.t2n(o.gs).copy(), lib.t2n(o.ps).copy() % 4, int(getattr(o, 'r', 0)))
        pristine = {}
        if 'clifford_rotation_map' in ctors:       # reference rows of the rotation map: U^dag X_i U, U^dag Z_i U by the exactly signed rule
            from .c02 import ref_rotate
            eg, ep, _ = ref_rotate(np.array(gX), 2, np.eye(2 * N, dtype=np.int64), np.zeros(2 * N, dtype=np.int64))
            pristine['clifford_rotation_map'] = (eg, ep % 4, 0)

        def judge(nm, after):
            try:
                o = ctors[nm]()
                gs, ps, r = arrays(o)
            except Exception as e:
                viol.append(V('C12/history/%s/%s/raises-%s' % (nm.split('.')[0], pkg, type(e).__name__), [N, pkg],
                              '%s: %s(%d) called after %s raised %s: %s' % (pkg, nm, N, after, type(e).__name__, str(e)[:160])))
                return False
            if nm in want_state:
                bad = ref.tableau_invariant(gs, ps, r)
                ok = (not bad) and r == want_state[nm][1] and np.allclose(ref.rho(gs, ps, r), want_state[nm][0])
            elif nm == 'identity_map':
                ok = np.array_equal(gs, np.eye(2 * N, dtype=gs.dtype)) and not ps.any()
            else:
                ok = np.array_equal(gs, pristine[nm][0]) and np.array_equal(ps, pristine[nm][1])
            if not ok:
                viol.append(V('C12/history/%s/%s/after-%s' % (nm.split('.')[0], pkg, after.split(' ')[0]), [N, pkg],
                              '%s: %s(%d) built after %s no longer denotes its documented %s (rows %s, phases %s)' % (
                                  pkg, nm, N, after, 'state' if nm in want_state else 'map', [ref.g_to_str(g) for g in gs], ps.tolist())))
            return ok
        t1, s1 = dom.valid_maps(1)[7]
        mb = np.zeros(N, dtype=bool)
        mb[N - 1] = True
        mk_mask = (lambda: mb.copy()) if py else (lambda: torch.tensor(mb.copy()))
        edits = [('rotate_by', lambda o: o.rotate_by(P(gX, 0))),
                 ('rotate_by-mask', lambda o: o.rotate_by(P([1, 1], 0), mask=mk_mask())),
                 ('transform_by-mask', lambda o: o.transform_by(CM(t1, s1), mask=mk_mask())),
                 ('embed', lambda o: o.embed(CM(t1, s1), mk_mask()) if hasattr(o, 'embed') and not hasattr(o, 'r') else 'skip'),
                 ('array-write', None)]
        def arrays_of(o):
            return (o.g, o.p) if hasattr(o, 'g') else (o.gs, o.ps)
        for src in sources:
            for enm, ed in (edits[3:] + edits[:3] if src == 'identity_map' else edits):     # embed first for the first identity map of the process
                first = sources[src]()
                try:
                    if ed is None:
                        ag, ap = arrays_of(first)
                        if py:
                            ag[...] = 1 - ag
                            if isinstance(ap, np.ndarray):
                                ap[...] = (ap + 1) % 4
                        else:
                            ag.copy_(1 - ag)
                            if hasattr(ap, 'copy_') and ap.dim() > 0:
                                ap.copy_((ap + 1) % 4)
                    elif ed(first) == 'skip':
                        continue
                except Exception:
                    continue          # an operation the object does not offer (the edit itself is judged elsewhere)
                n += len(ctors)
                nt += len(ctors)
                for nm in ctors:
                    if not judge(nm, '%s of an earlier %s(%d) result' % (enm, src, N)):
                        break
    return {'n': n, 'nt': nt, 'viol': viol}


def fn_qutip_histories(items):
    """item = [N, idx]: to_qutip() -> an operation that changes only signs (Pauli gates, the same rotation twice, a
    second export without any change) -> to_qutip() again on the SAME object: the second export must be the density
    matrix of the object's current arrays."""
    n = 0
    viol = []
    for N, idx in items:
        gs0, ps0, r0 = stab.tableaux(N)[idx]
        G = ref.all_g(N)
        ops = [('nothing', lambda s_: None)]
        for q in range(N):
            for nm in ('X', 'Y', 'Z'):
                ops.append(('%s(%d)' % (nm, q), (lambda nm=nm, q=q: (lambda s_: getattr(lib.pc, nm)(q).forward(s_)))()))
        for gi in (1, len(G) // 2 + 1, len(G) - 1):
            ops.append(('rotate_by(%s) twice' % ref.g_to_str(G[gi]), (lambda gi=gi: (lambda s_: (s_.rotate_by(lib.P(G[gi], 0)), s_.rotate_by(lib.P(G[gi], 0)))))()))
            ops.append(('rotate_by(%s)' % ref.g_to_str(G[gi]), (lambda gi=gi: (lambda s_: s_.rotate_by(lib.P(G[gi], 2))))()))
        for nm, op in ops:
            st = lib.ST(gs0, ps0, r0)
            st.to_qutip()
            op(st)
            m = np.asarray(st.to_qutip().full())
            n += 1
            if not np.allclose(m, stab.rho_of(np.asarray(st.gs), np.asarray(st.ps), int(st.r)), atol=1e-12):
                viol.append(V('C12/to_qutip/history/%s' % ('pure' if r0 == 0 else 'mixed'), [N, idx],
                              'to_qutip -> %s -> to_qutip on one object: the second export is not the density matrix of the current tableau %s' % (nm, stab.describe(st.gs, st.ps, int(st.r)))))
                break
    return {'n': n, 'nt': n, 'viol': viol}


def sign_sets(L, full):
    pats = list(itertools.product((0, 2), repeat=L))
    if full or L <= 2:
        return pats
    return [pats[0], pats[-1], tuple(2 * (k % 2) for k in range(L)), tuple(2 * ((k + 1) % 2) for k in range(L))]


def fn_stabstate(items):
    """item = [N, L, lo, hi, pkg]: ordered independent commuting lists lo..hi-1 x sign patterns x formats."""
    n = nt = 0
    viol = []
    samples = []
    for N, L, lo, hi, pkg in items:
        G = ref.all_g(N)
        lists = dom.commuting_lists(N, L)
        for li in range(lo, min(hi, len(lists))):
            idxs = lists[li]
            item = [N, L, li, li + 1, pkg]
            for signs in sign_sets(L, N <= 2 or pkg != 'py' or True):
                gsL = [G[i] for i in idxs]
                want = ref.rho_from_stabs(gsL, signs, N)
                strs = [('-' if s else '') + ref.g_to_str(g) for g, s in zip(gsL, signs)]
                codes = [[5 if s else 4] + [int('IXYZ'.index(ch)) for ch in ref.g_to_str(g)] for g, s in zip(gsL, signs)]
                if pkg == 'py':
                    shared = lib.PL(gsL, list(signs))

                    def twice(shared=shared):
                        lib.pc.stabilizer_state(shared)          # first use of the caller's object
                        return lib.pc.stabilizer_state(shared)   # second use of the SAME object
                    fmts = (('PauliList', lambda: lib.pc.stabilizer_state(lib.PL(gsL, list(signs)))),
                            ('PauliList-reused', twice),
                            ('strings', lambda: lib.pc.stabilizer_state(*strs)),
                            ('codes', lambda: lib.pc.stabilizer_state(codes)))
                else:
                    tcm = lib.torch_mods()
                    toks = [[int('IXYZ'.index(ch)) for ch in ref.g_to_str(g)] + [5 if s else 4] for g, s in zip(gsL, signs)]
                    fmts = (('PauliList', lambda: tcm['tc'].stabilizer_state(lib.tPL(gsL, list(signs)))),
                            ('strings', lambda: tcm['tc'].stabilizer_state(*strs)),
                            ('codes', lambda: tcm['tc'].stabilizer_state(codes)),
                            ('token-table-tensor', lambda: tcm['tc'].stabilizer_state(tcm['torch'].tensor(toks))),
                            ('tokenize-roundtrip', lambda: tcm['tc'].stabilizer_state(lib.tPL(gsL, list(signs)).tokenize())))
                for fname, mk in fmts:
                    try:
                        st = mk()
                        gs, ps, r = _st_arrays(pkg, st)
                    except Exception as e:
                        viol.append(V('C12/stabilizer_state/%s/%s/raises-%s' % (pkg, fname, type(e).__name__), item, 'stabilizer_state(%s) raised %s: %s' % (strs, type(e).__name__, e)))
                        continue
                    n += 1
                    nt += int(any(signs))
                    cls = 'signed' if any(signs) else 'unsigned'
                    if fname == 'PauliList-reused' and not (np.array_equal(np.asarray(shared.gs), np.array(gsL)) and np.array_equal(np.asarray(shared.ps) % 4, np.array(signs) % 4)):
                        viol.append(V('C12/stabilizer_state/py/argument-modified', item, 'stabilizer_state(%s) changed the PauliList it was given' % strs))
                    bad = ref.tableau_invariant(gs, ps, r)
                    if bad:
                        viol.append(V('C12/stabilizer_state/%s/%s/invalid' % (pkg, fname), item, 'stabilizer_state(%s) invalid: %s' % (strs, bad)))
                    elif r != N - L:
                        viol.append(V('C12/stabilizer_state/%s/%s/rank' % (pkg, fname), item, 'stabilizer_state(%s) has r=%d, expected %d' % (strs, r, N - L)))
                    elif not np.allclose(ref.rho(gs, ps, r), want):
                        viol.append(V('C12/stabilizer_state/%s/%s/denotation/%s/%s' % (pkg, fname, cls, 'mixed' if L < N else 'pure'), item,
                                      'stabilizer_state(%s) = %s is not the projector onto the joint +1 eigenspace' % (strs, stab.describe(gs, ps, r))))
            if not samples and li % 37 == 1:
                samples.append({'N': N, 'list': [ref.g_to_str(G[i]) for i in idxs], 'sign_patterns': len(sign_sets(L, True))})
    return {'n': n, 'nt': nt, 'viol': viol, 'samples': samples}


def fn_anticommuting(items):
    """item = [N, i(, pkg)]: every list [G_i, G_j] / [G_i, G_k, G_j] containing an anticommuting pair must raise
    (pyclifford: ValueError; torchclifford: any exception is accepted as "raises an error")."""
    n = 0
    viol = []
    for it in items:
        N, i = it[:2]
        pkg = it[2] if len(it) > 2 else 'py'
        if pkg == 'torch':
            G = ref.all_g(N)
            A = ref.anti_mat(G)
            tcm = lib.torch_mods()['tc']
            for j in range(len(G)):
                if not A[i, j]:
                    continue
                cands = [[G[i], G[j]]] + [[G[i], G[k], G[j]] for k in range(1, len(G)) if not A[i, k] and not A[k, j] and k not in (i, j)][:6]
                for lst in cands:
                    n += 1
                    try:
                        tcm.stabilizer_state(lib.tPL(lst, [0] * len(lst)))
                        viol.append(V('C12/stabilizer_state/torch/anticommuting-accepted/L=%d' % len(lst), list(it), 'torch stabilizer_state(%s) did not raise' % [ref.g_to_str(g) for g in lst]))
                    except Exception:
                        pass
            continue
        G = ref.all_g(N)
        A = ref.anti_mat(G)
        for j in range(len(G)):
            if not A[i, j]:
                continue
            cands = [[G[i], G[j]]]
            for k in range(1, len(G), 5):
                cands.append([G[i], G[k], G[j]])
            for lst in cands:
                for signs in ([0] * len(lst), [2] + [0] * (len(lst) - 1)):
                    n += 1
                    try:
                        st = lib.pc.stabilizer_state(lib.PL(lst, signs))
                        viol.append(V('C12/stabilizer_state/anticommuting-accepted', [N, i], 'stabilizer_state(%s) did not raise' % [ref.g_to_str(g) for g in lst]))
                    except ValueError:
                        pass
                    except Exception as e:
                        viol.append(V('C12/stabilizer_state/anticommuting-wrong-exception-%s' % type(e).__name__, [N, i], 'raised %s instead of ValueError' % type(e).__name__))
    return {'n': n, 'nt': n, 'viol': viol}


def legs(tier):
    out = []
    out.append(Leg('duality_N1', fn_duality, [[1, i, 'py'] for i in range(6)], chunk=1, src_states=24, bound='all 24 maps'))
    out.append(Leg('duality_N2', fn_duality, [[2, i, 'py'] for i in range(720)], chunk=8, src_states=11520, bound='all 11520 maps: to_state, apply to zero_state, to_map round trip, to_state(r) r=0..2'))
    out.append(Leg('named', fn_named, [[N, 'py'] for N in (1, 2, 3, 4)], chunk=1, bound='zero/one/ghz/maximally mixed for N=1..4 vs explicit matrices'))
    out.append(Leg('random', fn_random, [[1, 'bit'], [2, 'bit'], [3, 'bit'], [1, 'pauli'], [2, 'pauli']], chunk=1,
                   bound='random_bit_state: all 2^(2N) coin strings N<=3; random_pauli_state: whole coin tree N<=2 (rejection bounded to +2N coins) x all sign strings'))
    for N in (1, 2):
        stab.tableaux(N)
    out.append(Leg('to_qutip', fn_qutip, [[1, i] for i in range(48)] + [[2, i] for i in range(0, 34560, 1 if tier != 'quick' else 5)], chunk=200,
                   bound='to_qutip of %s tableaux N<=2' % ('all' if tier != 'quick' else 'every 5th of the 34560 + all 48')))
    out.append(Leg('ctor_histories', fn_ctor_histories, [[N, pkg] for pkg in ('py', 'torch') for N in (5, 4, 1, 2, 3)], chunk=1,
                   bound='N<=5, both packages: every constructor result and every parsed operator edited in place (global / masked rotate_by, masked transform_by, embed, direct array write), then every constructor called again'))
    reps2 = stab.representatives(2, 0)
    out.append(Leg('to_qutip_histories', fn_qutip_histories, [[1, i] for i in range(48)] + [[2, i] for i in (reps2 if tier == 'quick' else range(0, 34560, 7))], chunk=8,
                   bound='export -> sign-only operation (every Pauli gate, a rotation applied twice, nothing) or a rotation -> export again on one object: all N=1 tableaux, %s' % ('one N=2 tableau per density matrix (91)' if tier == 'quick' else 'every 7th N=2 tableau')))
    out.append(Leg('to_qutip_N3plus', fn_qutip_big, [[N, 'mixed', 0] for N in (3, 4, 5)] + [[3, 'bfs', 402 if tier == 'quick' else 4002]], chunk=1, exhaustive=False, supplementary=True,
                   bound='to_qutip of maximally mixed / identity_map(N).to_state(r) / ghz.set_r(r) for every r, N=3..5, and of the N=3 BFS tableau set (every rank)'))
    sitems = []
    for N in (1, 2, 3):
        for L in range(1, N + 1):
            tot = len(dom.commuting_lists(N, L))
            blk = 60
            step = 1
            if tier == 'quick' and N == 3 and L == 3:
                step = 4   # every 4th block of 60 lists
            for bi, lo in enumerate(range(0, tot, blk)):
                if bi % step == 0:
                    sitems.append([N, L, lo, lo + blk, 'py'])
    out.append(Leg('stabilizer_state', fn_stabstate, sitems, chunk=2,
                   bound='ordered independent commuting lists: N<=2 all with all sign patterns; N=3 L<=2 all with all sign patterns; N=3 L=3 %s x 4 sign patterns; 3 input formats' % (
                       'all 22680' if tier != 'quick' else 'a quarter (blocks of 60, every 4th) of the 22680')))
    out.append(Leg('anticommuting', fn_anticommuting, [[N, i] for N in (1, 2) for i in range(1, 4 ** N)] + [[3, i] for i in range(1, 64, 4 if tier == 'quick' else 1)], chunk=4,
                   bound='all anticommuting ordered pairs N<=2 (N=3: %s first operands), also inside 3-element lists' % ('every 4th' if tier == 'quick' else 'all')))
    out.append(Leg('random_with_rank', fn_random_r, [['py', 1], ['py', 2], ['py', 3], ['torch', 1], ['torch', 2], ['torch', 3]], chunk=1,
                   bound='random_pauli_state(N,r) / random_clifford_state(N,r), N<=3, every r, all 256 scripted 8-coin strings (filler 1): requested rank, validity, product structure; both packages'))
    out.append(Leg('torch_anticommuting', fn_anticommuting, [[N, i, 'torch'] for N in (1, 2) for i in range(1, 4 ** N)] + [[3, i, 'torch'] for i in range(1, 64, 7)], chunk=4,
                   bound='torchclifford stabilizer_state: anticommuting pairs, also as non-neighbours in 3-element lists, must raise'))
    out.append(Leg('torch_duality', fn_duality, [[1, i, 'torch'] for i in range(6)] + [[2, i, 'torch'] for i in range(0, 720, 1 if tier != 'quick' else 6)], chunk=4,
                   bound='torchclifford to_state / to_map / to_state(r)'))
    out.append(Leg('torch_named', fn_named, [[N, 'torch'] for N in (1, 2, 3)], chunk=1, parallel=False))
    titems = [[N, L, lo, lo + 30, 'torch'] for N in (1, 2) for L in range(1, N + 1) for lo in range(0, len(dom.commuting_lists(N, L)), 30)]
    out.append(Leg('torch_stabilizer_state', fn_stabstate, titems, chunk=1, bound='torchclifford stabilizer_state on all lists N<=2'))
    return out
