"""C07 Expectations, overlaps and bit-string probabilities equal the trace formulas.

All valid tableaux (N<=2) x the complete signed Pauli list; Pauli / monomial / polynomial
operands with all four phases and complex coefficients (incl. unreduced products);
state-state overlaps pure x any rank; get_prob on all bit strings."""
import itertools
import numpy as np
from .. import ref, dom, lib, stab
from ..core import Leg, V

PROP = 'C07'
RULE = ('(state, observable) pairs: every valid tableau of N<=2 x every signed Hermitian Pauli (list form), every Pauli with 4 phases, '
        'monomials / polynomials from a coefficient pool incl. unreduced products; (pure tableau, tableau) overlap pairs; (tableau, bit string); '
        'non-trivial = expectation non-zero or operand carries a sign / imaginary phase; receiver and argument snapshots compared')
ASSUMPTIONS = ['expect(StabilizerState) on a mixed receiver raises NotImplementedError: counted as abstention (statement: "for pure rho")',
               'bounded to N<=2 complete; N=3 on states built by stabilizer lists (thorough)']

CPOOL = [2.5, -0.5, 1j, 1 + 2j]


def tr(rho_m, g, p=0):
    return complex(np.trace(rho_m @ ref.mat(g, p)))


def snap_state(st):
    return (np.asarray(st.gs).copy(), np.asarray(st.ps).copy(), int(st.r))


def same_state(st, sn):
    return np.array_equal(np.asarray(st.gs), sn[0]) and np.array_equal(np.asarray(st.ps), sn[1]) and int(st.r) == sn[2]


def fn_expect(items):
    """item = [N, idx, pkg, full]: full=0 -> list kernel + imaginary-phase Paulis only (the
    Pauli / monomial / polynomial paths are thin wrappers over the list kernel)."""
    n = nt = 0
    viol = []
    samples = []
    for it in items:
        N, idx, pkg = it[:3]
        full = it[3] if len(it) > 3 else 1
        gs0, ps0, r0 = stab.tableaux(N)[idx]
        rho0 = stab.rho_of(gs0, ps0, r0)
        kind = 'pure' if r0 == 0 else 'mixed'
        G = ref.all_g(N)
        item = [N, idx, pkg, full]
        st = lib.ST(gs0, ps0, r0) if pkg == 'py' else lib.tST(gs0, ps0, r0)
        sn = (np.array(gs0), np.array(ps0), r0)

        def unchanged(where):
            if pkg == 'py':
                ok = same_state(st, sn)
            else:
                ok = np.array_equal(lib.t2n(st.gs), sn[0]) and np.array_equal(lib.t2n(st.ps), sn[1]) and int(st.r) == sn[2]
            if not ok:
                viol.append(V('C07/%s/%s/receiver-modified' % (where, pkg), item, 'expect changed its receiver'))
                return False
            return True
        # (1) list of all signed Hermitian operators
        Gs = np.concatenate([G, G])
        Ps = np.concatenate([np.zeros(len(G), dtype=np.int64), np.full(len(G), 2)])
        want = np.array([tr(rho0, g, p) for g, p in zip(Gs, Ps)])
        try:
            if pkg == 'py':
                L = lib.PL(Gs, Ps)
                xs = np.asarray(st.expect(L))
                arg_ok = np.array_equal(np.asarray(L.gs), Gs) and np.array_equal(np.asarray(L.ps), Ps)
            else:
                L = lib.tPL(Gs, Ps)
                xs = lib.t2n(st.expect(L))
                arg_ok = np.array_equal(lib.t2n(L.gs), Gs) and np.array_equal(lib.t2n(L.ps), Ps)
            n += len(Gs)
            nt += int((np.abs(want) > 0.5).sum())
            if xs.shape != want.shape or not np.allclose(xs, want, atol=1e-9):
                bad = int(np.argwhere(~np.isclose(xs, want, atol=1e-9))[0][0]) if xs.shape == want.shape else 0
                viol.append(V('C07/list/%s/%s/%s' % (pkg, kind, 'sign-' if Ps[bad] else 'sign+'), item, 'expect([%s]) = %s on %s, Tr(rho P) = %s' % (
                    ref.g_to_str(Gs[bad], Ps[bad]), xs[bad] if xs.shape == want.shape else xs.shape, stab.describe(gs0, ps0, r0), want[bad].real)))
            if not arg_ok:
                viol.append(V('C07/list/%s/argument-modified' % pkg, item, 'expect changed its PauliList argument'))
            unchanged('list')
        except Exception as e:
            viol.append(V('C07/list/%s/raises-%s' % (pkg, type(e).__name__), item, 'expect(list) raised %s: %s' % (type(e).__name__, e)))
        # (2) single Pauli with all four phases: i^p Tr(rho sigma)
        for p in (range(4) if full else (1,)):
            for g in G:
                w = tr(rho0, g, p)
                try:
                    v = st.expect(lib.P(g, p) if pkg == 'py' else lib.tP(g, p))
                    v = complex(v) if pkg == 'py' else complex(v.item() if hasattr(v, 'item') else v)
                except Exception as e:
                    viol.append(V('C07/pauli/%s/raises-%s' % (pkg, type(e).__name__), item, 'expect(Pauli %s) raised %s: %s' % (ref.g_to_str(g, p), type(e).__name__, e)))
                    continue
                n += 1
                nt += int(abs(w) > 0.5 and p != 0)
                if abs(v - w) > 1e-6:
                    viol.append(V('C07/pauli/%s/%s' % (pkg, 'imaginary-phase' if p % 2 else 'real-phase'), item, 'expect(%s) = %s on %s, true %s' % (
                        ref.g_to_str(g, p), v, stab.describe(gs0, ps0, r0), w)))
        unchanged('pauli')
        # (3) monomials and polynomials (coefficient pool; repeated strings; unreduced products)
        if not full:
            continue
        if pkg == 'py':
            for k, g in enumerate(G):
                for p in (0, 1, 2, 3):
                    c = CPOOL[(k + p) % len(CPOOL)]
                    w = c * tr(rho0, g, p)
                    v = complex(st.expect(lib.MONO(g, p, c)))
                    n += 1
                    if abs(v - w) > 1e-9:
                        viol.append(V('C07/monomial/py/%s' % ('imaginary-phase' if p % 2 else 'real-phase'), item, 'expect(%s * %s) = %s, true %s' % (c, ref.g_to_str(g, p), v, w)))
        polys = []
        M = len(G)
        for a in range(M):
            b, c3 = (a * 5 + 3) % M, (a * 7 + 1) % M
            gsP = np.array([G[a], G[b], G[c3], G[a]])
            psP = np.array([a % 4, (a + 1) % 4, 2, 3])
            csP = np.array([CPOOL[a % 4], CPOOL[(a + 1) % 4], CPOOL[(a + 2) % 4], 0.25])
            polys.append((gsP, psP, csP))
        for gsP, psP, csP in polys:
            w = sum(c * tr(rho0, g, p) for g, p, c in zip(gsP, psP, csP))
            try:
                if pkg == 'py':
                    poly = lib.POLY(gsP, psP, csP)
                    v = complex(st.expect(poly))
                    # unreduced product of two polynomials as operand
                    prod = lib.POLY(gsP[:2], psP[:2], csP[:2]) @ lib.POLY(gsP[2:], psP[2:], csP[2:])
                    v2 = complex(st.expect(prod))
                    w2 = 0
                    for i in range(2):
                        for j in range(2, 4):
                            mg, mp = ref.mul(gsP[i], psP[i], gsP[j], psP[j])
                            w2 += csP[i] * csP[j] * tr(rho0, mg, int(mp))
                    n += 1
                    if abs(v2 - w2) > 1e-9:
                        viol.append(V('C07/poly-product/py', item, 'expect(unreduced product) = %s, true %s' % (v2, w2)))
                    if not (np.array_equal(np.asarray(poly.gs), gsP) and np.array_equal(np.asarray(poly.ps), psP) and np.array_equal(np.asarray(poly.cs), csP.astype(complex))):
                        viol.append(V('C07/poly/py/argument-modified', item, 'expect changed its polynomial argument'))
                else:
                    poly = lib.tPOLY(gsP, psP, csP)
                    rel = [('-p', -poly, -1.0), ('2j*p', 2j * poly, 2j), ('p[0:]', poly[0:], 1.0)]     # relatives made BEFORE the evaluation (they share tensors with p by design)
                    v = st.expect(poly)
                    v = complex(v.item() if hasattr(v, 'item') else v)
                    if not (np.array_equal(lib.t2n(poly.gs), gsP) and np.array_equal(lib.t2n(poly.ps) % 4, psP % 4) and np.allclose(poly.cs.detach().numpy(), csP, atol=1e-6)):
                        viol.append(V('C07/poly/torch/argument-modified', item, 'torch expect changed its polynomial argument'))
                    for rn, robj, fac in rel:
                        try:
                            rv = st.expect(robj)
                            rv = complex(rv.item() if hasattr(rv, 'item') else rv)
                        except Exception:
                            continue
                        n += 1
                        if abs(rv - fac * w) > 1e-4:
                            viol.append(V('C07/poly/torch/relative-after-evaluation', item, 'torch: expect(%s) = %s after expect(p) had been evaluated, true %s (the relative was made before the evaluation)' % (rn, rv, fac * w)))
                            break
                n += 1
                nt += 1
                if abs(v - w) > 1e-5:
                    viol.append(V('C07/poly/%s' % pkg, item, 'expect(polynomial %s) = %s on %s, true %s' % (
                        [(complex(c), ref.g_to_str(g, p)) for g, p, c in zip(gsP, psP, csP)], v, stab.describe(gs0, ps0, r0), w)))
            except Exception as e:
                viol.append(V('C07/poly/%s/raises-%s' % (pkg, type(e).__name__), item, 'expect(polynomial) raised %s: %s' % (type(e).__name__, e)))
                break
        unchanged('poly')
        if not samples and idx % 89 == 3:
            samples.append({'N': N, 'state': stab.describe(gs0, ps0, r0), 'operand': ref.g_to_str(G[-1], 3), 'true_value': str(tr(rho0, G[-1], 3))})
    return {'n': n, 'nt': nt, 'viol': viol, 'samples': samples}


def fn_overlap(items):
    """item = [N, ia, mode, pkg]: mode 'recv': receiver tableau ia x one argument per density matrix;
    mode 'arg': argument tableau ia x one pure receiver per pure density matrix."""
    n = nt = 0
    viol = []
    extra = {'abstained_mixed_receiver': 0}
    for N, ia, mode, pkg in items:
        T = stab.tableaux(N)
        reps = stab.representatives(N, 0)
        others = reps if mode == 'recv' else [i for i in reps if T[i][2] == 0]
        for ib in others:
            ir, ig = (ia, ib) if mode == 'recv' else (ib, ia)
            gr, pr, rr = T[ir]
            ga, pa, ra = T[ig]
            mk = lib.ST if pkg == 'py' else lib.tST
            recv, arg = mk(gr, pr, rr), mk(ga, pa, ra)
            item = [N, ia, mode, pkg]
            try:
                v = recv.expect(arg)
            except NotImplementedError:
                if rr != 0:
                    extra['abstained_mixed_receiver'] += 1
                    continue
                viol.append(V('C07/overlap/%s/pure-receiver-refused' % pkg, item, 'expect(state) raised NotImplementedError on a pure receiver'))
                continue
            except Exception as e:
                viol.append(V('C07/overlap/%s/raises-%s' % (pkg, type(e).__name__), item, 'expect(state) raised %s: %s' % (type(e).__name__, e)))
                continue
            n += 1
            if rr != 0:
                # a value was returned for a mixed receiver: the statement does not require it, but if given it is not checked
                continue
            w = float(np.trace(stab.rho_of(gr, pr, rr) @ stab.rho_of(ga, pa, ra)).real)
            nt += int(w > 0)
            v = float(v)
            if abs(v - w) > 1e-9:
                viol.append(V('C07/overlap/%s/arg-%s' % (pkg, 'pure' if ra == 0 else 'mixed'), item, 'overlap of %s with %s = %s, Tr(rho sigma) = %s' % (
                    stab.describe(gr, pr, rr), stab.describe(ga, pa, ra), v, w), v, w))
            if pkg == 'py':
                if not (same_state(recv, (gr, pr, rr)) and same_state(arg, (ga, pa, ra))):
                    viol.append(V('C07/overlap/py/operand-modified', item, 'expect(state) changed receiver or argument'))
            else:
                if not (np.array_equal(lib.t2n(recv.gs), gr) and np.array_equal(lib.t2n(recv.ps), pr) and np.array_equal(lib.t2n(arg.gs), ga) and np.array_equal(lib.t2n(arg.ps), pa)):
                    viol.append(V('C07/overlap/torch/operand-modified', item, 'expect(state) changed receiver or argument'))
    return {'n': n, 'nt': nt, 'viol': viol, 'extra': extra}


def fn_prob(items):
    """item = [N, idx, pkg]: get_prob for all 2^N bit strings; sums to one; <b|rho|b>."""
    n = nt = 0
    viol = []
    extra = {'abstained_mixed_receiver': 0}
    for N, idx, pkg in items:
        gs0, ps0, r0 = stab.tableaux(N)[idx]
        rho0 = stab.rho_of(gs0, ps0, r0)
        item = [N, idx, pkg]
        tot = 0.0
        ok = True
        for bits in itertools.product((0, 1), repeat=N):
            st = lib.ST(gs0, ps0, r0) if pkg == 'py' else lib.tST(gs0, ps0, r0)
            b = int(''.join(str(x) for x in bits), 2)
            w = float(rho0[b, b].real)
            try:
                if pkg == 'py':
                    v = st.get_prob(np.array(bits, dtype=lib.INT))
                else:
                    v = st.get_prob(lib.tT(list(bits)))
            except NotImplementedError:
                if r0 != 0:
                    extra['abstained_mixed_receiver'] += 1
                    ok = False
                    continue
                viol.append(V('C07/get_prob/%s/pure-refused' % pkg, item, 'get_prob refused a pure state'))
                ok = False
                continue
            except Exception as e:
                viol.append(V('C07/get_prob/%s/raises-%s' % (pkg, type(e).__name__), item, 'get_prob(%s) raised %s: %s' % (bits, type(e).__name__, e)))
                ok = False
                continue
            n += 1
            if r0 != 0:
                continue
            v = float(v)
            tot += v
            nt += int(w > 0 and any(bits))
            if abs(v - w) > 1e-9:
                viol.append(V('C07/get_prob/%s/%s' % (pkg, 'bits-with-1' if any(bits) else 'all-zero'), item, 'get_prob(%s) = %s on %s, <b|rho|b> = %s' % (
                    list(bits), v, stab.describe(gs0, ps0, r0), w), v, w))
            if pkg == 'py' and not same_state(st, (gs0, ps0, r0)):
                viol.append(V('C07/get_prob/py/receiver-modified', item, 'get_prob changed its receiver'))
        if ok and r0 == 0 and abs(tot - 1) > 1e-9:
            viol.append(V('C07/get_prob/%s/sum' % pkg, item, 'probabilities sum to %s' % tot))
    return {'n': n, 'nt': nt, 'viol': viol, 'extra': extra}


def _queries(st, N):
    """Observable answers of a state object (each one a plain comparable value)."""
    G = ref.all_g(N)
    Gs = np.concatenate([G, G])
    Ps = np.concatenate([np.zeros(len(G), dtype=np.int64), np.full(len(G), 2)])
    out = {}
    out['expect(list)'] = np.asarray(st.expect(lib.PL(Gs, Ps))).tolist()
    out['expect(iY..)'] = complex(st.expect(lib.P(G[-1], 1)))
    out['entropy([0])'] = float(st.entropy([0]))
    out['entropy(mask)'] = float(st.entropy(np.array([False] * (N - 1) + [True])))
    m = st.to_map()
    out['to_map'] = (np.asarray(m.gs).tolist(), (np.asarray(m.ps) % 4).tolist())
    dm = st.density_matrix
    out['density_matrix'] = sorted((tuple(g), int(p) % 4, complex(c)) for g, p, c in zip(np.asarray(dm.gs).tolist(), np.asarray(dm.ps).tolist(), np.asarray(dm.cs).tolist()))
    out['to_qutip'] = np.round(np.asarray(st.to_qutip().full()), 9).tolist()
    out['repr'] = repr(st)
    out['tokenize'] = np.asarray(st.tokenize()).tolist()
    if int(st.r) == 0:
        out['get_prob'] = [float(st.get_prob(np.array(b, dtype=lib.INT))) for b in itertools.product((0, 1), repeat=N)]
        out['overlap(zero)'] = float(st.expect(lib.pc.zero_state(N)))
    return out


def fn_live(items):
    """item = [N, idx, lo, hi]: query -> in-place operation -> query again on ONE live state object.
    The answers after the operation must equal those of a FRESH object built from the live object's
    arrays (differential oracle: no stale cache, no hidden state), and the first round of queries must
    not have changed the object.  Operations = menu entries lo..hi-1 of the C05 menu."""
    from . import c05
    n = nt = 0
    viol = []
    for N, idx, lo, hi in items:
        gs0, ps0, r0 = stab.tableaux(N)[idx]
        menu = c05.get_menu(N, 'quick')
        for k in range(lo, min(hi, len(menu))):
            cls, label, f = menu[k]
            st = lib.ST(gs0, ps0, r0)
            try:
                q0 = _queries(st, N)
            except Exception as e:
                viol.append(V('C07/live/query-raises-%s' % type(e).__name__, [N, idx, k, k + 1], 'queries on %s raised %s: %s' % (stab.describe(gs0, ps0, r0), type(e).__name__, e)))
                break
            if not same_state(st, (gs0, ps0, r0)):
                viol.append(V('C07/live/queries-changed-state', [N, idx, k, k + 1], 'the query round changed the state %s' % stab.describe(gs0, ps0, r0)))
                break
            try:
                if f(st) == 'skip':
                    continue
            except Exception:
                continue            # failing operations are judged by C05
            if stab.state_check(st, N):
                continue            # invalid successors are judged by C05
            fresh = lib.ST(np.array(st.gs), np.array(st.ps), int(st.r))
            q1 = _queries(st, N)
            q2 = _queries(fresh, N)
            n += len(q1)
            nt += 1
            for key in q2:
                a, b = q1.get(key), q2[key]
                same = (a == b) if not isinstance(b, (float, complex)) else abs(a - b) < 1e-9
                if not same:
                    viol.append(V('C07/live/%s/stale-after-%s' % (key, cls), [N, idx, k, k + 1], '%s after %s on a live object that had been queried before differs from the same query on a fresh object with identical arrays (%s)' % (
                        key, label, stab.describe(st.gs, st.ps, int(st.r))), a, b))
    return {'n': n, 'nt': nt, 'viol': viol}


def _tqueries(st, N):
    m = lib.torch_mods()
    G = ref.all_g(N)
    Gs = np.concatenate([G, G])
    Ps = np.concatenate([np.zeros(len(G), dtype=np.int64), np.full(len(G), 2)])
    out = {}
    out['expect(list)'] = lib.t2n(st.expect(lib.tPL(Gs, Ps))).tolist()
    for sub in sorted(dom.subsets(N), key=lambda x: (len(x), x)):
        out['entropy(%s)' % (sub,)] = float(st.entropy(list(sub)))
    mp = st.to_map()
    out['to_map'] = (lib.t2n(mp.gs).tolist(), (lib.t2n(mp.ps) % 4).tolist())
    dm = st.density_matrix
    out['density_matrix'] = sorted((tuple(g), int(p) % 4, complex(np.round(c, 6))) for g, p, c in zip(lib.t2n(dm.gs).tolist(), lib.t2n(dm.ps).tolist(), dm.cs.detach().numpy().tolist()))
    out['repr'] = repr(st)
    out['tokenize'] = lib.t2n(st.tokenize()).tolist()
    if int(st.r) == 0:
        out['get_prob'] = [round(float(st.get_prob(lib.tT(list(b)))), 6) for b in itertools.product((0, 1), repeat=N)]
    return out


def fn_live_torch(items):
    """item = [N, idx]: torchclifford: query round, second query round (must equal the first: queries leave no trace),
    then one in-place operation (global / masked rotate_by and transform_by) and a third query round on the SAME
    object, compared with a fresh object built from its tensors; and the tensors after the two query rounds must be
    the original ones."""
    m = lib.torch_mods()
    torch = m['torch']
    n = nt = 0
    viol = []
    for N, idx in items:
        gs0, ps0, r0 = stab.tableaux(N)[idx]
        ops = []
        for k, (g, p) in enumerate(dom.hermitian_paulis(N, include_identity=False)[idx % 3::3]):
            ops.append(('rotate_by', (lambda g=g, p=p: (lambda s_: s_.rotate_by(lib.tP(g, p))))()))
        if N >= 2:
            for q in range(N):
                mb = np.zeros(N, dtype=bool)
                mb[q] = True
                for g, p in dom.hermitian_paulis(1, include_identity=False)[::2]:
                    ops.append(('rotate_by-mask', (lambda g=g, p=p, mb=mb: (lambda s_: s_.rotate_by(lib.tP(g, p), mask=mb.copy())))()))
                t1, s1 = dom.valid_maps(1)[(7 * idx + 5 * q) % 24]
                ops.append(('transform_by-mask', (lambda t1=t1, s1=s1, mb=mb: (lambda s_: s_.transform_by(lib.tCM(t1, s1), mask=torch.tensor(mb.copy()))))()))
        tN, sN = dom.valid_maps(N)[(idx * 131) % len(dom.valid_maps(N))]
        ops.append(('transform_by', lambda s_: s_.transform_by(lib.tCM(tN, sN))))
        for opname, op in ops:
            st = lib.tST(gs0, ps0, r0)
            try:
                q0 = _tqueries(st, N)
                q0b = _tqueries(st, N)
            except Exception as e:
                viol.append(V('C07/live/torch/query-raises-%s' % type(e).__name__, [N, idx], 'torch queries raised %s: %s' % (type(e).__name__, e)))
                break
            n += 2 * len(q0)
            if q0 != q0b:
                bad = [k for k in q0 if q0[k] != q0b[k]][0]
                viol.append(V('C07/live/torch/second-query-differs', [N, idx], 'torch: the second round of queries on %s differs from the first (%s)' % (stab.describe(gs0, ps0, r0), bad)))
                break
            if not (np.array_equal(lib.t2n(st.gs), gs0) and np.array_equal(lib.t2n(st.ps) % 4, np.asarray(ps0) % 4) and int(st.r) == r0):
                viol.append(V('C07/live/torch/queries-changed-state', [N, idx], 'torch: the query rounds changed the state %s' % stab.describe(gs0, ps0, r0)))
                break
            try:
                op(st)
            except Exception:
                continue
            fresh = lib.tST(lib.t2n(st.gs), lib.t2n(st.ps), int(st.r))
            q1, q2 = _tqueries(st, N), _tqueries(fresh, N)
            n += len(q1)
            nt += 1
            for k in q2:
                if q1[k] != q2[k]:
                    viol.append(V('C07/live/torch/%s/stale-after-%s' % (k.split('(')[0], opname), [N, idx], 'torch: %s after %s on a live state that had been queried before differs from the same query on a fresh state with identical tensors' % (k, opname)))
                    break
    return {'n': n, 'nt': nt, 'viol': viol}


def fn_n3(items):
    """item = [li, L]: N=3 states built from the li-th ordered commuting list of length L with a
    sign pattern; expectation of the complete signed list and of imaginary-phase Paulis."""
    n = nt = 0
    viol = []
    N = 3
    G = ref.all_g(N)
    for li, L in items:
        lst = dom.commuting_lists(N, L)[li]
        signs = [2 * ((li >> k) & 1) for k in range(L)]
        rho0 = ref.rho_from_stabs([G[i] for i in lst], signs, N)
        st = lib.pc.stabilizer_state(lib.PL([G[i] for i in lst], signs))
        if not np.allclose(stab.rho_of(st.gs, st.ps, st.r), rho0):
            continue   # constructor problems belong to C12
        Gs = np.concatenate([G, G])
        Ps = np.concatenate([np.zeros(len(G), dtype=np.int64), np.full(len(G), 2)])
        want = np.array([tr(rho0, g, p) for g, p in zip(Gs, Ps)])
        xs = np.asarray(st.expect(lib.PL(Gs, Ps)))
        n += len(Gs)
        nt += int((np.abs(want) > 0.5).sum())
        if not np.allclose(xs, want, atol=1e-9):
            viol.append(V('C07/N3/list', [li, L], 'expect(list) wrong on N=3 state from list #%d' % li))
        for k in range(0, len(G), 5):
            for p in (1, 3):
                v = complex(st.expect(lib.P(G[k], p)))
                n += 1
                if abs(v - tr(rho0, G[k], p)) > 1e-9:
                    viol.append(V('C07/N3/pauli/imaginary-phase', [li, L], 'expect(%s) = %s true %s' % (ref.g_to_str(G[k], p), v, tr(rho0, G[k], p))))
        if L == N:
            # pure N=3 state: bit-string probabilities and overlaps with states of every rank
            tot = 0.0
            for bits in itertools.product((0, 1), repeat=N):
                b = int(''.join(str(x) for x in bits), 2)
                v = float(st.get_prob(np.array(bits, dtype=lib.INT)))
                tot += v
                n += 1
                if abs(v - rho0[b, b].real) > 1e-9:
                    viol.append(V('C07/N3/get_prob', [li, L], 'get_prob(%s) = %s, <b|rho|b> = %s' % (bits, v, rho0[b, b].real)))
            if abs(tot - 1) > 1e-9:
                viol.append(V('C07/N3/get_prob/sum', [li, L], 'probabilities sum to %s' % tot))
            for L2 in (1, 2, 3):
                lists2 = dom.commuting_lists(N, L2)
                for k2 in range(3):
                    idx2 = lists2[(li * 7 + k2 * 131 + L2) % len(lists2)]
                    sg2 = [2 * ((li + k2 + j) % 2) for j in range(L2)]
                    other = lib.pc.stabilizer_state(lib.PL([G[i] for i in idx2], sg2))
                    rho2 = ref.rho_from_stabs([G[i] for i in idx2], sg2, N)
                    if not np.allclose(stab.rho_of(other.gs, other.ps, other.r), rho2):
                        continue
                    v = float(st.expect(other))
                    w = float(np.trace(rho0 @ rho2).real)
                    n += 1
                    nt += int(w > 0)
                    if abs(v - w) > 1e-9:
                        viol.append(V('C07/N3/overlap/arg-rank%d' % (N - L2), [li, L], 'overlap = %s, Tr(rho sigma) = %s' % (v, w)))
    return {'n': n, 'nt': nt, 'viol': viol}


def fn_n3_tab(items):
    """item = [budget, i]: i-th tableau of the N=3 BFS set (every rank, concrete tableaux): expectation of the
    complete signed list (128) and of all 64 Paulis with phase i; pure tableaux: all 8 bit-string probabilities
    and overlaps with every 29th tableau of the set."""
    from . import c06
    n = nt = 0
    viol = []
    N = 3
    G = ref.all_g(N)
    Gs = np.concatenate([G, G])
    Ps = np.concatenate([np.zeros(len(G), dtype=np.int64), np.full(len(G), 2)])
    for budget, i in items:
        if budget not in c06._N3:
            c06._N3[budget] = c06._n3_states(budget, 0)
        S = c06._N3[budget]
        gs0, ps0, r0 = S[i]
        rho0 = stab.rho_of(gs0, ps0, r0)
        st = lib.ST(gs0, ps0, r0)
        kind = 'pure' if r0 == 0 else 'mixed-r%d' % r0
        want = np.array([tr(rho0, g, p) for g, p in zip(Gs, Ps)])
        xs = np.asarray(st.expect(lib.PL(Gs, Ps)))
        n += len(Gs)
        nt += int((np.abs(want) > 0.5).sum())
        if not np.allclose(xs, want, atol=1e-9):
            bad = int(np.argwhere(~np.isclose(xs, want, atol=1e-9))[0][0])
            viol.append(V('C07/N3tab/list/%s' % kind, [budget, i], 'expect([%s]) = %s on %s, Tr(rho P) = %s' % (ref.g_to_str(Gs[bad], Ps[bad]), xs[bad], stab.describe(gs0, ps0, r0), want[bad].real)))
        for g in G:
            v = complex(st.expect(lib.P(g, 1)))
            n += 1
            if abs(v - tr(rho0, g, 1)) > 1e-9:
                viol.append(V('C07/N3tab/pauli/imaginary-phase/%s' % kind, [budget, i], 'expect(%s) = %s, true %s' % (ref.g_to_str(g, 1), v, tr(rho0, g, 1))))
                break
        if not same_state(st, (gs0, ps0, r0)):
            viol.append(V('C07/N3tab/receiver-modified', [budget, i], 'expect changed its receiver'))
        if r0 == 0:
            tot = 0.0
            for bits in itertools.product((0, 1), repeat=N):
                b = int(''.join(str(x) for x in bits), 2)
                v = float(st.get_prob(np.array(bits, dtype=lib.INT)))
                tot += v
                n += 1
                if abs(v - rho0[b, b].real) > 1e-9:
                    viol.append(V('C07/N3tab/get_prob', [budget, i], 'get_prob(%s) = %s on %s, <b|rho|b> = %s' % (bits, v, stab.describe(gs0, ps0, r0), rho0[b, b].real)))
            if abs(tot - 1) > 1e-9:
                viol.append(V('C07/N3tab/get_prob/sum', [budget, i], 'probabilities sum to %s' % tot))
            for j in range(i % 29, len(S), 29):
                ga, pa, ra = S[j]
                v = float(lib.ST(gs0, ps0, r0).expect(lib.ST(ga, pa, ra)))
                w = float(np.trace(rho0 @ stab.rho_of(ga, pa, ra)).real)
                n += 1
                nt += int(w > 0)
                if abs(v - w) > 1e-9:
                    viol.append(V('C07/N3tab/overlap/arg-r%d' % ra, [budget, i], 'overlap of %s with %s = %s, Tr(rho sigma) = %s' % (stab.describe(gs0, ps0, r0), stab.describe(ga, pa, ra), v, w)))
    return {'n': n, 'nt': nt, 'viol': viol}


def legs(tier):
    out = []
    for N in (1, 2):
        stab.tableaux(N)
        stab.valid_keyset(N)
        stab.representatives(N, 0)
    out.append(Leg('expect_N1', fn_expect, [[1, i, 'py'] for i in range(48)], chunk=6, src_states=48, bound='all 48 tableaux x all operands'))
    fullset = set(range(34560)) if tier != 'quick' else set(range(0, 34560, 8)) | set(stab.representatives(2, 0))
    out.append(Leg('expect_N2', fn_expect, [[2, i, 'py', int(i in fullset)] for i in range(34560)], chunk=80, src_states=34560,
                   bound='all 34560 tableaux x 32 signed list entries + 16 Paulis with phase i; %s additionally x (64 Paulis with all phases, 64 monomials, 16 four-term polynomials, 16 unreduced products)' % (
                       'all tableaux' if tier != 'quick' else 'every 8th tableau and one per density matrix')))
    pure2 = [i for i, t in enumerate(stab.tableaux(2)) if t[2] == 0]
    oitems = [[1, i, 'recv', 'py'] for i in range(48)] + [[1, i, 'arg', 'py'] for i in range(48)]
    oitems += [[2, i, 'recv', 'py'] for i in (pure2 if tier != 'quick' else pure2[::2])]
    oitems += [[2, i, 'arg', 'py'] for i in range(0, 34560, 1 if tier != 'quick' else 3)]
    oitems += [[2, i, 'recv', 'py'] for i in range(5, 34560, 997)]   # mixed receivers: must abstain or be ignored
    out.append(Leg('overlap', fn_overlap, oitems, chunk=40,
                   bound='pure receivers (%s of the 11520 pure N=2 tableaux) x one argument per density matrix (91, all ranks); arguments (%s tableaux) x one pure receiver per pure state (60)' % (
                       'all' if tier != 'quick' else 'every 2nd', 'all 34560' if tier != 'quick' else 'every 3rd of 34560')))
    out.append(Leg('get_prob', fn_prob, [[1, i, 'py'] for i in range(48)] + [[2, i, 'py'] for i in range(34560)], chunk=200, src_states=34608,
                   bound='all tableaux N<=2 x all 2^N bit strings'))
    from . import c05
    msz = len(c05.get_menu(2, 'quick'))
    lreps = stab.representatives(2, 0)
    litems = [[1, i, 0, 10 ** 6] for i in range(0, 48, 3)] + [[2, i, lo, lo + 80] for i in (lreps if tier != 'quick' else lreps[::3]) for lo in range(0, msz, 80)]
    out.append(Leg('live_histories', fn_live, litems, chunk=2,
                   bound='query round -> one in-place operation (each of the %d C05 menu operations, every coin branch) -> query round on the same live object vs a fresh object built from its arrays; N=1 every 3rd tableau, N=2 %s' % (
                       msz, 'one tableau per density matrix' if tier != 'quick' else 'every 3rd density matrix')))
    treps = stab.representatives(2, 0)
    out.append(Leg('live_histories_torch', fn_live_torch, [[1, i] for i in range(0, 48, 5)] + [[2, i] for i in (treps[::4] if tier == 'quick' else treps)], chunk=1,
                   bound='torchclifford: query round x2 -> in-place global / masked rotate_by / transform_by -> query round on one live state vs a fresh state (N=1 every 5th tableau, N=2 %s)' % ('every 4th density matrix' if tier == 'quick' else 'one tableau per density matrix')))
    nb3 = 402 if tier == 'quick' else 4002
    out.append(Leg('expect_N3_tableaux', fn_n3_tab, [[nb3, i] for i in range(nb3)], chunk=8, exhaustive=False, supplementary=True,
                   bound='%d N=3 tableaux (BFS from six start states of every rank, by concrete tableau): complete signed list, imaginary-phase Paulis; pure ones: all bit strings and overlaps with every 29th tableau of the set' % nb3))
    st3 = {1: 1, 2: 9, 3: 97} if tier != 'quick' else {1: 3, 2: 37, 3: 397}
    n3 = [[li, L] for L in (1, 2, 3) for li in range(0, len(dom.commuting_lists(3, L)), st3[L])]
    out.append(Leg('expect_N3', fn_n3, n3, chunk=4, exhaustive=False, supplementary=True, bound='N=3 states (ranks 2,1,0) from commuting lists: every %dth L=1, %dth L=2, %dth L=3 x complete signed list + imaginary-phase Paulis' % (st3[1], st3[2], st3[3])))
    reps2 = stab.representatives(2, 0)
    out.append(Leg('torch_expect', fn_expect, [[1, i, 'torch'] for i in range(0, 48, 2)] + [[2, i, 'torch'] for i in (reps2 if tier != 'quick' else reps2[::3])], chunk=2,
                   bound='torchclifford: N=1 half of the tableaux, N=2 %s' % ('one tableau per density matrix' if tier != 'quick' else 'every 3rd density matrix')))
    tpure = [i for i in reps2 if stab.tableaux(2)[i][2] == 0]
    out.append(Leg('torch_overlap_prob', fn_overlap, [[2, i, 'recv', 'torch'] for i in tpure[::(1 if tier != 'quick' else 6)]], chunk=2,
                   bound='torchclifford: pure receivers x one argument per density matrix'))
    out.append(Leg('torch_get_prob', fn_prob, [[2, i, 'torch'] for i in tpure[::(1 if tier != 'quick' else 4)]], chunk=4, bound='torchclifford get_prob on pure representatives'))
    return out
