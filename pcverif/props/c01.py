"""C01 Pauli multiplication is exact (strings, phases, commutation).

State machine view: the Pauli group (4*4^N elements) is the state space, left/right
multiplication by every element are the transitions (Cayley graph).  Every edge is
executed on the real code and compared with the dense-matrix-derived reference."""
import numpy as np
from .. import ref, lib
from ..core import Leg, V

PROP = 'C01'
RULE = ('every ordered pair of Pauli operators (all strings x 4 phases, both operands) for the stated N; '
        'non-trivial = the pair anticommutes or carries a non-zero phase (phase bookkeeping matters); '
        'states = group elements, transitions = Cayley-graph edges executed on the real code')
ASSUMPTIONS = ['dense 2x2 Pauli matrices and numpy kron/matmul are correct (root oracle)',
               'bounded to the stated N (kernels loop uniformly over qubits)']


def _canon_pauli(res, N):
    """Representation invariant of a returned Pauli: bits in {0,1}, integral p in 0..3."""
    g = np.asarray(res.g)
    if g.shape != (2 * N,):
        return 'shape %s' % (g.shape,)
    if not np.isin(g, (0, 1)).all():
        return 'bits %s' % g.tolist()
    p = res.p
    if not (int(p) == p and 0 <= int(p) <= 3):
        return 'phase %r' % (p,)
    return ''


def fn_pairs(items):
    """item = [N, i1]: left operand string index; all 4 phases x all right operands."""
    pu = lib.pu
    n = nt = 0
    viol = []
    samples = []
    for N, i1 in items:
        G = ref.all_g(N)
        g1 = G[i1]
        right = [[lib.P(g2, p2) for g2 in G] for p2 in range(4)]
        ga1 = np.array(g1, dtype=lib.INT)
        # kernel level: acq / ipow on every pair of strings
        exp_acq = ref.anti(g1[None, :], G)
        exp_g, exp_ph = ref.mul(g1[None, :], 0, G, 0)
        for j, g2 in enumerate(G):
            ga2 = np.array(g2, dtype=lib.INT)
            a = pu.acq(ga1, ga2)
            ip = pu.ipow(ga1, ga2)
            n += 2
            if int(a) != int(exp_acq[j]):
                viol.append(V('C01/acq/py', [N, i1], 'acq(%s,%s)=%r, matrices say %d' % (ref.g_to_str(g1), ref.g_to_str(g2), a, exp_acq[j]), a, exp_acq[j]))
            if int(ip) != int(exp_ph[j]):
                viol.append(V('C01/ipow/py', [N, i1], 'ipow(%s,%s)=%r, matrices say %d' % (ref.g_to_str(g1), ref.g_to_str(g2), ip, exp_ph[j]), ip, exp_ph[j]))
        for p1 in range(4):
            left = lib.P(g1, p1)
            for p2 in range(4):
                eg, ep = ref.mul(g1[None, :], p1, G, p2)
                row = right[p2]
                for j in range(len(G)):
                    res = left @ row[j]
                    n += 1
                    if exp_acq[j] or p1 or p2:
                        nt += 1
                    bad = _canon_pauli(res, N)
                    if bad or (np.asarray(res.g) != eg[j]).any() or int(res.p) % 4 != ep[j]:
                        kind = 'repr' if bad else ('string' if (np.asarray(res.g) != eg[j]).any() else 'phase')
                        viol.append(V('C01/matmul/py/%s' % kind, [N, i1],
                                      '%s @ %s -> %s (%s); matrices say %s' % (
                                          ref.g_to_str(g1, p1), ref.g_to_str(G[j], p2),
                                          ref.g_to_str(res.g, res.p) if not bad else '?', bad,
                                          ref.g_to_str(eg[j], ep[j])),
                                      [np.asarray(res.g).tolist(), res.p], [eg[j].tolist(), int(ep[j])]))
            # squares: P@P = +-I
            sq = left @ left
            n += 1
            if np.asarray(sq.g).any() or int(sq.p) % 4 not in (0, 2) or int(sq.p) % 4 != (2 * p1) % 4:
                viol.append(V('C01/square/py', [N, i1], '%s squared -> %s' % (ref.g_to_str(g1, p1), ref.g_to_str(sq.g, sq.p))))
        if not samples:
            samples.append({'N': N, 'left': ref.g_to_str(g1, 3), 'right': ref.g_to_str(G[-1], 1),
                            'product': ref.g_to_str(*[x[-1] for x in ref.mul(g1[None, :], 3, G, 1)])})
    return {'n': n, 'nt': nt, 'viol': viol, 'samples': samples}


def fn_triples(items):
    """item = [N, i1, p1]: chains (A@B)@C and A@(B@C) for all B, C: results fed back as
    operands (history quantifier) and associativity."""
    n = nt = 0
    viol = []
    for N, i1, p1 in items:
        G = ref.all_g(N)
        A = lib.P(G[i1], p1)
        allp = [(g, p) for p in range(4) for g in G]
        objs = [lib.P(g, p) for g, p in allp]
        Gs = np.array([g for g, p in allp])
        Ps = np.array([p for g, p in allp])
        for jb, B in enumerate(objs):
            AB = A @ B
            eg_ab, ep_ab = ref.mul(G[i1], p1, Gs[jb], Ps[jb])
            eg, ep = ref.mul(eg_ab[None, :], ep_ab, Gs, Ps)
            for jc, C in enumerate(objs):
                l = AB @ C
                r = A @ (B @ C)
                n += 3
                nt += 1
                if (np.asarray(l.g) != eg[jc]).any() or int(l.p) % 4 != ep[jc] or \
                   (np.asarray(r.g) != eg[jc]).any() or int(r.p) % 4 != ep[jc]:
                    viol.append(V('C01/chain/py', [N, i1, p1], '(%s@%s)@%s -> %s ; A@(B@C) -> %s ; matrices say %s' % (
                        ref.g_to_str(G[i1], p1), ref.g_to_str(Gs[jb], Ps[jb]), ref.g_to_str(Gs[jc], Ps[jc]),
                        ref.g_to_str(l.g, l.p), ref.g_to_str(r.g, r.p), ref.g_to_str(eg[jc], ep[jc]))))
    return {'n': n, 'nt': nt, 'viol': viol}


def fn_triples_n3(items):
    """item = [i1]: N=3, A = i1-th string (phase +), B over all strings x 4 phases, C over all strings:
    (A@B)@C == A@(B@C) == reference (phase linearity in A and C is covered by the pair sweep)."""
    n = nt = 0
    viol = []
    N = 3
    G = ref.all_g(N)
    Cobjs = [lib.P(g, 0) for g in G]
    for (i1,) in items:
        A = lib.P(G[i1], 0)
        for pb in range(4):
            for jb in range(len(G)):
                B = lib.P(G[jb], pb)
                AB = A @ B
                eg_ab, ep_ab = ref.mul(G[i1], 0, G[jb], pb)
                eg, ep = ref.mul(eg_ab[None, :], ep_ab, G, 0)
                for jc, C in enumerate(Cobjs):
                    l = AB @ C
                    r = A @ (B @ C)
                    n += 3
                    nt += 1
                    if (np.asarray(l.g) != eg[jc]).any() or int(l.p) % 4 != ep[jc] or (np.asarray(r.g) != eg[jc]).any() or int(r.p) % 4 != ep[jc]:
                        viol.append(V('C01/chain/py/N3', [i1], '(%s@%s)@%s -> %s ; A@(B@C) -> %s ; matrices say %s' % (
                            ref.g_to_str(G[i1], 0), ref.g_to_str(G[jb], pb), ref.g_to_str(G[jc], 0), ref.g_to_str(l.g, l.p), ref.g_to_str(r.g, r.p), ref.g_to_str(eg[jc], ep[jc]))))
    return {'n': n, 'nt': nt, 'viol': viol}


def _sparse_strings(N, K):
    """Deterministic structured subset of the 4^N strings: all weight<=1 strings, the four constant strings,
    and K strings on a multiplicative lattice (covers every qubit position with every letter)."""
    out = {(0,) * (2 * N)}
    for q in range(N):
        for a in ((1, 0), (0, 1), (1, 1)):
            g = [0] * (2 * N)
            g[2 * q], g[2 * q + 1] = a
            out.add(tuple(g))
    for a in ((1, 0), (0, 1), (1, 1)):
        out.add(tuple(a * N))
    M = 4 ** N
    x = 1
    for k in range(K):
        x = (x * 2654435761 + 40503 * (k + 1)) % M
        out.add(tuple(int(b) for b in np.binary_repr(x, 2 * N)))
    return np.array(sorted(out), dtype=np.int64)


def fn_sparse(items):
    """item = [N, K, pkg]: N=5..9 (no complete sweep possible in the quick tier): every ordered pair of a structured
    subset of strings x all 4x4 phases: Pauli.__matmul__, utils.ipow, utils.acq vs the reference; squares."""
    n = nt = 0
    viol = []
    for N, K, pkg in items:
        S = _sparse_strings(N, K)
        ea = ref.anti(S[:, None, :], S[None, :, :])
        for i, g1 in enumerate(S):
            ga1 = np.array(g1, dtype=lib.INT)
            eg0, ep0 = ref.mul(g1[None, :], 0, S, 0)
            for j, g2 in enumerate(S):
                ga2 = np.array(g2, dtype=lib.INT)
                a = int(lib.pu.acq(ga1, ga2))
                ip = int(lib.pu.ipow(ga1, ga2))
                n += 2
                if a != ea[i, j]:
                    viol.append(V('C01/acq/py/N>=5', [N, K, pkg], 'N=%d acq(%s,%s)=%d, matrices say %d' % (N, ref.g_to_str(g1), ref.g_to_str(g2), a, ea[i, j])))
                if ip != ep0[j]:
                    viol.append(V('C01/ipow/py/N>=5', [N, K, pkg], 'N=%d ipow(%s,%s)=%d, matrices say %d' % (N, ref.g_to_str(g1), ref.g_to_str(g2), ip, ep0[j])))
                p1, p2 = (i + j) % 4, (3 * i + j + 1) % 4
                res = lib.P(g1, p1) @ lib.P(g2, p2)
                eg, ep = ref.mul(g1, p1, g2, p2)
                n += 1
                nt += int(ea[i, j] or p1 or p2)
                if (np.asarray(res.g) != eg).any() or int(res.p) % 4 != int(ep):
                    viol.append(V('C01/matmul/py/N>=5', [N, K, pkg], 'N=%d: %s @ %s -> %s; matrices say %s' % (N, ref.g_to_str(g1, p1), ref.g_to_str(g2, p2), ref.g_to_str(res.g, res.p), ref.g_to_str(eg, ep))))
            if len(viol) > 20:
                break
    return {'n': n, 'nt': nt, 'viol': viol}


def fn_long_chain(items):
    """item = [N, start, stride]: a walk through the whole group: multiply the running
    product by every element in turn (4*4^N factors), compare with the reference after
    every step - phase bookkeeping never drifts over long chains."""
    n = 0
    viol = []
    for N, start, stride in items:
        allp = [(g, p) for p in range(4) for g in ref.all_g(N)]
        M = len(allp)
        cur = lib.P(allp[start][0], allp[start][1])
        rg, rp = np.array(allp[start][0]), allp[start][1]
        k = start
        for step in range(M):
            k = (k + stride) % M
            g, p = allp[k]
            cur = cur @ lib.P(g, p)
            rg, rp = ref.mul(rg, rp, g, p)
            n += 1
            if (np.asarray(cur.g) != rg).any() or int(cur.p) != int(rp):
                viol.append(V('C01/longchain/py', [N, start, stride], 'drift at step %d: %s vs %s' % (
                    step, ref.g_to_str(cur.g, cur.p), ref.g_to_str(rg, rp))))
                break
    return {'n': n, 'nt': n, 'viol': viol}


CPOOL = [1.0, -0.5, 1j, 1 + 2j, 2.5]


def fn_batch(items):
    """item = [N, pkg]: acq_mat on the full string list and PauliPolynomial @ PauliPolynomial
    (batch_dot) on the full group with a coefficient pool; pkg in {'py','torch'}."""
    n = nt = 0
    viol = []
    for N, pkg in items:
        G = ref.all_g(N)
        allp = [(g, p) for p in range(4) for g in G]
        Gs = np.array([g for g, p in allp])
        Ps = np.array([p for g, p in allp])
        cs1 = np.array([CPOOL[i % len(CPOOL)] for i in range(len(allp))])
        cs2 = np.array([CPOOL[(2 * i + 1) % len(CPOOL)] for i in range(len(allp))])
        eA = ref.anti_mat(G)
        eg, ep = ref.mul(Gs[:, None, :], Ps[:, None], Gs[None, :, :], Ps[None, :])
        ec = cs1[:, None] * cs2[None, :]
        try:
            if pkg == 'py':
                A = lib.pu.acq_mat(np.array(G, dtype=lib.INT))
                prod = lib.POLY(Gs, Ps, cs1) @ lib.POLY(Gs, Ps, cs2)
                og, op, oc = np.asarray(prod.gs), np.asarray(prod.ps), np.asarray(prod.cs)
            else:
                m = lib.torch_mods()
                A = lib.t2n(m['tu'].acq_mat(lib.tT(G)))
                A2 = lib.t2n(m['tu'].acq_grid(lib.tT(G), lib.tT(G)))
                if (A2 != eA).any():
                    viol.append(V('C01/acq_grid/torch', [N, pkg], 'acq_grid differs from matrices'))
                prod = lib.tPOLY(Gs, Ps, cs1) @ lib.tPOLY(Gs, Ps, cs2)
                og, op, oc = lib.t2n(prod.gs), lib.t2n(prod.ps), prod.cs.detach().numpy()
        except Exception as e:
            viol.append(V('C01/batch/%s/raises-%s' % (pkg, type(e).__name__), [N, pkg],
                          'polynomial product on N=%d raised %s: %s' % (N, type(e).__name__, e)))
            continue
        n += eA.size + ep.size
        nt += int(eA.sum()) + int(ep.size)
        if (np.asarray(A) != eA).any():
            viol.append(V('C01/acq_mat/%s' % pkg, [N, pkg], 'acq_mat differs from matrices'))
        M = len(allp)
        if og.shape != (M * M, 2 * N) or (og.reshape(M, M, -1) != eg).any():
            viol.append(V('C01/batch_dot/%s/string' % pkg, [N, pkg], 'product strings differ'))
        elif (op.reshape(M, M) % 4 != ep).any():
            bad = np.argwhere(op.reshape(M, M) % 4 != ep)[0]
            viol.append(V('C01/batch_dot/%s/phase' % pkg, [N, pkg], 'product phase differs for %s @ %s' % (
                ref.g_to_str(Gs[bad[0]], Ps[bad[0]]), ref.g_to_str(Gs[bad[1]], Ps[bad[1]]))))
        elif not np.allclose(oc.reshape(M, M), ec, atol=1e-6):
            viol.append(V('C01/batch_dot/%s/coeff' % pkg, [N, pkg], 'product coefficients differ'))
    return {'n': n, 'nt': nt, 'viol': viol}


def fn_combine(items):
    """item = [N, i1]: pauli_combine over all ordered triples (first string fixed) with
    every phase pattern and all 8 selection rows: ordered product with running phase."""
    n = nt = 0
    viol = []
    C = np.array([[(k >> 2) & 1, (k >> 1) & 1, k & 1] for k in range(8)], dtype=lib.INT)
    for N, i1 in items:
        G = ref.all_g(N)
        for i2 in range(len(G)):
            for i3 in range(len(G)):
                gs = np.array([G[i1], G[i2], G[i3]], dtype=lib.INT)
                for pp in range(64):
                    ps = np.array([pp & 3, (pp >> 2) & 3, (pp >> 4) & 3], dtype=lib.INT)
                    og, op = lib.pu.pauli_combine(C, gs, ps)
                    # reference: ordered product of selected rows
                    eg = np.zeros((8, 2 * N), dtype=np.int64)
                    ep = np.zeros(8, dtype=np.int64)
                    for j in range(3):
                        sel = C[:, j] == 1
                        ng, np_ = ref.mul(eg[sel], ep[sel], gs[j], ps[j])
                        eg[sel] = ng
                        ep[sel] = np_
                    n += 8
                    nt += 4
                    if (og != eg).any() or (op % 4 != ep).any():
                        viol.append(V('C01/pauli_combine/py', [N, i1], 'combine of %s differs' % (
                            [ref.g_to_str(g, p) for g, p in zip(gs, ps)],), [og.tolist(), op.tolist()], [eg.tolist(), ep.tolist()]))
    return {'n': n, 'nt': nt, 'viol': viol}


def fn_torch_pairs(items):
    """item = [N, i1]: torchclifford Pauli.__matmul__, utils.acq, utils.ipow, ipow_product."""
    m = lib.torch_mods()
    tu = m['tu']
    n = nt = 0
    viol = []
    for N, i1 in items:
        G = ref.all_g(N)
        g1 = G[i1]
        tG = lib.tT(G)
        t1 = lib.tT(g1)
        exp_acq = ref.anti(g1[None, :], G)
        _, exp_ph = ref.mul(g1[None, :], 0, G, 0)
        a = lib.t2n(tu.acq(t1, tG))
        ip = lib.t2n(tu.ipow(t1.unsqueeze(0), tG))
        ipp = lib.t2n(tu.ipow_product(t1.unsqueeze(0), tG))
        n += 3 * len(G)
        if (a != exp_acq).any():
            viol.append(V('C01/acq/torch', [N, i1], 'torch acq differs for %s' % ref.g_to_str(g1)))
        if (ip != exp_ph).any():
            viol.append(V('C01/ipow/torch', [N, i1], 'torch ipow differs for %s' % ref.g_to_str(g1)))
        if (ipp != exp_ph).any():
            viol.append(V('C01/ipow_product/torch', [N, i1], 'torch ipow_product differs for %s' % ref.g_to_str(g1)))
        right = [[lib.tP(g2, p2) for g2 in G] for p2 in range(4)]
        for p1 in range(4):
            left = lib.tP(g1, p1)
            for p2 in range(4):
                eg, ep = ref.mul(g1[None, :], p1, G, p2)
                for j in range(len(G)):
                    res = left @ right[p2][j]
                    n += 1
                    if exp_acq[j] or p1 or p2:
                        nt += 1
                    rg, rp = lib.t2n(res.g), lib.t2n(res.p)
                    if rg.shape != (2 * N,) or (rg != eg[j]).any() or int(rp) != ep[j]:
                        viol.append(V('C01/matmul/torch', [N, i1], '%s @ %s -> %s,%s; matrices say %s' % (
                            ref.g_to_str(g1, p1), ref.g_to_str(G[j], p2), rg.tolist(), rp, ref.g_to_str(eg[j], ep[j]))))
    return {'n': n, 'nt': nt, 'viol': viol}


# ---------------------------------------------------------------- operand forms / mixed operand types
def _dense(obj, N):
    """dense matrix of a Pauli / PauliMonomial / PauliPolynomial of either package."""
    if hasattr(obj, 'gs'):
        gs, ps = lib.t2n(obj.gs), lib.t2n(obj.ps)
        cs = obj.cs.detach().numpy() if hasattr(obj.cs, 'detach') else np.asarray(obj.cs)
        out = np.zeros((2 ** N, 2 ** N), dtype=complex)
        for g, p, c in zip(gs.reshape(-1, 2 * N), np.atleast_1d(ps), np.atleast_1d(cs)):
            if int(p) != p:
                raise ValueError('non-integral phase indicator %r' % (p,))
            out = out + complex(c) * ref.mat(g, int(p))
        return out
    g, p = lib.t2n(obj.g), lib.t2n(obj.p)
    if int(p) != p:
        raise ValueError('non-integral phase indicator %r' % (p,))
    c = getattr(obj, 'c', 1.0)
    c = complex(c.detach().numpy()) if hasattr(c, 'detach') else complex(c)
    return c * ref.mat(g.reshape(-1), int(p))


def fn_mixed_types(items):
    """item = [N, i1, pkg]: products between DIFFERENT operand classes (Pauli, PauliMonomial, PauliPolynomial, either
    order), compared as dense matrices with dense(a) @ dense(b).  The left string i1 with all 4 phases meets three
    fixed right operands of every class; the polynomials contain terms that commute and that anticommute with it."""
    n = nt = 0
    viol = []
    for N, i1, pkg in items:
        G = ref.all_g(N)
        g1 = G[i1]
        mkP, mkM, mkQ = (lib.P, lib.MONO, lib.POLY) if pkg == 'py' else (lib.tP, None, lib.tPOLY)   # torchclifford has no PauliMonomial
        M = len(G)
        polys = [('all-strings', G, np.arange(M) % 4, [CPOOL[i % len(CPOOL)] for i in range(M)]),
                 ('two-terms', G[[1 % M, M - 1]], np.array([0, 3]), [1.0, 2.0]),
                 ('three-terms', G[[M // 2, M // 3, (2 * M) // 3]], np.array([2, 1, 0]), [1j, -0.5, 2.5])]
        monos = [(G[(i1 + 1) % M], 1, 1 + 2j), (G[M - 1], 3, -0.5), (G[M // 2], 0, 2.5)]
        for p1 in range(4):
            ops = {'Pauli': lambda: mkP(g1, p1)}
            if mkM is not None:
                ops['PauliMonomial'] = lambda: mkM(g1, p1, CPOOL[(i1 + p1) % len(CPOOL)])
            others = {}
            for nm, gs, ps, cs in polys:
                others['PauliPolynomial(%s)' % nm] = (lambda gs=gs, ps=ps, cs=cs: mkQ(gs, ps, cs))
            for k, (g, p, c) in enumerate(monos):
                if mkM is not None:
                    others['PauliMonomial#%d' % k] = (lambda g=g, p=p, c=c: mkM(g, p, c))
                others['Pauli#%d' % k] = (lambda g=g, p=p: mkP(g, p))
            for an, amk in ops.items():
                for bn, bmk in others.items():
                    if an == 'Pauli' and bn.startswith('Pauli#'):
                        continue    # same-class products: legs pairs / torch_pairs
                    for order in ('ab', 'ba'):
                        a, b = (amk(), bmk()) if order == 'ab' else (bmk(), amk())
                        ta, tb = (an, bn) if order == 'ab' else (bn, an)
                        da, db = _dense(a, N), _dense(b, N)
                        n += 1
                        try:
                            res = a @ b
                        except (NotImplementedError, TypeError):
                            continue       # operand combination not offered by the package: nothing is claimed
                        nt += 1
                        try:
                            dr = _dense(res, N)
                            ok = np.allclose(dr, da @ db, atol=1e-5)
                            why = '' if ok else 'dense(result) != dense(a) @ dense(b)'
                        except Exception as e:
                            ok, why = False, 'result unreadable: %s' % e
                        if ok and not (np.allclose(_dense(a, N), da, atol=1e-6) and np.allclose(_dense(b, N), db, atol=1e-6)):
                            ok, why = False, 'an operand was modified by the product'
                        if not ok:
                            viol.append(V('C01/matmul-mixed/%s/%s@%s' % (pkg, ta.split('(')[0].split('#')[0], tb.split('(')[0].split('#')[0]), [N, i1, pkg],
                                          '%s: %s %s @ %s (left string %s, phase %d, N=%d): %s' % (
                                              pkg, order, ta, tb, ref.g_to_str(g1, p1), p1, N, why)))
    return {'n': n, 'nt': nt, 'viol': viol}


def fn_operand_reuse(items):
    """item = [N, i1, pkg]: ONE operand object multiplied again and again.  Operand sources: elements taken from a
    PauliList by integer indexing (views into the list's arrays; torch: float32 phase tensor), Paulis carrying a
    0-dim tensor / numpy-scalar phase, and results of earlier products fed back as left and right factors.  After
    the sweep the list, the operands and every kept result must still denote what they denoted when created."""
    n = nt = 0
    viol = []
    for N, i1, pkg in items:
        G = ref.all_g(N)
        M = len(G)
        Ps = (np.arange(M) + i1) % 4
        if pkg == 'py':
            L = lib.PL(G, Ps)
            rd = lambda x: (np.asarray(x.g).astype(np.int64).reshape(-1), int(np.asarray(x.p)) % 4 if int(np.asarray(x.p)) == np.asarray(x.p) else -1)
            lrd = lambda: (np.asarray(L.gs).astype(np.int64), np.asarray(L.ps).astype(np.int64) % 4)
            scal = lambda g, p: lib.pc.Pauli(np.array(g, dtype=lib.INT), np.int64(p))
        else:
            L = lib.tPL(G, Ps)
            t = lib.torch_mods()['torch']
            rd = lambda x: (lib.t2n(x.g).reshape(-1), int(lib.t2n(x.p)) if float(lib.t2n(x.p)) == int(lib.t2n(x.p)) else -1)
            lrd = lambda: (lib.t2n(L.gs), lib.t2n(L.ps))
            scal = lambda g, p: lib.torch_mods()['tpa'].Pauli(lib.tT(g), t.tensor(float(p), dtype=t.float32))

        def bad(sig, msg):
            viol.append(V('C01/matmul-reuse/%s/%s' % (pkg, sig), [N, i1, pkg], '%s N=%d left #%d %s: %s' % (pkg, N, i1, ref.g_to_str(G[i1], Ps[i1]), msg)))
        for form in ('list-element', 'scalar-array-phase'):
            left = L[i1] if form == 'list-element' else scal(G[i1], Ps[i1])
            kept = []
            for j in range(M):
                right = L[j] if (j % 2 == 0 or form != 'list-element') else scal(G[j], Ps[j])
                res = left @ right
                eg, ep = ref.mul(G[i1], Ps[i1], G[j], Ps[j])
                n += 1
                nt += 1
                rg, rp = rd(res)
                if (rg != eg).any() or rp != ep:
                    bad(form + '/product', 'product #%d of the same left operand object with %s gives %s, matrices say %s' % (
                        j, ref.g_to_str(G[j], Ps[j]), ref.g_to_str(rg, rp) if rp >= 0 else (rg.tolist(), rp), ref.g_to_str(eg, ep)))
                    break
                kept.append((res, eg, ep, j))
            lg, lp = lrd()
            if (lg != G).any() or (lp != Ps).any():
                bad(form + '/list-modified', 'the PauliList the operands were taken from changed: phases %s, were %s' % (lp.tolist(), Ps.tolist()))
                L = lib.PL(G, Ps) if pkg == 'py' else lib.tPL(G, Ps)
            for res, eg, ep, j in kept:
                rg, rp = rd(res)
                if (rg != eg).any() or rp != ep:
                    bad(form + '/result-changed-later', 'the product with %s read %s when returned and reads %s after later products' % (
                        ref.g_to_str(G[j], Ps[j]), ref.g_to_str(eg, ep), ref.g_to_str(rg, rp) if rp >= 0 else (rg.tolist(), rp)))
                    break
        # results fed back: ab = a@b kept; ab@c, c@ab, ab@ab; ab itself afterwards
        for j in range(M):
            a, b = L[i1], L[j]
            ab = a @ b
            eg, ep = ref.mul(G[i1], Ps[i1], G[j], Ps[j])
            for k in ((j + 1) % M, (3 * j + 2) % M):
                c = L[k]
                for what, r2, (xg, xp) in (('ab@c', ab @ c, ref.mul(eg, ep, G[k], Ps[k])), ('c@ab', c @ ab, ref.mul(G[k], Ps[k], eg, ep)),
                                           ('ab@ab', ab @ ab, ref.mul(eg, ep, eg, ep))):
                    n += 1
                    nt += 1
                    rg, rp = rd(r2)
                    if (rg != xg).any() or rp != xp:
                        bad('fed-back/' + what, '%s with a=%s b=%s c=%s gives %s, matrices say %s' % (
                            what, ref.g_to_str(G[i1], Ps[i1]), ref.g_to_str(G[j], Ps[j]), ref.g_to_str(G[k], Ps[k]),
                            ref.g_to_str(rg, rp) if rp >= 0 else (rg.tolist(), rp), ref.g_to_str(xg, xp)))
            rg, rp = rd(ab)
            if (rg != eg).any() or rp != ep:
                bad('fed-back/ab-changed', 'ab = %s @ %s no longer reads %s after being used as a factor' % (
                    ref.g_to_str(G[i1], Ps[i1]), ref.g_to_str(G[j], Ps[j]), ref.g_to_str(eg, ep)))
        lg, lp = lrd()
        if (lg != G).any() or (lp != Ps).any():
            bad('fed-back/list-modified', 'the PauliList the operands were taken from changed')
    return {'n': n, 'nt': nt, 'viol': viol}


def mcopy(m):
    return m.clone() if hasattr(m, 'clone') else m.copy()


def fn_evolve_multiply(items):
    """item = [N, i1, pkg]: use -> evolve IN PLACE -> use again on ONE operand object.  Operand kinds: Pauli, polynomial
    made by '+', polynomial made by reduce(), unreduced polynomial, monomial (pyclifford).  Evolutions: rotate_by(+-G) for
    every Hermitian generator (N=3: a stride), transform_by(rotation map), masked rotate_by / transform_by on the last
    qubit.  Before and after each evolution the object is multiplied from both sides (and with itself); every product must
    be dense(current arrays of a) @ dense(b).  Nothing is assumed about the evolution itself (that is C02/C03)."""
    from .. import dom
    n = nt = 0
    viol = []
    for N, i1, pkg in items:
        G = ref.all_g(N)
        M = len(G)
        if pkg == 'py':
            mkP, mkM, mkQ = lib.P, lib.MONO, lib.POLY
            rotmap = lambda g, p: lib.pc.clifford_rotation_map(lib.P(g, p))
        else:
            mkP, mkM, mkQ = lib.tP, None, lib.tPOLY
            rotmap = lambda g, p: lib.torch_mods()['tst'].clifford_rotation_map(lib.tP(g, p))
        herm = dom.hermitian_paulis(N, include_identity=False)
        if N >= 3:
            herm = herm[i1 % 5::5]
        g_last = [(np.array([1, 0]), 0), (np.array([1, 1]), 2), (np.array([0, 1]), 0)]
        lastmask = np.arange(N) == N - 1
        if pkg != 'py':
            lastmask = lib.torch_mods()['torch'].tensor(lastmask)
        evols = [('rotate_by', (lambda o, g=g, p=p: o.rotate_by(mkP(g, p))), ref.g_to_str(g, p)) for g, p in herm]
        evols += [('transform_by', (lambda o, g=g, p=p: o.transform_by(rotmap(g, p))), 'rotation map of ' + ref.g_to_str(g, p)) for g, p in herm[::3]]
        if N >= 2:
            evols += [('rotate_by-masked', (lambda o, g=g, p=p: o.rotate_by(mkP(g, p), mask=mcopy(lastmask))), ref.g_to_str(g, p) + ' on the last qubit') for g, p in g_last]
            evols += [('transform_by-masked', (lambda o, g=g, p=p: o.transform_by(rotmap(g, p), mask=mcopy(lastmask))), 'rotation map of ' + ref.g_to_str(g, p) + ' on the last qubit') for g, p in g_last]
        g1 = G[i1]
        partner = [('Pauli', lambda: mkP(G[M - 1], 3)),
                   ('PauliPolynomial', lambda: mkQ(G[[M // 2, M // 3, (2 * M) // 3]], np.array([2, 1, 0]), [1j, -0.5, 2.5]))]
        for p1 in range(4):
            kinds = [('Pauli', lambda: mkP(g1, p1)),
                     ('sum', lambda: mkP(g1, p1) + mkP(G[(i1 + 1) % M], 1)),
                     ('reduced', lambda: mkQ(np.array([g1, G[(i1 + 5) % M], g1]), np.array([p1, 2, 0]), [1.0, 2j, 0.5]).reduce()),
                     ('unreduced', lambda: mkQ(np.array([g1, G[(i1 + 5) % M]]), np.array([p1, 3]), [1.0, -0.5]))]
            if mkM is not None:
                kinds.append(('PauliMonomial', lambda: mkM(g1, p1, 1 + 2j)))
            for kn, kmk in kinds:
                for en, ev, elabel in evols:
                    try:
                        a = kmk()
                    except Exception:
                        break          # this way of building the operand is not offered by the package
                    stage = 'before'
                    failed = False
                    for step in range(2):
                        for bn, bmk in partner:
                            for order in ('a@b', 'b@a', 'a@a'):
                                if order == 'a@a' and bn != 'Pauli':
                                    continue
                                b = bmk()
                                try:
                                    da, db = _dense(a, N), _dense(b, N)
                                    x, y = (a, b) if order == 'a@b' else ((b, a) if order == 'b@a' else (a, a))
                                    dx, dy = (da, db) if order == 'a@b' else ((db, da) if order == 'b@a' else (da, da))
                                    res = x @ y
                                except (NotImplementedError, TypeError):
                                    continue
                                except Exception as e:
                                    viol.append(V('C01/evolve-multiply/%s/%s/%s/raises-%s' % (pkg, kn, en, type(e).__name__), [N, i1, pkg],
                                                  '%s N=%d operand %s (%s phase %d) %s %s(%s): %s with %s raised %s' % (pkg, N, kn, ref.g_to_str(g1), p1, stage, en, elabel, order, bn, e)))
                                    failed = True
                                    break
                                n += 1
                                nt += int(stage == 'after')
                                try:
                                    ok = np.allclose(_dense(res, N), dx @ dy, atol=1e-5)
                                    why = 'dense(result) != dense(x) @ dense(y) with the operands as they read at the time of the product'
                                    if ok and not np.allclose(_dense(a, N), da, atol=1e-6):
                                        ok, why = False, 'the product changed the operand'
                                except Exception as e:
                                    ok, why = False, 'unreadable: %s' % e
                                if not ok:
                                    viol.append(V('C01/evolve-multiply/%s/%s/%s/%s' % (pkg, kn, en, stage), [N, i1, pkg],
                                                  '%s N=%d operand a = %s built from %s phase %d; %s the in-place %s(%s): %s with b = %s: %s' % (
                                                      pkg, N, kn, ref.g_to_str(g1), p1, stage, en, elabel, order, bn, why)))
                                    failed = True
                                    break
                            if failed:
                                break
                        if failed or step == 1:
                            break
                        try:
                            ev(a)
                        except (NotImplementedError, TypeError):
                            break
                        except Exception as e:
                            viol.append(V('C01/evolve-multiply/%s/%s/%s/evolution-raises-%s' % (pkg, kn, en, type(e).__name__), [N, i1, pkg],
                                          '%s N=%d operand %s: %s(%s) raised %s' % (pkg, N, kn, en, elabel, e)))
                            break
                        stage = 'after'
    return {'n': n, 'nt': nt, 'viol': viol}


def legs(tier):
    Ns = (1, 2, 3, 4) if tier == 'quick' else (1, 2, 3, 4, 5)
    out = []
    items = [[N, i] for N in Ns for i in range(4 ** N)]
    out.append(Leg('pairs', fn_pairs, items, chunk=4 if tier == 'quick' else 2,
                   src_states=sum(4 * 4 ** N for N in Ns),
                   bound='N in %s: all (4*4^N)^2 ordered pairs' % (Ns,)))
    tn = (1, 2) if tier == 'quick' else (1, 2, 3)
    titems = [[N, i, p] for N in tn for i in range(4 ** N) for p in range(4)]
    if tier != 'quick':
        # N=3 triples: 1024*1024*1024 is out of reach; fix A over all 1024 elements, B and C over
        # the phase-free strings plus all phases on B (documented bound)
        pass
    out.append(Leg('triples', fn_triples, [it for it in titems if it[0] <= 2], chunk=4,
                   bound='N<=2: all ordered triples (A,B,C) with all phases; results fed back as operands'))
    if tier != 'quick':
        out.append(Leg('triples_N3', fn_triples_n3, [[i] for i in range(64)], chunk=1,
                       bound='N=3: all 64^3 string triples x 4 phases of the middle operand (1 048 576 triples, both bracketings)'))
    out.append(Leg('sparse_N5to9', fn_sparse, [[N, 40 if tier == 'quick' else 160, 'py'] for N in (5, 6, 7, 8, 9)], chunk=1, exhaustive=False, supplementary=True,
                   bound='N=5..9: all ordered pairs of a structured subset of strings (weight<=1, constant strings, %d lattice strings) x rotating phases: matmul, ipow, acq (the complete sweep stops at N=%d in this tier)' % (40 if tier == 'quick' else 160, Ns[-1])))
    lc = [[N, s, st] for N in (1, 2, 3, 4) for s in (0, 5) for st in (1, 3, 7)]
    out.append(Leg('long_chain', fn_long_chain, lc, chunk=1, bound='walks of 4*4^N factors visiting every element'))
    out.append(Leg('batch_py', fn_batch, [[N, 'py'] for N in ((1, 2) if tier == 'quick' else (1, 2, 3))], chunk=1,
                   bound='acq_mat on all strings, PauliPolynomial@PauliPolynomial on the whole group'))
    out.append(Leg('combine', fn_combine, [[N, i] for N in (1, 2) for i in range(4 ** N)], chunk=1,
                   bound='N<=2: all ordered triples of strings x 64 phase patterns x 8 selections'))
    tNs = (1, 2, 3)
    out.append(Leg('torch_pairs', fn_torch_pairs, [[N, i] for N in tNs for i in range(4 ** N)], chunk=2,
                   bound='torchclifford N in %s: all ordered pairs' % (tNs,)))
    out.append(Leg('batch_torch', fn_batch, [[N, 'torch'] for N in (1, 2)], chunk=1, parallel=False))
    mx = [[N, i, pkg] for pkg in ('py', 'torch') for N in (1, 2) for i in range(4 ** N)]
    out.append(Leg('mixed_types', fn_mixed_types, mx, chunk=2,
                   bound='N<=2, both packages: every left string x 4 phases as Pauli and as PauliMonomial against 3 polynomials / 3 monomials / 3 Paulis, both operand orders, as dense matrices'))
    ru = [[N, i, pkg] for pkg in ('py', 'torch') for N in (1, 2) for i in range(4 ** N)] + [[3, i, pkg] for pkg in ('py', 'torch') for i in range(0, 64, 7 if tier == 'quick' else 1)]
    out.append(Leg('operand_reuse', fn_operand_reuse, ru, chunk=2,
                   bound='N<=2 (every left element; N=3: %s), both packages: one operand object (list element / scalar-array phase / earlier result) reused for all right operands; list, operands and kept results re-read afterwards' % ('every 7th' if tier == 'quick' else 'every')))
    ev = [[N, i, pkg] for pkg in ('py', 'torch') for N in (1, 2) for i in range(4 ** N)] + [[3, i, pkg] for pkg in ('py', 'torch') for i in range(1, 64, 9 if tier == 'quick' else 2)]
    out.append(Leg('evolve_then_multiply', fn_evolve_multiply, ev, chunk=1, exhaustive=False, supplementary=True,
                   bound='N<=2 every string x 4 phases (N=3: %s string, 1/5 of the generators), both packages: one operand object (Pauli / sum / reduce()d / unreduced polynomial / monomial) multiplied from both sides and with itself, '
                         'evolved IN PLACE by rotate_by(every signed generator), transform_by(rotation maps), masked rotate_by / transform_by on the last qubit, multiplied again; every product = dense product of the operands as they read then' % ('every 9th' if tier == 'quick' else 'every 2nd')))
    return out
