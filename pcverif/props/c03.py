"""C03 Applying a Clifford map is a unitary conjugation (phase-exact homomorphism).

All valid maps (24 / 11520, independently enumerated, all sign patterns) x the complete
Pauli group; masks / embed; rotation maps; reconstruction of the single unitary U."""
import itertools
import numpy as np
from .. import ref, dom, lib, stab
from ..core import Leg, V
from .c02 import group_arrays, ref_rotate

PROP = 'C03'
RULE = ('(valid map, group element) pairs: every valid map of N<=2 with every sign pattern x all 4*4^N operators; masks: '
        'every 1-qubit map at every position of N<=3 and 2-qubit maps on the 3 masks of N=3; non-trivial = map is not the '
        'identity table or carries a sign; transitions = images computed by the real code and compared with the reference homomorphism')
ASSUMPTIONS = ['only valid maps (CCR + Hermitian phases) are in scope; direction convention (U vs U^dag) is free, only existence of one U is required']


def embed_map(t, s, qs, N):
    """Reference embedding of an n-qubit map on ascending qubits qs into N qubits."""
    gs = np.eye(2 * N, dtype=np.int64)
    ps = np.zeros(2 * N, dtype=np.int64)
    cols = []
    for q in qs:
        cols += [2 * q, 2 * q + 1]
    for a, ra in enumerate(cols):
        gs[ra, :] = 0
        for b, cb in enumerate(cols):
            gs[ra, cb] = t[a, b]
        ps[ra] = s[a]
    return gs, ps


def check_group_image(pkg, t, s, N, item, viol, tag, mask=None, via_embed=False):
    """Transform the whole group by map (t,s) [through mask]; compare with the reference."""
    Gs, Ps = group_arrays(N)
    if mask is None:
        T, S = t, s
    else:
        qs = [q for q in range(N) if mask[q]]
        T, S = embed_map(t, s, qs, N)
    eg, ep = ref.map_apply(T, S, Gs, Ps)
    try:
        if pkg == 'py':
            M = lib.CM(t, s)
            lst = lib.PL(Gs, Ps)
            if mask is None:
                lst.transform_by(M)
            elif via_embed:
                big = lib.pc.identity_map(N).embed(M, mask.copy())
                lst.transform_by(big)
            else:
                lst.transform_by(M, mask=mask.copy())
            og, op = np.asarray(lst.gs), np.asarray(lst.ps)
            if (np.asarray(M.gs) != t).any() or (np.asarray(M.ps) != s).any():
                viol.append(V('C03/%s/py/map-argument-modified' % tag, item, 'transform_by changed its map argument'))
        else:
            m = lib.torch_mods()
            M = lib.tCM(t, s)
            lst = lib.tPL(Gs, Ps)
            if mask is None:
                lst.transform_by(M)
            else:
                lst.transform_by(M, mask=m['torch'].tensor(mask.copy()))
            og, op = lib.t2n(lst.gs), lib.t2n(lst.ps)
    except Exception as e:
        viol.append(V('C03/%s/%s/raises-%s' % (tag, pkg, type(e).__name__), item, 'transform_by raised %s: %s' % (type(e).__name__, e)))
        return None
    if og.shape != eg.shape or (og != eg).any():
        viol.append(V('C03/%s/%s/string' % (tag, pkg), item, 'image strings differ from the reference homomorphism (map %s signs %s mask %s)' % (
            np.asarray(t).tolist(), np.asarray(s).tolist(), None if mask is None else mask.tolist())))
        return None
    if (op % 4 != ep).any():
        bad = int(np.argwhere(op % 4 != ep)[0][0])
        ytype = bool((Gs[bad][0::2] * Gs[bad][1::2]).any())
        viol.append(V('C03/%s/%s/phase/%s' % (tag, pkg, 'Y-type' if ytype else 'XZ-type'), item,
                      'image of %s is %s, reference %s (map %s signs %s mask %s)' % (
                          ref.g_to_str(Gs[bad], Ps[bad]), ref.g_to_str(og[bad], op[bad]), ref.g_to_str(eg[bad], ep[bad]),
                          np.asarray(t).tolist(), np.asarray(s).tolist(), None if mask is None else mask.tolist())))
        return None
    return og, op % 4


def fn_maps(items):
    """item = [N, ti, pkg]: ti-th symplectic table x every sign pattern."""
    n = nt = 0
    viol = []
    samples = []
    for N, ti, pkg in items:
        t = dom.symplectic_tables(N)[ti]
        Gs, Ps = group_arrays(N)
        M4 = 4 ** N
        patterns = dom.sign_patterns(2 * N) if pkg == 'py' else dom.sign_patterns(2 * N)[::5]
        for s in patterns:
            res = check_group_image(pkg, t, s, N, [N, ti, pkg], viol, 'group')
            n += len(Gs)
            nt += len(Gs) if (not np.array_equal(t, np.eye(2 * N, dtype=np.int64)) or s.any()) else 0
            if res is None:
                continue
            og, op = res
            # statement, literally, on the library's own outputs:
            # identity -> identity (all four phases)
            idrows = [k for k in range(len(Gs)) if not Gs[k].any()]
            for k in idrows:
                if og[k].any() or op[k] != Ps[k]:
                    viol.append(V('C03/identity/%s' % pkg, [N, ti, pkg], 'identity with phase %d mapped to %s' % (Ps[k], ref.g_to_str(og[k], op[k]))))
            # generators -> listed rows
            for j in range(2 * N):
                g = np.zeros(2 * N, dtype=np.int64)
                g[j] = 1
                k = int(ref.gindex(g))
                if (og[k] != t[j]).any() or op[k] != s[j] % 4:
                    viol.append(V('C03/generator-rows/%s' % pkg, [N, ti, pkg], 'generator %d not mapped to the listed row' % j))
            # products -> products with the exact phase, all ordered pairs of phase-free strings
            lg, lp = og[:M4], op[:M4]
            pg, pp = ref.mul(Gs[:M4][:, None, :], 0, Gs[:M4][None, :, :], 0)          # P*Q
            ig, ip = ref.mul(lg[:, None, :], lp[:, None], lg[None, :, :], lp[None, :])  # img(P)*img(Q)
            idx = ref.gindex(pg)
            n += M4 * M4
            if (lg[idx] != ig).any() or ((lp[idx] + pp) % 4 != ip).any():
                viol.append(V('C03/multiplicative/%s' % pkg, [N, ti, pkg], 'img(PQ) != img(P)img(Q) for some pair'))
            # phases are carried linearly: img(i^p P) = i^p img(P)
            for p in range(1, 4):
                if (og[p * M4:(p + 1) * M4] != lg).any() or (op[p * M4:(p + 1) * M4] != (lp + p) % 4).any():
                    viol.append(V('C03/phase-linear/%s' % pkg, [N, ti, pkg], 'img(i^%d P) != i^%d img(P)' % (p, p)))
            # a single unitary U with img(P) = U^dag P U for every P
            if pkg == 'py':
                U = ref.unitary_of_map(t, s, N)
                if U is None:
                    viol.append(V('C03/unitary/none', [N, ti, pkg], 'no unitary intertwines the generator images'))
                else:
                    Ud = U.conj().T
                    for k in range(M4):
                        n += 1
                        if not np.allclose(Ud @ ref.mat(Gs[k], 0) @ U, ref.mat(lg[k], lp[k]), atol=1e-8):
                            viol.append(V('C03/unitary/mismatch', [N, ti, pkg], 'img(%s) != U^dag P U' % ref.g_to_str(Gs[k])))
                            break
                # single Pauli objects and polynomial coefficients
                M = lib.CM(t, s)
                for k in range(0, len(Gs), 7):
                    P1 = lib.P(Gs[k], Ps[k])
                    P1.transform_by(M)
                    n += 1
                    if (np.asarray(P1.g) != og[k]).any() or int(P1.p) % 4 != op[k]:
                        viol.append(V('C03/pauli/py', [N, ti, pkg], 'Pauli.transform_by differs from PauliList.transform_by for %s' % ref.g_to_str(Gs[k], Ps[k])))
                cs = np.array([(2 + k % 5) * (1j ** (k % 3)) / 4 for k in range(len(Gs))])
                poly = lib.POLY(Gs, Ps, cs)
                poly.transform_by(M)
                n += len(Gs)
                if (np.asarray(poly.gs) != og).any() or (np.asarray(poly.ps) % 4 != op).any() or not np.array_equal(np.asarray(poly.cs), cs):
                    viol.append(V('C03/poly/py', [N, ti, pkg], 'polynomial transform_by: terms or coefficients changed wrongly'))
        if not samples and ti % 50 == 7:
            s = dom.sign_patterns(2 * N)[-1]
            eg, ep = ref.map_apply(t, s, Gs[-1:], [1])
            samples.append({'N': N, 'table_rows': [ref.g_to_str(r_, p_) for r_, p_ in zip(t, s)], 'operand': ref.g_to_str(Gs[-1], 1), 'image': ref.g_to_str(eg[0], ep[0])})
    return {'n': n, 'nt': nt, 'viol': viol, 'samples': samples}


def fn_masks(items):
    """item = [N, n, mi, lo, hi, pkg]: maps #lo..hi-1 of n qubits through the mi-th mask of N
    qubits: masked transform_by, and identity_map(N).embed(map, mask) applied without mask."""
    n_ = nt = 0
    viol = []
    for N, nn, mi, lo, hi, pkg in items:
        qs = list(itertools.combinations(range(N), nn))[mi]
        mb = np.zeros(N, dtype=bool)
        mb[list(qs)] = True
        maps = dom.valid_maps(nn)
        for k in range(lo, min(hi, len(maps))):
            t, s = maps[k]
            for via in ((False, True) if pkg == 'py' else (False,)):
                res = check_group_image(pkg, t, s, N, [N, nn, mi, k, k + 1, pkg], viol,
                                        'embed' if via else ('mask-prefix' if list(qs) == list(range(nn)) else 'mask-nonprefix'), mask=mb, via_embed=via)
                n_ += 4 * 4 ** N
                nt += 4 * 4 ** N
                if res is not None:
                    og, op = res
                    Gs, Ps = group_arrays(N)
                    out_cols = np.repeat(~mb, 2)
                    if (og[:, out_cols] != Gs[:, out_cols]).any():
                        viol.append(V('C03/mask/untouched-columns/%s' % pkg, [N, nn, mi, k, k + 1, pkg], 'map through mask %s changed other qubits' % (list(qs),)))
    return {'n': n_, 'nt': nt, 'viol': viol}


def fn_embed_seq(items):
    """item = [pkg, N]: SEVERAL maps embedded one after another into one identity_map(N) on pairwise disjoint masks (every
    ordered choice of 2 or 3 disjoint masks of 1-2 qubits, masks with holes included): the result must be the map that
    acts with each small map on its own qubits (reference: block-wise overwrite), whatever the order of embedding."""
    n = nt = 0
    viol = []
    for pkg, N in items:
        if pkg == 'py':
            ident, CM, arr = lib.pc.identity_map, lib.CM, (lambda M: (np.asarray(M.gs).astype(np.int64), np.asarray(M.ps).astype(np.int64) % 4))
            mkmask = lambda mb: mb.copy()
        else:
            m_ = lib.torch_mods()
            ident, CM, arr = m_['tc'].identity_map, lib.tCM, (lambda M: (lib.t2n(M.gs), lib.t2n(M.ps) % 4))
            mkmask = lambda mb: m_['torch'].tensor(mb.copy())
        masks = [qs for k in (1, 2) for qs in itertools.combinations(range(N), k)]
        small = {1: [dom.valid_maps(1)[i] for i in (5, 9, 22)], 2: [dom.valid_maps(2)[i] for i in (3301, 5003, 777)]}
        seqs = [(a, b) for a in masks for b in masks if not set(a) & set(b)]
        seqs += [(a, b, c) for a in masks for b in masks for c in masks if not (set(a) & set(b) or set(a) & set(c) or set(b) & set(c))]
        for si, seq in enumerate(seqs):
            big = ident(N)
            eg, ep = np.eye(2 * N, dtype=np.int64), np.zeros(2 * N, dtype=np.int64)
            names = []
            for j, qs in enumerate(seq):
                t, s_ = small[len(qs)][(si + j) % 3]
                mb = np.zeros(N, dtype=bool)
                mb[list(qs)] = True
                big.embed(CM(t, s_), mkmask(mb))
                cols = [c for q in qs for c in (2 * q, 2 * q + 1)]
                eg[np.ix_(cols, cols)] = t
                ep[cols] = np.asarray(s_) % 4
                names.append(list(qs))
            n += 1
            nt += 1
            og, op = arr(big)
            if (og != eg).any() or (op != ep).any():
                hole = any(max(qs) - min(qs) + 1 > len(qs) for qs in seq)
                viol.append(V('C03/embed-sequence/%s/%s' % (pkg, 'mask-with-hole' if hole else 'contiguous-masks'), [pkg, N],
                              '%s N=%d: identity_map.embed on the masks %s in this order: rows %s are not the block-wise embedding' % (
                                  pkg, N, names, np.argwhere((og != eg).any(axis=1) | (op != ep)).reshape(-1).tolist())))
                if len(viol) > 20:
                    break
    return {'n': n, 'nt': nt, 'viol': viol}


def fn_map_histories(items):
    """item = [pkg, N, lo, hi]: ONE map object M (maps #lo..hi-1 of the complete set) is USED (applied to the whole group,
    given to compose as argument and as receiver), then EVOLVED in place (transform_by another map, masked
    transform_by, rotate_by, embed, transform_by itself), then used again.  After the evolution every use must agree
    with the reference homomorphism of M's CURRENT rows (anything memoised on the object from the first use shows up)."""
    n = nt = 0
    viol = []
    for pkg, N, lo, hi in items:
        py = pkg == 'py'
        CM, PL, P = (lib.CM, lib.PL, lib.P) if py else (lib.tCM, lib.tPL, lib.tP)
        torch = None if py else lib.torch_mods()['torch']
        arr = (lambda M: (np.asarray(M.gs).astype(np.int64), np.asarray(M.ps).astype(np.int64) % 4)) if py else (lambda M: (lib.t2n(M.gs), lib.t2n(M.ps) % 4))
        maps = dom.valid_maps(N)
        Gs, Ps = group_arrays(N)
        t1, s1 = dom.valid_maps(1)[9]
        for k in range(lo, min(hi, len(maps))):
            t, s_ = maps[k]
            tx, sx = maps[(k * 131 + 7) % len(maps)]
            mb = np.zeros(N, dtype=bool)
            mb[N - 1] = True
            mkm = (lambda: mb.copy()) if py else (lambda: torch.tensor(mb.copy()))
            evolutions = [('transform_by(map)', lambda M: M.transform_by(CM(tx, sx))),
                          ('transform_by(itself)', lambda M: M.transform_by(M)),
                          ('rotate_by', lambda M: M.rotate_by(P(ref.all_g(N)[(k % (4 ** N - 1)) + 1], 2 * (k % 2))))]
            if N >= 2:
                evolutions.append(('transform_by(map, mask)', lambda M: M.transform_by(CM(t1, s1), mask=mkm())))
                evolutions.append(('embed', lambda M: M.embed(CM(t1, s1), mkm())))

            def use(M):
                lst = PL(Gs, Ps)
                lst.transform_by(M)
                X = CM(tx, sx)
                return [arr(lst), arr(X.compose(M)), arr(M.compose(CM(tx, sx)))]
            # a table in identity order transformed by M / identity.compose(M): the result is overwritten in place afterwards, M must stay what it was
            for how in ('identity_map.transform_by(M)', 'identity_map.compose(M)'):
                M = CM(t, s_)
                ident = (lib.pc if py else lib.torch_mods()['tc']).identity_map(N)
                try:
                    T = ident.transform_by(M) if how.endswith('transform_by(M)') else ident.compose(M)
                    if N >= 2:
                        T.embed(CM(t1, s1), mkm())
                    if py:
                        T.gs[...] = 1 - T.gs
                    else:
                        T.gs.copy_(1 - T.gs)
                except Exception:
                    continue
                n += 1
                nt += 1
                mg, mp = arr(M)
                if (mg != t).any() or (mp != np.asarray(s_) % 4).any():
                    viol.append(V('C03/map-history/%s/result-aliases-map' % pkg, [pkg, N, k, k + 1],
                                  '%s N=%d map #%d: after %s the RESULT was overwritten in place (embed, array write) and the map M changed with it' % (pkg, N, k, how)))
            for enm, ev in evolutions:
                M = CM(t, s_)
                use(M)
                try:
                    ev(M)
                except Exception:
                    continue
                cg, cp = arr(M)
                got = use(M)
                want = [ref.map_apply(cg, cp, Gs, Ps), ref.map_apply(cg, cp, tx, sx), ref.map_apply(tx, sx, cg, cp)]
                n += 3
                nt += 3
                for what, (g1, p1), (g2, p2) in zip(('transform_by(M) of the whole group', 'X.compose(M)', 'M.compose(X)'), got, want):
                    if (g1 != g2).any() or (p1 != np.asarray(p2) % 4).any():
                        viol.append(V('C03/map-history/%s/%s' % (pkg, enm.split('(')[0] + ('-mask' if 'mask' in enm else '') + ('-itself' if 'itself' in enm else '')), [pkg, N, k, k + 1],
                                      '%s N=%d map #%d: used, then evolved in place by %s, then used again: %s does not follow the current rows of the map' % (pkg, N, k, enm, what)))
                        break
    return {'n': n, 'nt': nt, 'viol': viol}


def fn_gate_regenerate(items):
    """item = [pkg, n, gi]: a rotation gate on n qubits is compiled, then given ANOTHER generator (set_generator), and
    compiled again: gate.forward / backward and the gate's forward_map / backward_map must all be the rotation by the
    NEW generator (reference: the exactly signed rule U^dag P U = i P G for anticommuting P).  Also for a copy of the
    compiled gate whose generator is then replaced."""
    from .c02 import ref_rotate
    n = nt = 0
    viol = []
    for pkg, nq, gi in items:
        py = pkg == 'py'
        ci = lib.pci if py else lib.torch_mods()['tci']
        P, PL = (lib.P, lib.PL) if py else (lib.tP, lib.tPL)
        arr = (lambda L: (np.asarray(L.gs).astype(np.int64), np.asarray(L.ps).astype(np.int64) % 4)) if py else (lambda L: (lib.t2n(L.gs), lib.t2n(L.ps) % 4))
        G = ref.all_g(nq)
        Gs, Ps = group_arrays(nq)
        g1 = G[gi]
        for gj in range(1, len(G), 1 if nq == 1 else 3):
            for p1, p2 in ((0, 2), (2, 0)):
                g2 = G[gj]
                eg, ep, a = ref_rotate(g2, p2, Gs, Ps)
                for how in ('compile-set-compile', 'compile-copy-set-compile'):
                    try:
                        gate = ci.CliffordGate(*range(nq))
                        gate.set_generator(P(g1, p1))
                        gate.compile()
                        if how == 'compile-copy-set-compile':
                            gate = gate.copy()
                        gate.set_generator(P(g2, p2))
                        gate.compile()
                        lst = PL(Gs, Ps)
                        gate.forward(lst)
                        og, op = arr(lst)
                        lst2 = PL(Gs, Ps)
                        lst2.transform_by(gate.forward_map)
                        mg, mp = arr(lst2)
                        lst3 = PL(eg, ep)
                        gate.backward(lst3)
                        bg, bp = arr(lst3)
                    except Exception:
                        continue
                    n += 3
                    nt += 3
                    for what, (xg, xp), (wg, wp) in (('gate.forward', (og, op), (eg, ep)), ('gate.forward_map', (mg, mp), (eg, ep)), ('gate.backward', (bg, bp), (Gs, Ps % 4))):
                        if (xg != wg).any() or (xp != wp % 4).any():
                            viol.append(V('C03/gate-regenerate/%s/%s/%s' % (pkg, how, what.split('.')[1]), [pkg, nq, gi],
                                          '%s: CliffordGate on %d qubits with generator %s, compiled, then set_generator(%s), compiled again (%s): %s is not the rotation by the new generator' % (
                                              pkg, nq, ref.g_to_str(g1, p1), ref.g_to_str(g2, p2), how, what)))
                            break
    return {'n': n, 'nt': nt, 'viol': viol}


def fn_rotmap(items):
    """item = [N, gi]: clifford_rotation_map(G) acts identically to rotate_by(G) (both signs)."""
    n = nt = 0
    viol = []
    for N, gi in items:
        g = ref.all_g(N)[gi]
        Gs, Ps = group_arrays(N)
        for p in (0, 2):
            eg, ep, a = ref_rotate(g, p, Gs, Ps)
            M = lib.pc.clifford_rotation_map(lib.P(g, p))
            n += 1
            if not ref.is_valid_map(np.asarray(M.gs), np.asarray(M.ps)):
                viol.append(V('C03/rotmap/invalid', [N, gi], 'clifford_rotation_map(%s) is not a valid map' % ref.g_to_str(g, p)))
                continue
            lst = lib.PL(Gs, Ps)
            lst.transform_by(M)
            lst2 = lib.PL(Gs, Ps)
            lst2.rotate_by(lib.P(g, p))
            n += 2 * len(Gs)
            nt += int(a.sum())
            if (np.asarray(lst.gs) != eg).any() or (np.asarray(lst.ps) % 4 != ep).any():
                viol.append(V('C03/rotmap/vs-reference', [N, gi], 'transform_by(clifford_rotation_map(%s)) differs from U^dag P U' % ref.g_to_str(g, p)))
            if (np.asarray(lst.gs) != np.asarray(lst2.gs)).any() or (np.asarray(lst.ps) % 4 != np.asarray(lst2.ps) % 4).any():
                viol.append(V('C03/rotmap/vs-rotate_by', [N, gi], 'rotation map and rotate_by disagree for %s' % ref.g_to_str(g, p)))
            # history: mutate the returned map in place, then ask for the same rotation map again -
            # a constructor must hand out a fresh, correct object every time (no shared/stale cache)
            ref_g, ref_p = np.asarray(M.gs).copy(), np.asarray(M.ps).copy()
            for hg, hp in ((ref.all_g(N)[-1], 0), (ref.all_g(N)[1], 2)):
                M.rotate_by(lib.P(hg, hp))
            M.gs[0, :] = 1 - M.gs[0, :]
            M3 = lib.pc.clifford_rotation_map(lib.P(g, p))
            n += 1
            if np.shares_memory(M3.gs, M.gs) or (np.asarray(M3.gs) != ref_g).any() or (np.asarray(M3.ps) % 4 != ref_p % 4).any():
                viol.append(V('C03/rotmap/not-fresh-after-mutation', [N, gi], 'clifford_rotation_map(%s) after mutating a previously returned map differs / shares memory' % ref.g_to_str(g, p)))
            # string description accepted as generator
            M2 = lib.pc.clifford_rotation_map(('-' if p == 2 else '') + ref.g_to_str(g))
            if (np.asarray(M2.gs) != ref_g).any() or (np.asarray(M2.ps) % 4 != ref_p % 4).any():
                viol.append(V('C03/rotmap/string-generator', [N, gi], 'clifford_rotation_map from string differs'))
    return {'n': n, 'nt': nt, 'viol': viol}


def fn_states(items):
    """item = [N, idx]: transform_by of a state by a spread of maps: rho -> U^dag rho U for the
    reconstructed U (same U as for operators), result valid."""
    n = nt = 0
    viol = []
    for N, idx in items:
        gs0, ps0, r0 = stab.tableaux(N)[idx]
        rho0 = stab.rho_of(gs0, ps0, r0)
        maps = dom.valid_maps(N)
        step = 1 if N == 1 else 523
        for k in range(idx % step, len(maps), step):
            t, s = maps[k]
            U = _U(N, k)
            st = lib.ST(gs0, ps0, r0)
            st.transform_by(lib.CM(t, s))
            n += 1
            nt += 1
            bad = stab.state_check(st, N)
            if bad:
                viol.append(V('C03/state/invalid', [N, idx], 'transform_by(map#%d) gives invalid state: %s' % (k, bad)))
            elif int(st.r) != r0 or ref.rho_key(stab.rho_of(st.gs, st.ps, st.r)) != ref.rho_key(U.conj().T @ rho0 @ U):
                viol.append(V('C03/state/denotation', [N, idx], 'transform_by(map#%d) on %s is not U^dag rho U' % (k, stab.describe(gs0, ps0, r0))))
    return {'n': n, 'nt': nt, 'viol': viol}


def fn_maps_n3(items):
    """item = [root, depth, cap]: N=3 maps reached by BFS (library compose with the generator maps H,S per wire and
    all CNOTs) from the generator #root composed onto identity, to the given depth / cap: each map must be valid,
    its action on the whole 256-string group (phase 0 and a rotating second phase) must equal the reference
    homomorphism, and compose must agree with the reference composition."""
    from .c04 import gens, ref_compose
    n = nt = 0
    viol = []
    keys = set()
    N = 3
    G = ref.all_g(N)
    for root, depth, cap in items:
        gen = gens(N)
        Gm = [lib.CM(t, s) for nm, t, s in gen]
        cur = [lib.pc.identity_map(N).compose(Gm[root])]
        seen = {(np.asarray(cur[0].gs).tobytes(), (np.asarray(cur[0].ps) % 4).tobytes())}
        for d in range(depth):
            nxt = []
            for A in cur:
                ag, ap = np.asarray(A.gs).astype(np.int64), np.asarray(A.ps).astype(np.int64) % 4
                for gi, X in enumerate(Gm):
                    C = A.compose(X)
                    n += 1
                    eg, ep = ref_compose(ag, ap, gen[gi][1], gen[gi][2])
                    cg, cp = np.asarray(C.gs).astype(np.int64), np.asarray(C.ps).astype(np.int64) % 4
                    if (cg != eg).any() or (cp != ep).any():
                        viol.append(V('C03/N3/compose', [root, depth, cap], 'N=3 compose differs from the reference at depth %d' % d))
                        continue
                    k = (cg.tobytes(), cp.tobytes())
                    if k in seen:
                        continue
                    seen.add(k)
                    if not ref.is_valid_map(cg, cp):
                        viol.append(V('C03/N3/invalid-map', [root, depth, cap], 'BFS reached an invalid N=3 map'))
                        continue
                    ph = (len(seen) % 3) + 1
                    Ps = np.concatenate([np.zeros(len(G), dtype=np.int64), np.full(len(G), ph)])
                    Gs = np.concatenate([G, G])
                    lst = lib.PL(Gs, Ps)
                    lst.transform_by(C)
                    rg, rp = ref.map_apply(cg, cp, Gs, Ps)
                    n += len(Gs)
                    nt += len(Gs)
                    if (np.asarray(lst.gs) != rg).any() or (np.asarray(lst.ps) % 4 != rp).any():
                        viol.append(V('C03/N3/transform', [root, depth, cap], 'N=3 map: image of the group differs from the reference homomorphism'))
                    # inverse of the N=3 map: valid, two-sided identity by the reference
                    try:
                        Ci = C.inverse()
                        ig, ip = np.asarray(Ci.gs).astype(np.int64), np.asarray(Ci.ps).astype(np.int64) % 4
                        I6 = np.eye(2 * N, dtype=np.int64)
                        g1, p1 = ref.map_apply(ig, ip, cg, cp)
                        g2, p2 = ref.map_apply(cg, cp, ig, ip)
                        n += 1
                        if not ref.is_valid_map(ig, ip) or (g1 != I6).any() or (g2 != I6).any() or p1.any() or p2.any():
                            viol.append(V('C03/N3/inverse', [root, depth, cap], 'N=3 map: inverse() is not the two-sided inverse (rows %s)' % [ref.g_to_str(g_, p_) for g_, p_ in zip(cg, cp)]))
                    except Exception as e:
                        viol.append(V('C03/N3/inverse/raises-%s' % type(e).__name__, [root, depth, cap], 'inverse of an N=3 map raised %s' % e))
                    nxt.append(C)
                    if len(seen) >= cap:
                        break
                if len(seen) >= cap:
                    break
            cur = nxt
            if len(seen) >= cap:
                break
        keys |= {hash(k) for k in seen}
    return {'n': n, 'nt': nt, 'viol': viol, 'keys': keys}


_UC = {}


def _U(N, k):
    if (N, k) not in _UC:
        t, s = dom.valid_maps(N)[k]
        _UC[(N, k)] = ref.unitary_of_map(t, s, N)
    return _UC[(N, k)]


def fn_single_masked(items):
    """item = [pkg, N, nn, mi, lo, hi]: maps #lo..hi-1 (step 1 for nn=1; the caller strides nn=2) of nn qubits through
    the mi-th mask of N qubits applied to SINGLE operand objects - every Pauli of the group (all 4 phases), and for
    pyclifford every PauliMonomial - by transform_by(map, mask); also the unmasked call with the embedded map.
    Reference: the embedded map's homomorphism; the coefficient of a monomial is untouched."""
    n_ = nt = 0
    viol = []
    for pkg, N, nn, mi, lo, hi in items:
        qs = list(itertools.combinations(range(N), nn))[mi]
        mb = np.zeros(N, dtype=bool)
        mb[list(qs)] = True
        maps = dom.valid_maps(nn)
        Gs, Ps = group_arrays(N)
        py = pkg == 'py'
        for k in range(lo, min(hi, len(maps))):
            t, s_ = maps[k]
            T, S = embed_map(t, s_, list(qs), N)
            eg, ep = ref.map_apply(T, S, Gs, Ps)
            kinds = ['Pauli', 'PauliMonomial'] if py else ['Pauli']
            for kind in kinds:
                for j in range(len(Gs)):
                    try:
                        if py:
                            M = lib.CM(t, s_)
                            o = lib.P(Gs[j], Ps[j]) if kind == 'Pauli' else lib.MONO(Gs[j], Ps[j], 1 + 2j)
                            o.transform_by(M, mask=mb.copy())
                            og, op = np.array(o.g).astype(np.int64), int(o.p) % 4
                        else:
                            m = lib.torch_mods()
                            M = lib.tCM(t, s_)
                            o = lib.tP(Gs[j], Ps[j])
                            o.transform_by(M, mask=m['torch'].tensor(mb.copy()))
                            og, op = lib.t2n(o.g).reshape(-1), int(lib.t2n(o.p)) % 4
                    except Exception as e:
                        viol.append(V('C03/single-masked/%s/%s/raises-%s' % (pkg, kind, type(e).__name__), [pkg, N, nn, mi, k, k + 1], '%s.transform_by(map, mask=%s) raised %s' % (kind, list(qs), e)))
                        break
                    n_ += 1
                    nt += 1
                    if (og != eg[j]).any() or op != ep[j]:
                        viol.append(V('C03/single-masked/%s/%s/%s' % (pkg, kind, 'string' if (og != eg[j]).any() else 'phase'), [pkg, N, nn, mi, k, k + 1],
                                      '%s %s: single %s %s .transform_by(map %s signs %s, mask=%s) -> %s, reference %s' % (pkg, 'N=%d' % N, kind, ref.g_to_str(Gs[j], Ps[j]),
                                          np.asarray(t).tolist(), np.asarray(s_).tolist(), list(qs), ref.g_to_str(og, op), ref.g_to_str(eg[j], ep[j]))))
                        break
                    if kind == 'PauliMonomial' and complex(o.c) != 1 + 2j:
                        viol.append(V('C03/single-masked/%s/PauliMonomial/coefficient' % pkg, [pkg, N, nn, mi, k, k + 1], 'coefficient changed to %r' % (o.c,)))
                        break
    return {'n': n_, 'nt': nt, 'viol': viol}


def legs(tier):
    out = []
    dom.valid_maps(1)
    dom.valid_maps(2)
    out.append(Leg('maps_N1', fn_maps, [[1, i, 'py'] for i in range(6)], chunk=1, src_states=24, bound='all 24 maps x 16 operators; all pairs; unitary reconstruction'))
    out.append(Leg('maps_N2', fn_maps, [[2, i, 'py'] for i in range(720)], chunk=6, src_states=11520,
                   bound='all 11520 maps x 64 operators; multiplicativity on all 16x16 pairs per map; unitary reconstruction for every map'))
    mitems = []
    for N in (2, 3):
        for mi in range(N):
            mitems.append([N, 1, mi, 0, 24, 'py'])
    blk = 480 if tier == 'quick' else 240
    n2 = range(0, 11520, blk)
    for mi in range(3):
        for lo in n2:
            hi = lo + (blk if tier != 'quick' else 32)
            mitems.append([3, 2, mi, lo, hi, 'py'])
    out.append(Leg('masks', fn_masks, mitems, chunk=1,
                   bound='all 24 one-qubit maps at every position of N=2,3; two-qubit maps on the 3 masks of N=3: %s; each also through identity_map(N).embed' % (
                       'all 11520' if tier != 'quick' else '768 spread over the group (32 of every 480)')))
    hs = 97 if tier == 'quick' else 7
    out.append(Leg('map_histories', fn_map_histories, [[pkg, 1, 0, 24] for pkg in ('py', 'torch')] + [[pkg, 2, lo, lo + 1] for pkg in ('py', 'torch') for lo in range(0, 11520, hs)], chunk=8,
                   bound='both packages: use -> evolve in place (transform_by a map / itself / masked, rotate_by, embed) -> use again on ONE map object: all 24 N=1 maps, every %dth N=2 map' % hs))
    out.append(Leg('gate_regenerate', fn_gate_regenerate, [[pkg, nq, gi] for pkg in ('py', 'torch') for nq in (1, 2) for gi in range(1, 4 ** nq)], chunk=2,
                   bound='both packages: rotation gate compiled, generator replaced (all first generators of 1-2 qubits x all / every third second generator, both sign pairs), compiled again (also on a copy of the compiled gate): forward, forward_map, backward'))
    out.append(Leg('embed_sequences', fn_embed_seq, [[pkg, N] for pkg in ('py', 'torch') for N in (2, 3, 4)], chunk=1,
                   bound='both packages, N=2,3,4: every ordered choice of 2 or 3 pairwise disjoint masks of 1-2 qubits (holes included) embedded one after another into one identity map'))
    out.append(Leg('rotation_maps', fn_rotmap, [[N, gi] for N in (1, 2, 3) for gi in range(4 ** N)], chunk=4,
                   bound='all Hermitian generators N<=3: clifford_rotation_map vs rotate_by vs U^dag P U on the whole group'))
    if tier != 'quick':
        out.append(Leg('maps_N3_bfs', fn_maps_n3, [[r_, 6, 20000] for r_ in range(12)], chunk=1, exhaustive=False, supplementary=True,
                       bound='N=3: BFS closure under the library compose from each of the 12 generators, depth 6 / 20000 maps per root: validity, compose vs reference, action on all 256 strings (2 phases)'))
    else:
        out.append(Leg('maps_N3_bfs', fn_maps_n3, [[r_, 3, 400] for r_ in range(12)], chunk=1, exhaustive=False, supplementary=True,
                       bound='N=3: BFS from each of the 12 generators, depth 3 / 400 maps per root'))
    for N in (1, 2):
        stab.tableaux(N)
        stab.valid_keyset(N)
    out.append(Leg('states', fn_states, [[1, i] for i in range(48)] + [[2, i] for i in range(0, 34560, 1 if tier != 'quick' else 4)], chunk=64,
                   bound='tableaux N<=2 (%s) x 23 maps spread over the group (rotating with the tableau index)' % ('all' if tier != 'quick' else 'every 4th')))
    out.append(Leg('torch_maps', fn_maps, [[1, i, 'torch'] for i in range(6)] + [[2, i, 'torch'] for i in range(0, 720, 1 if tier != 'quick' else 3)], chunk=4,
                   bound='torchclifford: N=1 all tables, N=2 %s tables x 4 sign patterns' % ('all 720' if tier != 'quick' else '240')))
    tm = [[N, 1, mi, 0, 24, 'torch'] for N in (2, 3, 4) for mi in range(N)]
    tm += [[3, 2, mi, lo, lo + 24, 'torch'] for mi in range(3) for lo in (0, 5000, 9000)]
    tm += [[4, 2, mi, 1234 + 500 * mi, 1234 + 500 * mi + 6, 'torch'] for mi in range(6)]
    from .c02 import fn_layouts_torch
    out.append(Leg('torch_layouts', fn_layouts_torch, [[N, gi] for N in (2, 3) for gi in range(2, 4 ** N, 3 if N == 2 else 13)], chunk=1,
                   bound='torchclifford: transform_by / rotate_by, unmasked and through every 1- and 2-qubit mask, on step-sliced, transposed and column-window operand tensors'))
    out.append(Leg('torch_masks', fn_masks, tm, chunk=1,
                   bound='torchclifford: masked transform_by: all 24 one-qubit maps at every position of N=2,3,4; 72 two-qubit maps on each of the 3 masks of N=3; 6 on each of the 6 two-qubit masks of N=4'))
    sm = []
    for pkg in ('py', 'torch'):
        for N in (2, 3):
            for nn in (1, 2):
                if nn > N:
                    continue
                nm = len(list(itertools.combinations(range(N), nn)))
                for mi in range(nm):
                    if nn == 1:
                        sm += [[pkg, N, 1, mi, lo, lo + 6] for lo in range(0, 24, 6)] if pkg == 'py' else [[pkg, N, 1, mi, lo, lo + 3] for lo in range(0, 24, 6)]
                    else:
                        stride = 251 if pkg == 'py' else 1151
                        sm += [[pkg, N, 2, mi, lo, lo + 1] for lo in range(mi * 7, 11520, stride)]
    out.append(Leg('single_operands_masked', fn_single_masked, sm, chunk=2, exhaustive=False, supplementary=True,
                   bound='both packages, N=2,3, every mask of 1 and 2 qubits (the N=2 all-True mask and the N=3 mask with a hole included): one-qubit maps (py: all 24, torch: 12) and a stride of the 11520 two-qubit maps applied by transform_by(map, mask) to every SINGLE Pauli (4 phases) and, in pyclifford, PauliMonomial of the group'))
    return out
