"""C09 A circuit acts as the ordered product of its gates.

State-machine view: a circuit under construction is a state (its layer chain), take() is the
transition.  ALL gate programs up to a length bound over a 17-letter alphabet (N=3; 12 letters at
N=2) are built with the real classes in every configuration (CliffordCircuit / Circuit x
uncompiled / every layer compiled / circuit compiled / copy / copy of compiled / composed from
every split point / composed then compiled), the structural invariant of the layer chain is
evaluated after every take(), and each configuration is run forward on ONE PauliList holding
the complete Pauli group with all four phases and on signed stabilizer states of every rank.
Oracles: (1) gate.forward of fresh gates applied one at a time in insertion order (bit-exact),
(2) independently the reference automorphism product (pcverif.circ: dense-matrix tables of the
named gates, the rotation rule U^dag P U = i P G, embedded map tables).  Locality: tableau
columns outside a gate's declared qubits stay bit-identical."""
import itertools
from .. import circ, dom
from ..core import Leg

PROP = 'C09'
SUB7 = (0, 7, 8, 11, 13, 14, 15)     # N=3 sub-alphabet of the length-3 (quick) and length-5 (thorough) legs
RULE = ('all gate programs of length <= k over the fixed alphabet (H, S, CNOT both orientations incl. non-adjacent, '
        'generator gates on 1/2/3 qubits incl. a negative generator, clifford_rotation_gate from a full-width generator '
        'with an identity gap, forward-map gate on the non-contiguous qubits (0,2), backward-map-only gates) x every '
        'configuration x {whole Pauli group as one list, 2 signed tableaux x every rank}; a case = one real '
        'forward/take/compile/copy/compose call compared with the oracle; non-trivial = program of >= 2 gates in which '
        'the order matters (reference product differs from the reversed product) or a gate slides to an earlier layer; '
        'states = distinct reference automorphisms realised by the explored programs')
ASSUMPTIONS = ['bounded program length and N<=4 (layer packing only depends on qubit overlap; all overlap patterns of 1-, 2- and 3-qubit gates on 3 wires and two 2-qubit gates sharing a layer on 4 wires occur)',
               'generic (map / generator) gates only on ascending qubit tuples (the mask is order-blind by design); map-less random gates excluded',
               'Circuit (the class with measurements) has no copy()/compose(): those configurations exist for CliffordCircuit only',
               'compose() followed by use of a stale compiled map is documented as unsupported ("need compilation after composition") and not demanded',
               'reference permutations validated against dense matrices / two independent formulas (conventions())',
               'torch leg: uncompiled gates/layers/circuits with smaller bounds; N=3 input list = all 64 strings with phases cycling over all four values']


def conventions():
    return circ.selfcheck()


def fn_programs(items):
    return circ.run_programs('C09', 'py', items)


def fn_gates(items):
    return circ.run_gates('C09', 'py', items)


def fn_layers(items):
    return circ.run_layers('C09', 'py', items)


def fn_torch_programs(items):
    return circ.run_programs('C09', 'torch', items)


def fn_torch_gates(items):
    return circ.run_gates('C09', 'torch', items)


def fn_torch_layers(items):
    return circ.run_layers('C09', 'torch', items)


def legs(tier, for_replay=False):
    quick = tier == 'quick'
    if not for_replay:
        dom.valid_maps(2)
        circ.warmup('py')
    k3, k2 = (2, 4) if quick else (4, 4)
    p3 = circ.programs('py', 3, k3)
    p2 = circ.programs('py', 2, k2)
    out = [
        Leg('programs_N3', fn_programs, p3, chunk=8 if quick else 48, src_states=len(p3), timeout=3000,
            bound='N=3: all %d programs of length <= %d over 17 letters x every configuration (9 + 2(L+1) per program) x (256-element group list + 6 states)' % (len(p3), k3)),
        Leg('programs_N2', fn_programs, p2, chunk=24 if quick else 48, src_states=len(p2), timeout=3000,
            bound='N=2: all %d programs of length <= %d over 12 letters x all configurations x (64-element group list + 5 states)' % (len(p2), k2)),
    ]
    if not quick:
        p5 = [[3, list(p)] for p in itertools.product(SUB7, repeat=5)]
        out.append(Leg('programs_N3_len5', fn_programs, p5, chunk=48, src_states=len(p5), timeout=3000,
                       bound='N=3: all %d programs of length exactly 5 over the 7-letter sub-alphabet %s (H0, CNOT(2,1), CNOT(0,2), '
                             'gen(0,1) -XZ, clifford_rotation_gate(XIY), fmap(0,2), bmap(1,2))' % (len(p5), SUB7)))
    if quick:
        p3s = [[3, list(p)] for p in itertools.product(SUB7, repeat=3)]
        out.append(Leg('programs_N3_len3', fn_programs, p3s, chunk=8, src_states=len(p3s),
                       bound='N=3: all %d programs of length exactly 3 over the 7-letter sub-alphabet %s (H0, CNOT(2,1), CNOT(0,2), gen(0,1) -XZ, '
                             'clifford_rotation_gate(XIY), fmap(0,2), bmap(1,2)); the thorough tier covers length <= 4 over all 17 letters' % (len(p3s), SUB7)))
    if quick:
        p4s = sorted({tuple(p) for sub in ((11, 1, 8, 10), (11, 0, 15, 10)) for p in itertools.product(sub, repeat=4)})
        p4s = [[3, list(p)] for p in p4s]
        out.append(Leg('programs_N3_len4', fn_programs, p4s, chunk=8, src_states=len(p4s),
                       bound='N=3: all %d programs of length exactly 4 over the two 4-letter sub-alphabets (gen(0,1), H1, CNOT(0,2), gen(2)) and '
                             '(gen(0,1), H0, bmap(1,2), gen(2)): a gate sinks into a non-first layer next to another gate and a later gate overlaps only the sunk one' % len(p4s)))
    p4 = circ.programs('py', 4, 2 if quick else 3)
    out.append(Leg('programs_N4', fn_programs, p4, chunk=4 if quick else 16, src_states=len(p4), timeout=3000,
                   bound='N=4: all %d programs of length <= %d over 10 letters (two 2-qubit gates on interleaved wires (0,2),(1,3) can share a layer; '
                         '4-qubit global generator) x all configurations x (1024-element group list + 7 states)' % (len(p4), 2 if quick else 3)))
    gs = [it for N in (1, 2, 3) for it in circ.gate_specs('py', N, tier)]
    out.append(Leg('gates', fn_gates, gs, chunk=16 if quick else 64, timeout=3000,
                   bound='N<=3: named gates and C(k) on every wire, generator gates (all strings, both signs) and map gates '
                         '(all 24 one-qubit maps; two-qubit maps stride %d of 11520) on every ascending tuple, forward-only / '
                         'backward-only / both; bare, compiled, copied, in a layer, in one-gate circuits' % (97 if quick else 1)))
    ls = circ.disjoint_tuples('py', 3, 3) + circ.disjoint_tuples('py', 2, 2)
    out.append(Leg('layers', fn_layers, ls, chunk=8, bound='every ordered tuple of pairwise disjoint base letters (N=2,3) as one CliffordLayer: direct / take-built / compiled / copied'))
    if not for_replay:
        circ.warmup('torch')
    t3 = circ.programs('torch', 3, 2 if quick else 3)
    t2 = circ.programs('torch', 2, 2 if quick else 3)
    if quick:   # three-gate programs (the shortest in which layer packing can go wrong) over 4 of the 8 letters
        t2 = t2 + [[2, list(p)] for p in itertools.product((0, 1, 2, 5), repeat=3)]
    # four-gate programs: the shortest in which a gate sinks into a NON-first layer next to another gate and a later gate
    # overlaps only the sunk one (N=2: XZ(0,1), Y(1), H(0), bmap(0); N=3: XZ(0,1), X(2), H(0), bmap(1,2))
    if quick:     # all orders of the four letters and everything that starts with the two-qubit gate (82 programs per N); thorough: all 256
        t4 = [[N_, list(p)] for N_, sub in ((2, (0, 1, 2, 7)), (3, (0, 1, 4, 7))) for p in sorted(set(itertools.permutations(sub)) | {(1,) + q for q in itertools.product(sub, repeat=3)})]
    else:
        t4 = [[2, list(p)] for p in itertools.product((0, 1, 2, 7), repeat=4)] + [[3, list(p)] for p in itertools.product((0, 1, 4, 7), repeat=4)]
    if not quick:
        t4 += [[3, list(p)] for p in itertools.product((1, 3, 4, 5, 7), repeat=4)]
    out.append(Leg('torch_programs_len4', fn_torch_programs, t4, chunk=2, timeout=3000,
                   bound='torchclifford: 4-gate programs over the 4-letter sub-alphabets (0,1,2,7) at N=2 and (0,1,4,7) at N=3: %s (one two-qubit gate, '
                         'single-qubit gates on different wires, a backward-map gate)%s' % ('per N the 82 programs that are a permutation of the four letters or start with the two-qubit gate' if quick else 'all 256 per N', '' if quick else '; N=3 also over the 5 letters (1,3,4,5,7)')))
    out.append(Leg('torch_programs', fn_torch_programs, t2 + t3, chunk=2, timeout=3000,
                   bound='torchclifford: all programs of length <= %d over 8 (N=2) / 9 (N=3) letters; uncompiled / copy / composed; '
                         'compile-based configurations attempted and reported when they raise' % (2 if quick else 3)))
    tg = [it for N in (2, 3) for it in circ.gate_specs('torch', N, tier)]
    out.append(Leg('torch_gates', fn_torch_gates, tg, chunk=2, timeout=3000,
                   bound='torchclifford: generator / map gates on ascending tuples (reduced strides), clifford_rotation_gate'))
    tl = circ.disjoint_tuples('torch', 3, 2)
    out.append(Leg('torch_layers', fn_torch_layers, tl, chunk=2, bound='torchclifford: ordered tuples (<=2) of disjoint base letters as one CliffordLayer'))
    return out
