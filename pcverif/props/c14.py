"""C14 Mid-circuit measurement and post-selection follow the quantum trajectory.

All programs up to a length bound over a gate/measurement alphabet in `Circuit`, from one
tableau per density matrix (all ranks), under EVERY coin string; compared (i) with step by
step direct measurement on the real code, (ii) with the dense-matrix trajectory, (iii) with the
layer-order invariant; post-selection on all pure tableaux; backward with every record."""
import itertools
import math
import numpy as np
from .. import ref, dom, lib, rng, stab
from ..core import Leg, V

PROP = 'C14'
RULE = ('(program, input state, coin string) triples: all programs of length<=3 (thorough 4) over a 9-letter alphabet with 4 measurement letters on N=2 '
        '(plus an N=3 family), one input per density matrix, the complete coin tree; non-trivial = the program contains a measurement that is not the last '
        'step or consumes a coin; postselect: all pure tableaux x signed observables x outcomes; backward: every recorded and every alternative record')
ASSUMPTIONS = ['MT19937 bits fair; post-selection / backward only on pure states (the method refuses mixed ones)',
               'bounded program length and N<=3']

# alphabet: name -> ('gate', ctor, qubits, unitary factory) | ('meas', qubits)
ALPHA2 = ['H0', 'S0', 'H1', 'CNOT01', 'X1', 'M0', 'M1', 'M01', 'M10']
ALPHA3 = ['H0', 'CNOT02', 'CNOT12', 'S2', 'M02', 'M1', 'M20']


def letter(name, N, conv=int):
    """conv: type the qubit indices are handed to the library in (int, numpy.int64)."""
    pc = lib.pc
    if name[0] == 'M':
        return ('meas', tuple(conv(int(c)) for c in name[1:]))
    if name.startswith('CNOT'):
        c, t = int(name[4]), int(name[5])
        return ('gate', lambda: pc.CNOT(conv(c), conv(t)), (c, t), ref.u_cnot(c, t, N))
    q = int(name[1])
    U1 = {'H': ref.U_H, 'S': ref.U_S, 'X': ref.U_X}[name[0]]
    ctor = {'H': pc.H, 'S': pc.S, 'X': pc.X}[name[0]]
    return ('gate', lambda: ctor(conv(q)), (q,), ref.embed_1q(U1, q, N))


def zq(q, N):
    g = np.zeros(2 * N, dtype=np.int64)
    g[2 * q + 1] = 1
    return g


def build(prog, N, compiled):
    """Build the Circuit; returns (circ, step_objects) and checks the layer-order invariant."""
    circ = lib.pc.Circuit(N)
    objs = []
    early = compiled == 2
    for name in prog:
        L = letter(name, N, np.int64 if compiled == 4 else int)     # configuration 4: numpy.int64 qubit indices everywhere
        if L[0] == 'meas':
            if early and objs:
                # configuration 2: compile() while the circuit is still measurement-free, then go on building
                # (the compiled maps of the unitary prefix must not be used once a measurement follows)
                circ.compile()
            early = False
            circ.measure(*L[1])
            objs.append(('meas', circ.last_layer))
        else:
            g = L[1]()
            circ.take(g)
            objs.append(('gate', g))
        if compiled == 3:
            # configuration 3: compile() after EVERY step (compile -> extend -> compile at every split point): a gate
            # that merges into an already compiled layer must be part of the next compile
            circ.compile()
    if compiled == 1:
        circ.compile()
    return circ, objs


def structure_violation(circ, objs):
    layers = list(circ.layers_forward())
    pos = {}
    for li, layer in enumerate(layers):
        if isinstance(layer, lib.pci.MeasureLayer):
            pos[id(layer)] = li
        else:
            for g in layer.gates:
                pos[id(g)] = li
    # consistency of links
    back = list(circ.layers_backward())
    if [id(x) for x in back] != [id(x) for x in reversed(layers)]:
        return 'forward/backward layer links inconsistent'
    p = []
    for kind, o in objs:
        if id(o) not in pos:
            return 'a %s step is missing from the layer chain' % kind
        p.append(pos[id(o)])
    for i, (ki, oi) in enumerate(objs):
        for j in range(i + 1, len(objs)):
            kj, oj = objs[j]
            if ki == 'meas' and p[j] <= p[i]:
                return 'step %d (%s) added after measurement step %d sits in layer %d <= %d' % (j, kj, i, p[j], p[i])
            if kj == 'meas' and p[j] <= p[i]:
                return 'measurement step %d sits in layer %d <= layer %d of earlier step %d' % (j, p[j], p[i], i)
            if ki == 'gate' and kj == 'gate' and set(oi.qubits) & set(oj.qubits) and p[j] <= p[i]:
                return 'overlapping gates out of order'
    return ''


_TRAJ = {}


def ref_trajectory(prog, N, rho0, record):
    """Dense trajectory for a +-1 record.  Returns (prob, rho_final or None, nrandom, K).  Memoised."""
    k = (tuple(prog), N, ref.rho_key(rho0), tuple(record))
    got = _TRAJ.get(k)
    if got is None:
        got = _ref_trajectory(prog, N, rho0, record)
        if len(_TRAJ) < 300000:
            _TRAJ[k] = got
    return got


def _ref_trajectory(prog, N, rho0, record):
    d = 2 ** N
    rho_m = rho0
    K = np.eye(d, dtype=complex)
    prob = 1.0
    k = 0
    nrand = 0
    for name in prog:
        L = letter(name, N)
        if L[0] == 'gate':
            U = L[3]
            rho_m = U @ rho_m @ U.conj().T
            K = U @ K
        else:
            for q in L[1]:
                e = record[k]
                k += 1
                Pi = (np.eye(d) + e * ref.mat(zq(q, N), 0)) / 2
                un = Pi @ rho_m @ Pi
                pq = float(np.trace(un).real)
                K = Pi @ K
                if pq < 1e-12:
                    return 0.0, None, nrand, K
                if pq < 1 - 1e-9:
                    nrand += 1
                prob *= pq
                rho_m = un / pq
    return prob, rho_m, nrand, K


def n_meas(prog):
    return sum(len(name) - 1 for name in prog if name[0] == 'M')


def run_program(prog, N, gs0, ps0, r0, compiled, item, viol, counters):
    kind = 'pure' if r0 == 0 else 'mixed'
    cfg = {0: 'plain', 1: 'compiled', 2: 'compiled-before-measure', 3: 'compiled-after-every-step', 4: 'numpy-int64-indices'}[int(compiled)]
    rho0 = stab.rho_of(gs0, ps0, r0)
    nm = n_meas(prog)

    def run(coins):
        circ, objs = build(prog, N, compiled)
        st = lib.ST(gs0, ps0, r0)
        rng.script(coins, None)
        ret = circ.forward(st)
        c = rng.consumed()[0]
        return c, (circ, objs, st, ret)

    try:
        leaves = list(rng.explore(run))
    except Exception as e:
        viol.append(V('C14/forward/%s/raises-%s/%s' % (cfg, type(e).__name__, kind), item, 'program %s on %s raised %s: %s' % (prog, stab.describe(gs0, ps0, r0), type(e).__name__, e)))
        return 1
    runs = 0
    seen = {}
    for coins, (circ, objs, st, ret) in leaves:
        runs += 1
        desc = 'program %s (%s) coins=%s on %s' % (list(prog), cfg, list(coins), stab.describe(gs0, ps0, r0))
        sv = structure_violation(circ, objs)
        if sv:
            viol.append(V('C14/structure/%s' % cfg, item, '%s: %s' % (desc, sv)))
            break
        rec = list(circ.measure_result)
        if len(rec) != nm or any(x not in (1, -1) for x in rec):
            viol.append(V('C14/record/%s/format' % cfg, item, '%s: measure_result=%r (expected %d entries of +-1)' % (desc, rec, nm)))
            continue
        if ret is not st:
            viol.append(V('C14/forward/%s/return' % cfg, item, 'forward does not return the state object'))
        prob, rho_f, nrand, K = ref_trajectory(prog, N, rho0, rec)
        if rho_f is None:
            viol.append(V('C14/record/%s/impossible/%s' % (cfg, kind), item, '%s: recorded outcomes %s have probability 0' % (desc, rec)))
            continue
        if len(coins) != nrand:
            viol.append(V('C14/coins/%s/%s' % (cfg, kind), item, '%s: %d coins consumed, trajectory has %d undetermined outcomes' % (desc, len(coins), nrand)))
        if tuple(rec) in seen:
            viol.append(V('C14/record/%s/coin-not-fair' % cfg, item, '%s: same record %s as coins %s' % (desc, rec, seen[tuple(rec)])))
        seen[tuple(rec)] = list(coins)
        if abs(float(circ.log2prob) - math.log2(prob)) > 1e-9:
            viol.append(V('C14/log2prob/%s/%s' % (cfg, kind), item, '%s: log2prob=%r, trajectory log2 P=%r' % (desc, circ.log2prob, math.log2(prob))))
        bad = stab.state_check(st, N)
        if bad:
            viol.append(V('C14/state/%s/invalid/%s' % (cfg, kind), item, '%s: final state invalid: %s' % (desc, bad)))
            continue
        ev = np.linalg.eigvalsh(rho_f)
        want_r = int(round(math.log2(max(1, int((ev > 1e-9).sum())))))
        if int(st.r) != want_r:
            viol.append(V('C14/state/%s/rank/%s' % (cfg, kind), item, '%s: final r=%d, trajectory rank 2^%d; state %s' % (desc, int(st.r), want_r, stab.describe(st.gs, st.ps, int(st.r)))))
            continue
        if ref.rho_key(stab.rho_of(st.gs, st.ps, st.r)) != ref.rho_key(rho_f):
            viol.append(V('C14/state/%s/denotation/%s' % (cfg, kind), item, '%s: final state %s is not the trajectory state' % (desc, stab.describe(st.gs, st.ps, int(st.r)))))
            continue
        # (i) differential: step by step direct measurement under the same coins
        st2 = lib.ST(gs0, ps0, r0)
        rng.script(coins, None)
        rec2 = []
        lp2 = 0.0
        for name in prog:
            L = letter(name, N)
            if L[0] == 'gate':
                L[1]().forward(st2)
            else:
                out, lp = st2.measure(lib.PL([zq(q, N) for q in L[1]], [0] * len(L[1])))
                rec2 += [int((-1) ** int(o)) for o in out]
                lp2 += float(lp)
        runs += 1
        if rec2 != rec or abs(lp2 - float(circ.log2prob)) > 1e-9 or int(st2.r) != int(st.r) or \
           ref.rho_key(stab.rho_of(st2.gs, st2.ps, st2.r)) != ref.rho_key(rho_f):
            viol.append(V('C14/differential/%s/%s' % (cfg, kind), item, '%s: circuit gave record %s log2prob %r r=%d, direct measurement gave %s %r r=%d' % (
                desc, rec, circ.log2prob, int(st.r), rec2, lp2, int(st2.r))))
        # (d) backward: only for pure states
        if r0 == 0 and compiled != 1:
            runs += check_backward(prog, N, circ, st, rec, item, viol, desc)
        counters['leaves'] = counters.get('leaves', 0) + 1
    # completeness: every record with positive probability is produced by exactly one coin string
    if nm <= 6 and not viol:
        npos = 0
        for rec in itertools.product((1, -1), repeat=nm):
            pr, rf, _, _ = ref_trajectory(prog, N, rho0, rec)
            if rf is not None:
                npos += 1
                if tuple(rec) not in seen:
                    viol.append(V('C14/record/%s/unreachable/%s' % (cfg, kind), item, 'program %s on %s: record %s has probability %g but no coin string produces it' % (
                        list(prog), stab.describe(gs0, ps0, r0), list(rec), pr)))
    return runs


def check_backward(prog, N, circ, st, rec, item, viol, desc):
    """backward of the final state with the recorded result and with every other record."""
    runs = 0
    sigma = stab.rho_of(st.gs, st.ps, st.r)
    nm = len(rec)
    sn = (np.array(st.gs), np.array(st.ps), int(st.r))
    records = [None] + [list(r_) for r_ in itertools.product((1, -1), repeat=nm)] if nm <= 4 else [None, list(rec)]
    for supplied in records:
        use = rec if supplied is None else supplied
        # reference: K'^dag sigma K' with K' built from the supplied record (trajectory operator on rho0 side)
        _, _, _, K = ref_trajectory(prog, N, np.eye(2 ** N) / 2 ** N, use)
        # ref_trajectory stops early when the maximally mixed input has prob 0 for the record, which cannot
        # happen (every record has positive probability on the maximally mixed state unless K=0)
        un = K.conj().T @ sigma @ K
        tr = float(np.trace(un).real)
        # impossibility must be judged step by step in the backward order: the library raises as soon as
        # one post-selection has probability 0; overall K^dag sigma K = 0 iff some step has probability 0
        s2 = lib.ST(*sn)
        runs += 1
        try:
            if supplied is None:
                ret = circ.backward(s2)
            else:
                ret = circ.backward(s2, measure_result=list(supplied))
            raised = None
        except ValueError as e:
            raised = e
        except Exception as e:
            viol.append(V('C14/backward/raises-%s' % type(e).__name__, item, '%s: backward(record=%s) raised %s: %s' % (desc, supplied, type(e).__name__, e)))
            continue
        tag = 'recorded' if supplied is None else ('same-record' if list(supplied) == list(rec) else 'other-record')
        if tr < 1e-12:
            if raised is None:
                viol.append(V('C14/backward/%s/impossible-not-rejected' % tag, item, '%s: backward with record %s should be impossible (K^dag sigma K = 0) but returned %s' % (
                    desc, use, stab.describe(s2.gs, s2.ps, int(s2.r)))))
            continue
        if raised is not None:
            viol.append(V('C14/backward/%s/possible-rejected' % tag, item, '%s: backward with record %s raised ValueError(%s) although K^dag sigma K has trace %g' % (desc, use, raised, tr)))
            continue
        bad = stab.state_check(s2, N)
        if bad:
            viol.append(V('C14/backward/%s/invalid' % tag, item, '%s: backward state invalid: %s' % (desc, bad)))
        elif ref.rho_key(stab.rho_of(s2.gs, s2.ps, s2.r)) != ref.rho_key(un / tr):
            viol.append(V('C14/backward/%s/denotation' % tag, item, '%s: backward with record %s gives %s, not K^dag sigma K / Tr' % (desc, use, stab.describe(s2.gs, s2.ps, int(s2.r)))))
    # wrong record length must be refused
    if nm >= 1:
        s2 = lib.ST(*sn)
        try:
            circ.backward(s2, measure_result=[1] * (nm + 1))
            viol.append(V('C14/backward/wrong-length-accepted', item, '%s: record of length %d accepted for %d measurements' % (desc, nm + 1, nm)))
        except ValueError:
            pass
        except Exception as e:
            viol.append(V('C14/backward/wrong-length/raises-%s' % type(e).__name__, item, 'raised %s' % e))
    return runs


_PROGS = {}


def programs(N, maxlen):
    k = (N, maxlen)
    if k not in _PROGS:
        alpha = ALPHA2 if N == 2 else ALPHA3
        out = []
        for L in range(1, maxlen + 1):
            for p in itertools.product(alpha, repeat=L):
                if any(x[0] == 'M' for x in p):
                    out.append(p)
        _PROGS[k] = out
    return _PROGS[k]


def inputs(N):
    if N == 2:
        return stab.representatives(2, _seed())
    return None


def _seed():
    import os
    return int(os.environ.get('VERIF_SEED', '0') or 0)


_N3IN = []
BLK = 1080


def n3_inputs():
    if not _N3IN:
        pc = lib.pc
        sts = [pc.zero_state(3), pc.ghz_state(3), pc.maximally_mixed_state(3), pc.one_state(3),
               pc.stabilizer_state('XXI', '-ZZI'), pc.stabilizer_state('-YIY'), pc.stabilizer_state('ZXZ', 'XZI', '-IZX')]
        for s in sts:
            _N3IN.append((np.array(s.gs), np.array(s.ps), int(s.r)))
    return _N3IN


def fn_programs(items):
    """item = [N, maxlen, pi, compiled, allinputs]: the pi-th program; inputs = one tableau per density
    matrix (N=2) or the fixed N=3 set; allinputs=1 -> all 34560 tableaux (length-1 programs)."""
    n = nt = 0
    viol = []
    samples = []
    counters = {}
    for N, maxlen, pi, compiled, allin in items:
        prog = programs(N, maxlen)[pi]
        item = [N, maxlen, pi, compiled, allin]
        if N == 2:
            T = stab.tableaux(2)
            if allin == 0:
                idxs = inputs(2)
            elif allin < 0:          # a rotating subset of the representatives: every 7th, offset by program index
                reps = inputs(2)
                idxs = reps[(pi + _seed()) % 7::7]
            else:                    # block of all tableaux
                idxs = range((allin - 1) * BLK, min(allin * BLK, len(T)))
            ins = [T[i] for i in idxs]
        else:
            ins = n3_inputs()
        for gs0, ps0, r0 in ins:
            before = len(viol)
            runs = run_program(prog, N, gs0, ps0, r0, int(compiled), item, viol, counters)
            n += runs
            nt += 1
            if len(viol) - before > 3:
                break
        if not samples and pi % 53 == 11:
            samples.append({'N': N, 'program': list(prog), 'compiled': bool(compiled), 'inputs': len(ins)})
    return {'n': n, 'nt': nt, 'viol': viol, 'samples': samples, 'extra': counters}


def fn_postselect(items):
    """item = [N, idx]: pure tableau x all signed observables x both outcomes."""
    n = nt = 0
    viol = []
    for N, idx in items:
        gs0, ps0, r0 = stab.tableaux(N)[idx]
        item = [N, idx]
        if r0 != 0:
            st = lib.ST(gs0, ps0, r0)
            n += 1
            try:
                st.postselect(lib.P(zq(0, N), 0), 0)
                # the statement covers pure states only; a mixed state being accepted is not judged
            except ValueError:
                pass
            except Exception as e:
                viol.append(V('C14/postselect/mixed/raises-%s' % type(e).__name__, item, 'postselect on a mixed state raised %s' % e))
            continue
        rho0 = stab.rho_of(gs0, ps0, r0)
        d = 2 ** N
        for g, p in dom.hermitian_paulis(N):
            O = ref.mat(g, p)
            for res in (0, 1):
                Pi = (np.eye(d) + (-1) ** res * O) / 2
                un = Pi @ rho0 @ Pi
                w = float(np.trace(un).real)
                st = lib.ST(gs0, ps0, r0)
                try:
                    v = st.postselect(lib.P(g, p), res)
                except Exception as e:
                    viol.append(V('C14/postselect/raises-%s' % type(e).__name__, item, 'postselect(%s,%d) raised %s: %s' % (ref.g_to_str(g, p), res, type(e).__name__, e)))
                    continue
                n += 1
                nt += int(p == 2 or res == 1)
                cls = ('sign-' if p == 2 else 'sign+') + ('/identity' if not g.any() else '')
                desc = 'postselect(%s, %d) on %s' % (ref.g_to_str(g, p), res, stab.describe(gs0, ps0, r0))
                if abs(float(v) - w) > 1e-9:
                    viol.append(V('C14/postselect/probability/%s' % cls, item, '%s returned %r, Born probability %r' % (desc, v, w), v, w))
                    continue
                bad = stab.state_check(st, N)
                if bad:
                    viol.append(V('C14/postselect/invalid', item, '%s: state invalid: %s' % (desc, bad)))
                    continue
                want = rho0 if w < 1e-12 else un / w
                if int(st.r) != 0 or ref.rho_key(stab.rho_of(st.gs, st.ps, st.r)) != ref.rho_key(want):
                    viol.append(V('C14/postselect/state/%s/%s' % ('impossible' if w < 1e-12 else 'possible', cls), item, '%s: state afterwards %s is not %s' % (
                        desc, stab.describe(st.gs, st.ps, int(st.r)), 'the unchanged state' if w < 1e-12 else 'the projected state')))
    return {'n': n, 'nt': nt, 'viol': viol}


def fn_repeat(items):
    """item = [pi]: a second forward() on the same circuit object appends to measure_result and adds to
    log2prob (documented accumulation): the suffix must be the record of the second run."""
    n = 0
    viol = []
    for (pi,) in items:
        prog = programs(2, 2)[pi]
        N = 2
        reps = stab.representatives(2, 0)
        pure = [i for i in reps if stab.tableaux(2)[i][2] == 0]
        for idx in sorted(set(reps[::9]) | set(pure[::5])):
            gs0, ps0, r0 = stab.tableaux(2)[idx]
            circ, objs = build(prog, N, False)
            st = lib.ST(gs0, ps0, r0)
            rng.script((1, 0, 1, 0, 1, 0), None)
            circ.forward(st)
            rec1 = list(circ.measure_result)
            lp1 = float(circ.log2prob)
            rho1 = stab.rho_of(st.gs, st.ps, st.r)
            rng.script((0, 1, 1, 0, 0, 1), None)
            circ.forward(st)
            n += 2
            rec = list(circ.measure_result)
            nm = n_meas(prog)
            if rec[:nm] != rec1 or len(rec) != 2 * nm:
                viol.append(V('C14/repeat/record', [pi], 'second forward did not append: %s then %s' % (rec1, rec)))
                continue
            pr, rf, _, _ = ref_trajectory(prog, N, rho1, rec[nm:])
            if rf is None or abs((float(circ.log2prob) - lp1) - math.log2(pr)) > 1e-9 or ref.rho_key(stab.rho_of(st.gs, st.ps, st.r)) != ref.rho_key(rf):
                viol.append(V('C14/repeat/trajectory', [pi], 'second forward of %s: suffix record %s inconsistent with the trajectory' % (list(prog), rec[nm:])))
                continue
            # backward after two runs: the default record is the one of the LATEST run (the state it produced is undone)
            if nm and r0 == 0:       # backward / post-selection: pure states only (as in leg programs_*)
                n += check_backward(prog, N, circ, st, rec[nm:], [pi], viol, 'N=2 program %s, second forward() on the same circuit object (first run recorded %s, second %s) from %s' % (
                    list(prog), rec1, rec[nm:], stab.describe(gs0, ps0, r0)))
    return {'n': n, 'nt': n, 'viol': viol}


def legs(tier):
    out = []
    for N in (1, 2):
        stab.tableaux(N)
        stab.valid_keyset(N)
    stab.representatives(2, _seed())
    full_len = 2 if tier == 'quick' else 3
    sub_len = 3 if tier == 'quick' else 4
    Pf = programs(2, full_len)
    Ps = programs(2, sub_len)
    items = [[2, full_len, pi, 0, 0] for pi in range(len(Pf))]
    items += [[2, sub_len, pi, 0, -1] for pi in range(len(Ps)) if len(Ps[pi]) == sub_len]
    out.append(Leg('programs_N2', fn_programs, items, chunk=2, src_states=91,
                   bound='all %d programs of length<=%d containing a measurement over %s x 91 inputs (one per density matrix, all ranks); all %d programs of length %d x 13 inputs '
                         '(every 7th density matrix, rotating with the program index); complete coin tree; backward with all records on pure inputs' % (
                             len(Pf), full_len, ALPHA2, len([p for p in Ps if len(p) == sub_len]), sub_len), timeout=6000))
    citems = [[2, full_len, pi, 1, 0] for pi in range(len(Pf))] + [[2, full_len, pi, 2, 0] for pi in range(len(Pf)) if Pf[pi][0][0] != 'M'] + [[2, sub_len, pi, 2, -1] for pi in range(len(Ps)) if len(Ps[pi]) == sub_len and Ps[pi][0][0] != 'M'] + [[2, sub_len, pi, 1, -1] for pi in range(len(Ps)) if len(Ps[pi]) == sub_len and tier != 'quick']
    out.append(Leg('programs_N2_compiled', fn_programs, citems, chunk=2, src_states=91, bound='the same programs with Circuit.compile() after construction, and with compile() called on the measurement-free prefix before the first measurement is appended (length<=%d on 91 inputs%s)' % (
        full_len, '' if tier == 'quick' else ', length %d on 13 inputs' % sub_len), timeout=6000))
    eitems = [[2, full_len, pi, 3, 0] for pi in range(len(Pf)) if len(Pf[pi]) >= 2] + [[2, sub_len, pi, 3, -1] for pi in range(len(Ps)) if len(Ps[pi]) == sub_len]
    P3e = programs(3, 3)
    eitems += [[3, 3, pi, 3, 0] for pi in range(len(P3e)) if len(P3e[pi]) >= 2]
    out.append(Leg('programs_compile_every_step', fn_programs, eitems, chunk=2, src_states=91, exhaustive=False, supplementary=True,
                   bound='Circuit.compile() called after EVERY take()/measure() (compile -> extend -> compile at every split point, gates merging into already compiled layers before and after measurement layers): '
                         'N=2 all programs of length 2..%d with a measurement on 91 inputs, all of length %d on 13 rotating inputs; N=3 family all programs of length 2..3 on 7 inputs; complete coin tree, backward on pure inputs' % (full_len, sub_len), timeout=6000))
    nitems = [[2, 2, pi, 4, 0] for pi in range(len(programs(2, 2)))]
    out.append(Leg('programs_numpy_indices', fn_programs, nitems, chunk=2, src_states=91, exhaustive=False, supplementary=True,
                   bound='N=2: all programs of length <= 2 with a measurement on 91 inputs, every qubit index (gate constructors, Circuit.measure) handed over as numpy.int64; complete coin tree, backward on pure inputs'))
    l1 = programs(2, 1)
    nblk = (34560 + BLK - 1) // BLK
    out.append(Leg('length1_all_tableaux', fn_programs, [[2, 1, pi, 0, b] for pi in range(len(l1)) for b in range(1, nblk + 1)], chunk=1, src_states=34560,
                   bound='the %d single-measurement programs on ALL 34560 tableaux x coin tree' % len(l1)))
    n3len = 2 if tier == 'quick' else 3
    P3n = programs(3, n3len)
    out.append(Leg('programs_N3', fn_programs, [[3, n3len, pi, 0, 0] for pi in range(len(P3n))], chunk=2, exhaustive=False, supplementary=True,
                   bound='N=3 family %s, all %d programs of length<=%d with a measurement on 7 fixed inputs (all ranks, signed)' % (ALPHA3, len(P3n), n3len)))
    out.append(Leg('postselect', fn_postselect, [[1, i] for i in range(48)] + [[2, i] for i in range(34560)], chunk=200, src_states=34608,
                   bound='all pure tableaux N<=2 (11520+24) x all signed observables incl. +-I x both outcomes; mixed tableaux: refusal only'))
    out.append(Leg('repeat_forward', fn_repeat, [[pi] for pi in range(len(programs(2, 2)))], chunk=4, bound='second forward() on the same circuit object with different coins: accumulation semantics, then backward() of the state of the second run with the default record and with every explicit record'))
    return out
