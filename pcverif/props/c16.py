"""C16 Random Cliffords are valid and uniformly distributed.

Decided EXACTLY, not statistically.  Every sampler is a deterministic function of the coins
it draws; the coin scheduler (pcverif.rng) owns numba's and numpy's Mersenne-Twister, so the
explorer below enumerates EVERY coin string the real code consumes (stateless depth-first
search, branching on each position actually consumed, in BOTH streams) and counts leaves.
A leaf that consumed n coins has weight 2^-n; inside one coin-length class all leaves have the
same weight, so "uniform" means "every group element is hit by equally many leaves of the
class".  Rejection loops (`while (g1==0).all()`) make the tree infinite: the number of coins
beyond the shortest run is bounded (max_extra) and the unexplored residual mass is reported;
the explorer asserts that leaf mass + truncated mass == mass of the root exactly (a run that
consumes coins the script does not cover, or fewer than were forced, is a harness error and
raises - it is never turned into a verdict).

Measurement coins (the other random bits of the library) are decided fair by C06 (legs N*_L*:
`coin-not-fair`, `outcome-unreachable`); nothing is repeated here."""
import itertools
import os
import collections
import numpy as np
from .. import ref, dom, lib, rng, stab
from ..core import Leg, V

PROP = 'C16'
RULE = ('one case = one complete coin string (numba coins of the pair sampler + numpy coins of the sign bits, or the '
        'scripted torch.randint stream) on which the real sampler is executed; the coin tree of every sampler is '
        'enumerated completely up to a bound on rejection rounds (extra coins), distributions are decided by counting '
        'leaves per coin-length class; every leaf is non-trivial (a different random draw); states = distinct sampled '
        'maps / tableaux')
ASSUMPTIONS = ['the MT19937 output bits are fair and independent (numpy / numba, not PyClifford): a coin string of length n has weight 2^-n',
               'rejection rounds are bounded (extra coins beyond the shortest run); the unexplored residual probability mass is reported per leg',
               'uniformity is decided exactly on N=1 (24 maps), N=2 (11520 maps) and, thorough, the symplectic part of N=3 (1451520 tables)',
               'fairness of measurement coins is decided by C06 and only cross-referenced here']

SCALE_BITS = 400
FILL = 1


class Harness(Exception):
    """The harness lost control of the coins (never a property verdict): reported as HARNESS-ERROR, exit 2."""


# ------------------------------------------------------------------ two-stream coin explorer
def explore2(run, stats, rootA=(), rootB=(), max_a=None, max_leaves=30000000):
    """Stateless DFS over every pair of coin strings (stream A, stream B) the code consumes.

    run(a, b) -> (na, nb, result) executes the library with stream A forced to a + filler and
    stream B forced to b + filler and reports the coins consumed from each stream.
    Yields (a, b, result) for every leaf (a, b have exactly na / nb entries).
    Order of choice points: positions of A first; a deviation in B freezes every A coin consumed
    so far (later A positions are still branched).  Every leaf is reached exactly once.
    max_a bounds the coins of stream A; deeper subtrees are not expanded, their mass is recorded.
    On exhaustion the exact mass balance is checked (harness error otherwise)."""
    rootA = tuple(int(c) for c in rootA)
    rootB = tuple(int(c) for c in rootB)
    one = 1 << SCALE_BITS
    st = stats
    st.update(leaves=0, truncated=0, mass_leaves=0, mass_truncated=0, max_a=0, max_b=0, runs=0)
    na, nb, res = run(rootA, rootB)
    st['runs'] += 1
    if na < len(rootA) or nb < len(rootB):
        raise Harness('root run consumed (%d,%d) coins, fewer than the forced prefix (%d,%d)' % (na, nb, len(rootA), len(rootB)))
    root_mass = one >> (len(rootA) + len(rootB))
    if max_a is not None and na > max_a:
        st['truncated'] += 1
        st['mass_truncated'] += root_mass
        stack = []
    else:
        stack = [(rootA, rootB, na, nb, res)]
    while stack:
        pa, pb, na, nb, res = stack.pop()
        a = pa + (FILL,) * (na - len(pa))
        b = pb + (FILL,) * (nb - len(pb))
        st['leaves'] += 1
        st['mass_leaves'] += one >> (na + nb)
        st['max_a'] = max(st['max_a'], na)
        st['max_b'] = max(st['max_b'], nb)
        if st['leaves'] > max_leaves:
            raise Harness('coin tree larger than max_leaves=%d' % max_leaves)
        yield a, b, res
        children = [(a[:i] + (1 - FILL,), pb) for i in range(len(pa), na)]
        children += [(a, b[:j] + (1 - FILL,)) for j in range(len(pb), nb)]
        for ca, cb in children:
            n2a, n2b, r2 = run(ca, cb)
            st['runs'] += 1
            if n2a < len(ca) or n2b < len(cb):
                raise Harness('run consumed (%d,%d) coins, fewer than the forced prefix (%d,%d)' % (n2a, n2b, len(ca), len(cb)))
            if max_a is not None and n2a > max_a:
                st['truncated'] += 1
                st['mass_truncated'] += one >> (len(ca) + len(cb))
                continue
            stack.append((ca, cb, n2a, n2b, r2))
    if st['mass_leaves'] + st['mass_truncated'] != root_mass:
        raise Harness('leaf mass + truncated mass != root mass (coin tree not a partition)')


def _residual(st, rootA=(), rootB=()):
    """Unexplored fraction of the (sub)tree as a float."""
    root = (1 << SCALE_BITS) >> (len(rootA) + len(rootB))
    return st['mass_truncated'] / root


def _numba_consumed():
    return rng.H.rnd_get_state(rng._ptr)[0]


def run_numba(f):
    """run function for code that draws from the numba stream only (numpy stream is scripted once
    by the caller and must stay untouched: checked by _numpy_untouched)."""
    def run(a, b):
        rng.script(a, None)
        res = f()
        return _numba_consumed(), 0, res
    return run


def run_both(f):
    def run(a, b):
        rng.script(a, b)
        res = f()
        ca, cb = rng.consumed()
        return ca, cb, res
    return run


def _numpy_guard_begin():
    rng.script((), ())


def _numpy_guard_end(what):
    if rng.consumed()[1] != 0:
        raise Harness('%s drew python-level numpy coins although only the numba stream was scripted' % what)


def sign_coins_of_default_run(body):
    """python-level (numpy) coins the body draws on the all-filler run."""
    rng.script((), ())
    body()
    return rng.consumed()[1]


def bits(k, n):
    return tuple((k >> (n - 1 - i)) & 1 for i in range(n))


# ------------------------------------------------------------------ reference sets
def tkey(gs):
    a = np.asarray(gs)
    if a.dtype.kind not in 'iu':
        r = np.rint(a)
        if not np.all(a == r):
            return ('non-integer', a.shape)
        a = r
    if a.size and (a.min() < 0 or a.max() > 255):
        return ('out-of-range', a.shape)
    return (a.shape, a.astype(np.uint8).tobytes())


def skey(ps):
    a = np.asarray(ps)
    if a.dtype.kind not in 'iu':
        r = np.rint(a)
        if not np.all(a == r):
            return ('non-integer',)
        a = r
    return tuple(int(x) % 4 for x in a.astype(np.int64))


_SETS = {}


def clifford_tables(N):
    """keys of all symplectic tables (independent enumerator), N<=2."""
    k = ('cl', N)
    if k not in _SETS:
        _SETS[k] = frozenset(tkey(t) for t in dom.symplectic_tables(N))
        assert len(_SETS[k]) == dom.SP_ORDER[N]
    return _SETS[k]


def product_tables(N):
    """keys of all products of single-qubit symplectic tables (6^N)."""
    k = ('pr', N)
    if k not in _SETS:
        out = set()
        for combo in itertools.product(dom.symplectic_tables(1), repeat=N):
            g = np.zeros((2 * N, 2 * N), dtype=np.int64)
            for i, t in enumerate(combo):
                g[2 * i:2 * i + 2, 2 * i:2 * i + 2] = t
            out.add(tkey(g))
        assert len(out) == 6 ** N
        _SETS[k] = frozenset(out)
    return _SETS[k]


def sign_keys(n):
    return frozenset(tuple(int(x) for x in s) for s in dom.sign_patterns(n))


def table_class(gs):
    """N=2: 'product' (block diagonal), 'swap-product' (block anti-diagonal: SWAP times a product,
    not entangling either) or 'entangling'."""
    g = np.asarray(gs)
    if not g[0:2, 2:4].any() and not g[2:4, 0:2].any():
        return 'product'
    if not g[0:2, 0:2].any() and not g[2:4, 2:4].any():
        return 'swap-product'
    return 'entangling'


def _uniform_report(by_class, expected):
    """by_class: {class: Counter(key->leaves)}.  Returns (ok, description list)."""
    ok = True
    desc = []
    for cls in sorted(by_class, key=lambda c: c if isinstance(c, tuple) else (c,)):
        cnt = by_class[cls]
        keys = set(cnt)
        missing = len(expected - keys)
        outside = len(keys - expected)
        vals = sorted(set(cnt[k] for k in keys & expected))
        good = (missing == 0 and outside == 0 and len(vals) == 1)
        ok &= good
        desc.append({'coins': cls, 'leaves': int(sum(cnt.values())), 'distinct': len(keys), 'expected_distinct': len(expected),
                     'never_drawn': missing, 'outside_expected_set': outside,
                     'leaves_per_element_min_max': [vals[0], vals[-1]] if vals else None})
    return ok, desc


# ------------------------------------------------------------------ leg: random_pair
def fn_pairs(items):
    """item = [N, max_extra]: every coin string of random_pair(N): (g1,g2) is an anticommuting pair
    with g1 != 0 and every such pair is drawn by equally many leaves of each coin-length class."""
    n = nt = 0
    viol = []
    extra = {}
    samples = []
    for item in items:
        N, max_extra = item
        G = ref.all_g(N)
        A = ref.anti_mat(G)
        expected = frozenset((i, j) for i in range(1, len(G)) for j in range(len(G)) if A[i, j])
        _numpy_guard_begin()
        st = {}
        by = collections.defaultdict(collections.Counter)
        bad = None
        for a, b, res in explore2(run_numba(lambda: lib.pu.random_pair(N)), st, max_a=4 * N + max_extra):
            g1, g2 = res
            n += 1
            nt += 1
            k = (int(ref.gindex(g1)), int(ref.gindex(g2)))
            by[len(a)][k] += 1
            if k not in expected and bad is None:
                bad = (list(a), ref.g_to_str(g1), ref.g_to_str(g2))
        _numpy_guard_end('random_pair')
        if bad is not None:
            viol.append(V('C16/pair/random_pair/not-anticommuting', item,
                          'random_pair(%d) under coins %s returned (%s,%s): not an anticommuting pair with g1 != I' % (N, bad[0], bad[1], bad[2])))
        ok, desc = _uniform_report(by, expected)
        if not ok and bad is None:
            viol.append(V('C16/pair/random_pair/not-uniform', item,
                          'random_pair(%d): anticommuting pairs are not drawn equally often within a coin-length class' % N, desc,
                          'each of the %d pairs equally often' % len(expected)))
        extra['pair_N%d_leaves' % N] = st['leaves']
        extra['pair_N%d_truncated_subtrees' % N] = st['truncated']
        if not samples:
            samples.append({'random_pair': N, 'classes': desc, 'residual_mass': _residual(st)})
    return {'n': n, 'nt': nt, 'viol': viol, 'extra': extra, 'samples': samples}


# ------------------------------------------------------------------ leg: uniformity of the map samplers
def _sampler(kind):
    return {'clifford': lib.pst.random_clifford_map, 'pauli': lib.pst.random_pauli_map}[kind]


def _expected_tables(kind, N):
    return clifford_tables(N) if kind == 'clifford' else product_tables(N)


def _base_coins(kind, N):
    """shortest run (no rejection): numba coins."""
    if kind == 'clifford':
        return sum(4 * k for k in range(1, N + 1))
    return 4 * N


def _map_result(m):
    return (tkey(m.gs), skey(m.ps))


def fn_uniform(items):
    """item = [kind, N, mode, arg, max_extra]
    mode 'joint'    : whole two-stream coin tree; every (table, signs) map of the expected group is drawn by
                      equally many leaves of each coin-length class; every leaf is a valid map.
    mode 'signfixed': numpy (sign) coins forced to the bit string `arg`; whole numba tree: every table equally
                      often per class, and the sign vector is the same on every leaf (independent of the table).
    mode 'signbij'  : numba coins fixed to a few strings; whole numpy tree: 2^(2N) leaves, the table is constant
                      and the sign vectors are a bijection onto {0,2}^(2N) (fair, independent sign bits).
    'signfixed' for all 2^(2N) strings + 'signbij' = exact uniformity over the full group (signs depend on the
    numpy coins only and are a bijection of them)."""
    n = nt = 0
    viol = []
    extra = {}
    keys = set()
    samples = []
    for item in items:
        kind, N, mode, arg, max_extra = item
        f = _sampler(kind)
        name = 'random_%s_map' % kind
        tabs = _expected_tables(kind, N)
        sgn = sign_keys(2 * N)
        valid_tabs = clifford_tables(N)
        base = _base_coins(kind, N)
        st = {}
        invalid = None
        if mode == 'signbij':
            rows = []
            for astr in arg:
                leaves = list(explore2(run_both(lambda: _map_result(f(N))), st, rootA=tuple(astr)))
                n += len(leaves)
                nt += len(leaves)
                tset = set(r[0] for a, b, r in leaves)
                sset = [r[1] for a, b, r in leaves]
                okb = (len(leaves) == 4 ** N and set(sset) == set(sgn) and len(tset) == 1
                       and all(len(b) == 2 * N for a, b, r in leaves))
                rows.append({'numba_coins': list(astr), 'numpy_leaves': len(leaves), 'numpy_coins': sorted(set(len(b) for a, b, r in leaves)),
                             'distinct_sign_vectors': len(set(sset)), 'tables': len(tset)})
                if not okb:
                    viol.append(V('C16/signs/%s/N%d/not-a-fair-bijection' % (name, N), item,
                                  '%s(%d): with the pair coins fixed, the %d sign-coin strings do not give every Hermitian sign pattern exactly once '
                                  '(or the table depends on the sign coins)' % (name, N, len(leaves)), rows[-1],
                                  {'numpy_leaves': 4 ** N, 'distinct_sign_vectors': 4 ** N, 'tables': 1}))
                    break
            if not samples:
                samples.append({name: N, 'mode': mode, 'rows': rows[:2]})
            continue
        by = collections.defaultdict(collections.Counter)
        if mode == 'joint':
            expected = frozenset((t, s) for t in tabs for s in sgn)
            for a, b, res in explore2(run_both(lambda: _map_result(f(N))), st, max_a=base + max_extra):
                n += 1
                nt += 1
                by[(len(a), len(b))][res] += 1
                keys.add(hash(res))
                if invalid is None and (res[0] not in valid_tabs or res[1] not in sgn):
                    invalid = (list(a), list(b), res)
            what = 'maps'
        elif mode == 'signfixed':
            rootB = bits(arg, 2 * N)
            expected = tabs
            rng.script((), rootB)
            f(N)
            nb0 = rng.consumed()[1]
            if nb0 < 2 * N:
                viol.append(V('C16/signs/%s/N%d/fewer-sign-coins-than-sign-bits' % (name, N), item,
                              '%s(%d) draws %d python-level coins for %d sign bits: the sign pattern cannot be uniform' % (name, N, nb0, 2 * N), nb0, 2 * N))
                continue
            signs_seen = set()
            for a, b, res in explore2(run_both(lambda: _map_result(f(N))), st, rootB=rootB, max_a=base + max_extra):
                if len(b) != 2 * N:
                    raise Harness('%s(%d) consumed %d numpy coins on one leaf; the decomposition by sign string does not apply' % (name, N, len(b)))
                n += 1
                nt += 1
                by[len(a)][res[0]] += 1
                signs_seen.add(res[1])
                keys.add(hash(res))
                if invalid is None and (res[0] not in valid_tabs or res[1] not in sgn):
                    invalid = (list(a), list(b), res)
            what = 'tables'
            if len(signs_seen) != 1:
                viol.append(V('C16/signs/%s/N%d/signs-depend-on-table-coins' % (name, N), item,
                              '%s(%d): with sign coins %s fixed, %d different sign vectors occur over the pair-coin tree' % (name, N, list(rootB), len(signs_seen)),
                              sorted(signs_seen)[:4], 'one sign vector'))
        else:
            raise Harness('unknown mode %r' % (mode,))
        if invalid is not None:
            viol.append(V('C16/valid/%s/N%d/invalid-map' % (name, N), item,
                          '%s(%d) under numba coins %s, numpy coins %s returns an invalid map (table not symplectic or phase not Hermitian): signs=%s' % (
                              name, N, invalid[0], invalid[1], list(invalid[2][1])), None, 'CCR + phases in {0,2}'))
        ok, desc = _uniform_report(by, expected)
        if not ok and invalid is None:
            outside = any(d['outside_expected_set'] for d in desc)
            if kind == 'pauli' and outside:
                sig = 'C16/pauli_map/%s/N%d/not-a-product-of-1q-cliffords' % (name, N)
                msg = '%s(%d) returns maps that are not products of single-qubit Cliffords' % (name, N)
            else:
                sig = 'C16/uniform/%s/N%d/not-uniform' % (name, N)
                msg = '%s(%d): the %d %s of the group are not drawn equally often within a coin-length class' % (name, N, len(expected), what)
            viol.append(V(sig, item, msg, desc, 'every element of the group by equally many leaves of each class'))
        if kind == 'clifford' and N == 2 and mode == 'signfixed':
            # "in particular they entangle": exact count of non-product tables per class
            for cls, cnt in by.items():
                per = collections.Counter()
                for k, c in cnt.items():
                    if k in valid_tabs:
                        per[table_class(np.frombuffer(k[1], dtype=np.uint8).reshape(k[0]))] += c
                tot = sum(per.values())
                want = {'product': 36, 'swap-product': 36, 'entangling': 648}
                if tot and any(per.get(c, 0) * 720 != want[c] * tot for c in want):
                    viol.append(V('C16/entangle/%s/N2/wrong-entangling-fraction' % name, item,
                                  '%s(2): %d-coin class has product/swap-product/entangling leaves %s, expected ratio 36:36:648' % (
                                      name, cls, dict(per)), dict(per), want))
                    break
                for c, v in per.items():
                    extra['N2_%s_leaves' % c] = extra.get('N2_%s_leaves' % c, 0) + v
        extra['%s_N%d_leaves' % (name, N)] = extra.get('%s_N%d_leaves' % (name, N), 0) + st['leaves']
        extra['%s_N%d_truncated_subtrees' % (name, N)] = extra.get('%s_N%d_truncated_subtrees' % (name, N), 0) + st['truncated']
        if len(samples) < 2:
            samples.append({name: N, 'mode': mode, 'arg': arg, 'classes': desc,
                            'residual_mass': _residual(st, rootB=bits(arg, 2 * N) if mode == 'signfixed' else ())})
    return {'n': n, 'nt': nt, 'viol': viol, 'extra': extra, 'keys': keys, 'samples': samples}


# ------------------------------------------------------------------ leg: N=3 symplectic part (thorough)
def fn_n3(items):
    """item = [g1 coins (6), max_extra]: the subtree of random_clifford(3) below a first draw g1.
    Every leaf is a symplectic 6x6 table; within each coin-length class every table of the subtree is drawn
    equally often and there are exactly |Sp(6,2)|/63 = 23040 of them.  All tables of the subtree have row 0
    (image of X0) equal to g1, so the 63 subtrees are pairwise disjoint and 63*23040 = |Sp(6,2)|: together
    the items decide exact uniformity over all 1451520 tables."""
    n = nt = 0
    viol = []
    extra = {}
    samples = []
    N = 3
    want_pair = np.zeros((6, 6), dtype=np.int64)
    for k in range(3):
        want_pair[2 * k, 2 * k + 1] = want_pair[2 * k + 1, 2 * k] = 1
    for item in items:
        g1c, max_extra = item
        g1c = tuple(g1c)
        st = {}
        _numpy_guard_begin()
        by = collections.defaultdict(collections.Counter)
        for a, b, res in explore2(run_numba(lambda: lib.pu.random_clifford(N).astype(np.uint8).tobytes()), st, rootA=g1c, max_a=24 + max_extra):
            by[len(a)][res] += 1
        _numpy_guard_end('random_clifford')
        n += st['leaves']
        nt += st['leaves']
        extra['N3_leaves'] = extra.get('N3_leaves', 0) + st['leaves']
        extra['N3_truncated_subtrees'] = extra.get('N3_truncated_subtrees', 0) + st['truncated']
        if not any(g1c):
            # first draw rejected: beyond the bound unless max_extra >= 6
            if st['leaves'] == 0:
                continue
        allkeys = set()
        for cnt in by.values():
            allkeys |= set(cnt)
        # validity of every distinct table (CCR), vectorised through the reference anticommutator
        badtab = None
        row0 = set()
        for kbytes in allkeys:
            g = np.frombuffer(kbytes, dtype=np.uint8).reshape(6, 6).astype(np.int64)
            if g.max() > 1 or not (ref.anti_mat(g) == want_pair).all():
                badtab = g
                break
            row0.add(tuple(int(x) for x in g[0]))
        if badtab is not None:
            viol.append(V('C16/valid/random_clifford/N3/not-symplectic', item,
                          'random_clifford(3) below first draw %s returns a table violating the CCR' % (list(g1c),), badtab.tolist()))
            continue
        desc = []
        ok = True
        nexp = dom.SP_ORDER[3] // 63
        for cls in sorted(by):
            cnt = by[cls]
            vals = sorted(set(cnt.values()))
            good = any(g1c) and len(cnt) == nexp and len(vals) == 1
            if not any(g1c):
                good = len(cnt) == dom.SP_ORDER[3] and len(vals) == 1
            ok &= good
            desc.append({'coins': cls, 'leaves': int(sum(cnt.values())), 'distinct_tables': len(cnt), 'leaves_per_table_min_max': [vals[0], vals[-1]]})
        if not ok:
            viol.append(V('C16/uniform/random_clifford/N3/not-uniform', item,
                          'random_clifford(3) below first draw %s: tables not drawn equally often, or not exactly %d distinct tables' % (list(g1c), nexp),
                          desc, '%d distinct tables, equally often in each class' % nexp))
            continue
        if any(g1c) and row0 != {g1c}:
            raise Harness('decomposition assumption broken: tables below first draw %s do not all have row 0 = g1 '
                               '(the per-subtree uniformity results cannot be combined)' % (list(g1c),))
        extra['N3_distinct_tables'] = extra.get('N3_distinct_tables', 0) + len(allkeys)
        if not samples:
            samples.append({'random_clifford': 3, 'first_draw': list(g1c), 'classes': desc, 'residual_mass_of_subtree': _residual(st, rootA=g1c)})
    return {'n': n, 'nt': nt, 'viol': viol, 'extra': extra, 'samples': samples}


# ------------------------------------------------------------------ leg: random states
def fn_states(items):
    """item = [kind, N, r, bidx, max_extra]: random_{clifford,pauli}_state(N, r) (r=-1: default argument) with the
    sign coins forced to bit string bidx over the whole pair-coin tree; kind 'bit': random_bit_state(N) over all
    coin strings.  Every leaf must be a valid tableau (C05 invariant)."""
    n = nt = 0
    viol = []
    keys = set()
    extra = {}
    for item in items:
        kind, N, r, bidx, max_extra = item
        st = {}
        if kind == 'bit':
            name = 'random_bit_state'
            _numpy_guard_begin()
            it = explore2(run_numba(lambda: lib.pst.random_bit_state(N)), st)
            rootB = ()
        else:
            name = 'random_%s_state' % kind
            ctor = getattr(lib.pst, name)
            rootB = bits(bidx, 2 * N)
            body = (lambda: ctor(N)) if r < 0 else (lambda: ctor(N, r))
            nb0 = sign_coins_of_default_run(body)
            if nb0 < 2 * N:
                viol.append(V('C16/signs/%s/fewer-sign-coins-than-sign-bits' % name, item,
                              '%s(%d) draws %d python-level coins for %d sign bits: the sign pattern cannot be uniform' % (name, N, nb0, 2 * N), nb0, 2 * N))
                n += 1
                continue
            it = explore2(run_both(body), st, rootB=rootB, max_a=_base_coins(kind, N) + max_extra)
        first = None
        for a, b, state in it:
            n += 1
            nt += 1
            bad = stab.state_check(state, N)
            if bad and first is None:
                first = (list(a), list(b), bad)
            if not bad:
                keys.add(hash(stab.key_arrays(state.gs, state.ps, state.r)))
        if kind == 'bit':
            _numpy_guard_end(name)
            if st['leaves'] != 4 ** N:
                viol.append(V('C16/valid/random_bit_state/coin-count', item, 'random_bit_state(%d) has %d coin strings, expected %d' % (N, st['leaves'], 4 ** N)))
        if first is not None:
            viol.append(V('C16/valid/%s/invalid-state' % name, item,
                          '%s(N=%d, r=%s) under numba coins %s / numpy coins %s is not a valid tableau: %s' % (name, N, r, first[0], first[1], first[2])))
        extra[name + '_leaves'] = extra.get(name + '_leaves', 0) + st['leaves']
        extra[name + '_truncated_subtrees'] = extra.get(name + '_truncated_subtrees', 0) + st['truncated']
    return {'n': n, 'nt': nt, 'viol': viol, 'keys': keys, 'extra': extra}


# ------------------------------------------------------------------ leg: random circuits on zero_state
def _mk_circuit(name, N):
    pc = lib.pc
    if name == 'brickwall_rcc':
        return pc.brickwall_rcc(N, 1)
    if name == 'onsite_rcc':
        return pc.onsite_rcc(N)
    if name == 'global_rcc':
        return pc.global_rcc(N)
    raise Harness(name)


def fn_circuits(items):
    """item = [name, N, direction, prefixA, prefixB, max_extra]: circuit constructor applied (forward / backward) to
    zero_state(N) under every coin string below the numba prefix / numpy (sign coin) prefix; every leaf a valid
    pure tableau."""
    n = nt = 0
    viol = []
    keys = set()
    extra = {}
    for item in items:
        name, N, dirn, prefixA, prefixB, max_extra = item
        base = 4 * N if name == 'onsite_rcc' else _base_coins('clifford', N)

        def body():
            circ = _mk_circuit(name, N)
            s = lib.pc.zero_state(N)
            out = getattr(circ, dirn)(s)
            return out

        st = {}
        first = None
        nb0 = sign_coins_of_default_run(body)
        if nb0 < 2 * N:
            viol.append(V('C16/signs/circuit/%s/fewer-sign-coins-than-sign-bits' % name, item,
                          '%s(%d).%s draws %d python-level coins for %d sign bits of its gates: the sign patterns cannot be uniform' % (name, N, dirn, nb0, 2 * N), nb0, 2 * N))
            n += 1
            continue
        for a, b, state in explore2(run_both(body), st, rootA=tuple(prefixA), rootB=tuple(prefixB), max_a=base + max_extra):
            n += 1
            nt += 1
            bad = stab.state_check(state, N)
            if not bad and int(state.r) != 0:
                bad = 'rank changed to r=%r' % (state.r,)
            if bad and first is None:
                first = (list(a), list(b), bad)
            if not bad:
                keys.add(hash(stab.key_arrays(state.gs, state.ps, state.r)))
        if first is not None:
            viol.append(V('C16/circuit/%s/invalid-state' % name, item,
                          '%s(%d).%s(zero_state) under numba coins %s / numpy coins %s: %s' % (name, N, dirn, first[0], first[1], first[2])))
        k = '%s_N%d_%s' % (name, N, dirn)
        extra[k + '_leaves'] = extra.get(k + '_leaves', 0) + st['leaves']
        extra[k + '_truncated_subtrees'] = extra.get(k + '_truncated_subtrees', 0) + st['truncated']
    return {'n': n, 'nt': nt, 'viol': viol, 'keys': keys, 'extra': extra}


# ------------------------------------------------------------------ leg: resampling at every call
def fn_resample(items):
    """item = [N, direction, mode, arg, max_extra].  A map-less CliffordGate is applied twice to two fresh
    PauliLists [X_k, Z_k] (the result IS the drawn map).
    mode 'pairs' (N=1): the whole two-stream tree of both calls: each call consumes its own coin segment, each
        drawn map is the function of its own segment only (the same function random_clifford_map realises on those
        coins), and every ordered pair of maps is realised by equally many leaves of each class.
    mode 'second' (N=2): coins of the first call forced (no rejection, signs = first 2N numpy coins), sign coins of
        the second call forced to bit string `arg`, whole pair-coin tree of the second call: the first map is
        constant, the second runs through every table equally often and equals the function of its own segment."""
    n = nt = 0
    viol = []
    extra = {}
    samples = []
    for item in items:
        N, dirn, mode, arg, max_extra = item
        ident = np.eye(2 * N, dtype=np.int64)
        tabs = clifford_tables(N)
        sgn = sign_keys(2 * N)
        base = _base_coins('clifford', N)
        segf = {}

        def seg_map(sa, sb):
            k = (sa, sb)
            if k not in segf:
                rng.script(sa, sb)
                m = lib.pst.random_clifford_map(N)
                ca, cb = rng.consumed()
                segf[k] = (_map_result(m), ca, cb)
            return segf[k]

        def body():
            gate = lib.pc.CliffordGate(*range(N))
            o1 = lib.PL(ident, np.zeros(2 * N, dtype=np.int64))
            o2 = lib.PL(ident, np.zeros(2 * N, dtype=np.int64))
            getattr(gate, dirn)(o1)
            c1 = rng.consumed()
            getattr(gate, dirn)(o2)
            return (c1, (tkey(o1.gs), skey(o1.ps)), (tkey(o2.gs), skey(o2.ps)))

        st = {}
        rng.script((), ())
        c1, m1, m2 = body()
        if rng.consumed() == c1:
            viol.append(V('C16/resample/%s/second-call-draws-no-coins' % dirn, item,
                          'CliffordGate(%s): the second %s() of the same map-less gate consumed no coin (the sampled map is not resampled): '
                          'drawn maps have signs %s / %s and equal tables: %s' % (','.join(map(str, range(N))), dirn, m1[1], m2[1], m1[0] == m2[0])))
            n += 1
            continue
        if c1[1] < 2 * N:
            viol.append(V('C16/signs/resample/%s/fewer-sign-coins-than-sign-bits' % dirn, item,
                          'CliffordGate.%s draws %d python-level coins for the %d sign bits of its map: the sign pattern cannot be uniform' % (dirn, c1[1], 2 * N), c1[1], 2 * N))
            n += 1
            continue
        if mode == 'pairs':
            rootA, rootB = (), ()
            max_a = 2 * base + max_extra
        else:
            rootA = (FILL,) * base
            rootB = (FILL,) * (2 * N) + bits(arg, 2 * N)
            max_a = 2 * base + max_extra
        by = collections.defaultdict(collections.Counter)
        firsts = set()
        problem = None
        for a, b, (c1, m1, m2) in explore2(run_both(body), st, rootA=rootA, rootB=rootB, max_a=max_a):
            n += 1
            nt += 1
            if problem is not None:
                continue
            if len(a) == c1[0] and len(b) == c1[1]:
                problem = ('second-call-draws-no-coins', 'second %s() of the same map-less gate consumed no coin (map not resampled): maps %s / %s' % (dirn, m1[1], m2[1]), list(a), list(b))
                continue
            s1 = seg_map(a[:c1[0]], b[:c1[1]])
            s2 = seg_map(a[c1[0]:], b[c1[1]:])
            if s1[1:] != (c1[0], c1[1]) or s2[1:] != (len(a) - c1[0], len(b) - c1[1]):
                problem = ('coin-segments', 'the two calls do not consume the coin segments random_clifford_map consumes on the same coins: '
                           'call1 %s vs %s, call2 %s vs %s' % (c1, s1[1:], (len(a) - c1[0], len(b) - c1[1]), s2[1:]), list(a), list(b))
                continue
            if m1 != s1[0] or m2 != s2[0]:
                problem = ('map-not-function-of-own-segment', 'a drawn map differs from the map random_clifford_map draws from the same coin segment '
                           '(call 1 ok: %s, call 2 ok: %s)' % (m1 == s1[0], m2 == s2[0]), list(a), list(b))
                continue
            firsts.add(m1)
            if mode == 'pairs':
                by[(len(a), len(b))][(m1, m2)] += 1
            else:
                by[len(a)][m2[0]] += 1
        if problem is not None:
            viol.append(V('C16/resample/%s/%s' % (dirn, problem[0]), item,
                          'CliffordGate(%s).%s twice, numba coins %s / numpy coins %s: %s' % (','.join(map(str, range(N))), dirn, problem[2], problem[3], problem[1])))
            continue
        if mode == 'pairs':
            maps = [(t, s) for t in tabs for s in sgn]
            expected = frozenset((x, y) for x in maps for y in maps)
        else:
            expected = tabs
            if len(firsts) != 1:
                viol.append(V('C16/resample/%s/first-map-depends-on-later-coins' % dirn, item, 'first drawn map varies with the coins of the second call'))
        ok, desc = _uniform_report(by, expected)
        if not ok:
            viol.append(V('C16/resample/%s/pairs-not-uniform' % dirn, item,
                          'two consecutive %s() calls do not realise every %s equally often' % (dirn, 'ordered pair of maps' if mode == 'pairs' else 'second map'),
                          desc, 'all %d equally often per class' % len(expected)))
        extra['resample_N%d_%s_leaves' % (N, dirn)] = extra.get('resample_N%d_%s_leaves' % (N, dirn), 0) + st['leaves']
        extra['resample_N%d_%s_truncated_subtrees' % (N, dirn)] = extra.get('resample_N%d_%s_truncated_subtrees' % (N, dirn), 0) + st['truncated']
        if not samples:
            samples.append({'gate': 'CliffordGate(%s)' % ','.join(map(str, range(N))), 'direction': dirn, 'mode': mode, 'classes': desc[:4],
                            'residual_mass': _residual(st, rootA, rootB)})
    return {'n': n, 'nt': nt, 'viol': viol, 'extra': extra, 'samples': samples}


# ------------------------------------------------------------------ torch leg (torch.randint seam)
class _TorchCoins(object):
    """Scripted replacement of torch.randint: pops coins of the script, then the filler."""
    def __init__(self, torch, coins):
        self.torch = torch
        self.coins = coins
        self.pos = 0

    def __call__(self, *args, **kw):
        if len(args) != 3 or args[0] != 0 or args[1] != 2 or set(kw) - {'device'}:
            raise Harness('unexpected torch.randint call %r %r' % (args, kw))
        size = tuple(int(s) for s in args[2])
        cnt = 1
        for s in size:
            cnt *= s
        c = self.coins
        vals = [c[i] if i < len(c) else FILL for i in range(self.pos, self.pos + cnt)]
        self.pos += cnt
        return self.torch.tensor(vals, dtype=self.torch.int64).reshape(size)


def run_torch(f):
    torch = lib.torch_mods()['torch']

    def run(a, b):
        src = _TorchCoins(torch, a)
        orig = torch.randint
        torch.randint = src
        try:
            res = f()
        finally:
            torch.randint = orig
        return src.pos, 0, res
    return run


def _t_table(x):
    return tkey(lib.t2n(x))


def _show(res):
    """human-readable form of a leaf result (table key / (table key, signs) / pair of arrays)."""
    def tab(k):
        if isinstance(k, tuple) and len(k) == 2 and isinstance(k[1], bytes):
            return np.frombuffer(k[1], dtype=np.uint8).reshape(k[0]).tolist()
        return repr(k)
    if isinstance(res, tuple) and len(res) == 2 and isinstance(res[0], tuple) and len(res[0]) == 2 and isinstance(res[0][1], bytes):
        return {'table': tab(res[0]), 'signs': list(res[1])}
    if isinstance(res, tuple) and len(res) == 2 and isinstance(res[1], bytes):
        return tab(res)
    if isinstance(res, tuple) and all(isinstance(x, np.ndarray) for x in res):
        return [x.tolist() for x in res]
    return repr(res)


def fn_torch(items):
    """item = [fn, N, max_extra, prefix].  torchclifford samplers under every scripted torch.randint stream below
    `prefix`.  random_pair: anticommuting pair, g1 != 0, all pairs equally often.  random_pauli: valid product table,
    all 6^N equally often.  random_clifford: valid symplectic table, all |Sp(2N,2)| equally often.
    random_clifford_map / random_pauli_map: valid map; N=1: all 24 maps equally often; N=2: conditional on the table
    every Hermitian sign pattern equally often (uniformity of the table part is decided on random_clifford /
    random_pauli, so that one root cause has one signature)."""
    m = lib.torch_mods()
    tu, tst = m['tu'], m['tst']
    n = nt = 0
    viol = []
    extra = {}
    samples = []
    for item in items:
        fn, N, max_extra, prefix = item
        st = {}
        by = collections.defaultdict(collections.Counter)
        invalid = None
        crash = None
        ismap = fn in ('random_clifford_map', 'random_pauli_map')
        if fn == 'random_pair':
            G = ref.all_g(N)
            A = ref.anti_mat(G)
            expected = frozenset((i, j) for i in range(1, len(G)) for j in range(len(G)) if A[i, j])
            body = lambda: tuple(lib.t2n(x) for x in tu.random_pair(N))
            base = 4 * N
        elif fn == 'random_pauli':
            expected = product_tables(N)
            body = lambda: _t_table(tu.random_pauli(N))
            base = 4 * N
        elif fn == 'random_clifford':
            expected = clifford_tables(N)
            body = lambda: _t_table(tu.random_clifford(N))
            base = _base_coins('clifford', N)
        elif ismap:
            kind = fn.split('_')[1]
            tabs = _expected_tables(kind, N)
            sgn = sign_keys(2 * N)
            expected = frozenset((t, s) for t in tabs for s in sgn)

            def body(f=getattr(tst, fn)):
                mp = f(N)
                return (_t_table(mp.gs), skey(lib.t2n(mp.ps)))
            base = _base_coins(kind, N) + 2 * N
        else:
            raise Harness(fn)
        valid_tabs = clifford_tables(N)
        sgn_all = sign_keys(2 * N)
        try:
            for a, b, res in explore2(run_torch(body), st, rootA=tuple(prefix), max_a=base + max_extra):
                n += 1
                nt += 1
                if fn == 'random_pair':
                    g1, g2 = res
                    if g1.shape != (2 * N,) or g2.shape != (2 * N,) or g1.dtype.kind != 'i' or g2.dtype.kind != 'i':
                        k = ('bad', repr(res))
                    else:
                        k = (int(ref.gindex(g1)), int(ref.gindex(g2)))
                    okv = k in expected
                elif not ismap:
                    k = res
                    okv = k in valid_tabs
                else:
                    k = res
                    okv = res[0] in valid_tabs and res[1] in sgn_all
                if not okv and invalid is None:
                    invalid = (list(a), res)
                by[len(a)][k] += 1
        except Harness:
            raise
        except Exception as e:
            crash = '%s: %s' % (type(e).__name__, e)
        if crash is not None:
            viol.append(V('C16/torch/%s/raises' % fn, item, 'torchclifford %s(%d) raised %s' % (fn, N, crash)))
            continue
        extra['torch_%s_N%d_leaves' % (fn, N)] = extra.get('torch_%s_N%d_leaves' % (fn, N), 0) + st['leaves']
        extra['torch_%s_N%d_truncated_subtrees' % (fn, N)] = extra.get('torch_%s_N%d_truncated_subtrees' % (fn, N), 0) + st['truncated']
        if invalid is not None:
            if fn in ('random_pauli', 'random_pauli_map') and N >= 2:
                sig = 'C16/torch/%s/invalid-zero-row' % fn
                msg = ('torchclifford %s(%d) under coins %s returns an invalid map (an all-zero / commuting X,Z image pair): random_pair(1, L=N) '
                       'rejects g1 only when ALL rows are zero' % (fn, N, invalid[0]))
            else:
                sig = 'C16/torch/%s/invalid' % fn
                msg = 'torchclifford %s(%d) under coins %s returns an invalid result' % (fn, N, invalid[0])
            viol.append(V(sig, item, msg, _show(invalid[1]), 'valid (CCR, Hermitian phases)'))
            continue
        if ismap and N >= 2:
            # conditional on the table: every sign pattern equally often
            okc = True
            descc = []
            for cls, cnt in sorted(by.items()):
                per = collections.defaultdict(collections.Counter)
                for (t, sg), c in cnt.items():
                    per[t][sg] += c
                for t, sc in per.items():
                    if set(sc) != set(sgn_all) or len(set(sc.values())) != 1:
                        okc = False
                        descc.append({'coins': cls, 'table': _show(t), 'sign_patterns_seen': len(sc), 'counts': sorted(set(sc.values()))})
                        break
            if not okc:
                viol.append(V('C16/torch/%s/signs-not-fair' % fn, item,
                              'torchclifford %s(%d): conditional on the table the Hermitian sign patterns are not drawn equally often' % (fn, N), descc[:3]))
            if len(samples) < 2:
                samples.append({'torch': fn, 'N': N, 'prefix': list(prefix), 'leaves': st['leaves'], 'residual_mass': _residual(st, rootA=tuple(prefix))})
            continue
        ok, desc = _uniform_report(by, expected)
        if not ok:
            prod_only = False
            if fn == 'random_clifford' and N == 2:
                seen = set()
                for cnt in by.values():
                    seen |= set(cnt)
                prod_only = all(table_class(np.frombuffer(k[1], dtype=np.uint8).reshape(k[0])) == 'product' for k in seen)
            if fn == 'random_clifford' and N >= 2 and prod_only:
                sig = 'C16/torch/random_clifford/not-uniform-product-only'
                msg = ('torchclifford random_clifford(%d) returns only product (non-entangling) tables: the undo rotations '
                       '`g = clifford_rotate_signless(g, gs)` discard their result' % N)
            else:
                sig = 'C16/torch/%s/not-uniform' % fn
                msg = 'torchclifford %s(%d): group elements are not drawn equally often within a coin-length class' % (fn, N)
            viol.append(V(sig, item, msg, desc, 'every element equally often per class'))
        if len(samples) < 2:
            samples.append({'torch': fn, 'N': N, 'classes': desc[:3], 'residual_mass': _residual(st, rootA=tuple(prefix))})
    return {'n': n, 'nt': nt, 'viol': viol, 'extra': extra, 'samples': samples}


def fn_n3_torch(items):
    """item = [first-pair coins (12), max_extra]: torchclifford random_clifford(3) below a first anticommuting pair
    (g1, g2) drawn by the scripted torch.randint.  Every leaf is a symplectic 6x6 table whose rows 0,1 are (g1, g2)
    (so the 63*32 subtrees are pairwise disjoint and 2016 * 720 = |Sp(6,2)|); within each coin-length class the
    subtree holds exactly 720 distinct tables, each drawn equally often."""
    tu = lib.torch_mods()['tu']
    n = nt = 0
    viol = []
    extra = {}
    samples = []
    N = 3
    want_pair = np.zeros((6, 6), dtype=np.int64)
    for k in range(3):
        want_pair[2 * k, 2 * k + 1] = want_pair[2 * k + 1, 2 * k] = 1
    for item in items:
        pc_, max_extra = item
        pc_ = tuple(pc_)
        st = {}
        by = collections.defaultdict(collections.Counter)
        crash = None
        try:
            for a, b, res in explore2(run_torch(lambda: lib.t2n(tu.random_clifford(N)).astype(np.uint8).tobytes()), st, rootA=pc_, max_a=24 + max_extra):
                by[len(a)][res] += 1
        except Harness:
            raise
        except Exception as e:
            crash = '%s: %s' % (type(e).__name__, e)
        if crash is not None:
            viol.append(V('C16/torch/random_clifford/N3/raises', item, 'torchclifford random_clifford(3) raised %s' % crash))
            continue
        n += st['leaves']
        nt += st['leaves']
        extra['torch_N3_leaves'] = extra.get('torch_N3_leaves', 0) + st['leaves']
        extra['torch_N3_truncated_subtrees'] = extra.get('torch_N3_truncated_subtrees', 0) + st['truncated']
        allkeys = set()
        for cnt in by.values():
            allkeys |= set(cnt)
        badtab = None
        heads = set()
        for kbytes in allkeys:
            g = np.frombuffer(kbytes, dtype=np.uint8).reshape(6, 6).astype(np.int64)
            if g.max() > 1 or not (ref.anti_mat(g) == want_pair).all():
                badtab = g
                break
            heads.add((tuple(int(x) for x in g[0]), tuple(int(x) for x in g[1])))
        if badtab is not None:
            viol.append(V('C16/torch/random_clifford/N3/invalid', item,
                          'torchclifford random_clifford(3) below the first pair %s returns a table violating the CCR' % (list(pc_),), badtab.tolist()))
            continue
        # (a) algorithm-independent bound: a uniform sampler gives every table total probability 1/|Sp(6,2)|, so the mass a
        #     table collects inside ONE subtree can never exceed that
        mass = collections.Counter()
        for cls, cnt in by.items():
            for kbytes, c in cnt.items():
                mass[kbytes] += c * 2.0 ** -cls
        top, topm = max(mass.items(), key=lambda kv: kv[1])
        extra['torch_N3_max_table_mass_x_order'] = max(extra.get('torch_N3_max_table_mass_x_order', 0), round(topm * dom.SP_ORDER[3], 4))
        if topm > (1 + 1e-9) / dom.SP_ORDER[3]:
            viol.append(V('C16/torch/random_clifford/N3/not-uniform', item,
                          'torchclifford random_clifford(3): the coin strings below the first draws %s alone give one table probability %.3g > 1/|Sp(6,2)| = %.3g (%d distinct tables in this subtree)' % (
                              list(pc_), topm, 1.0 / dom.SP_ORDER[3], len(mass)),
                          {'table': np.frombuffer(top, dtype=np.uint8).reshape(6, 6).tolist(), 'probability_at_least': topm}, 1.0 / dom.SP_ORDER[3]))
            continue
        # (b) sharper, for samplers in which the first pair becomes rows 0,1 (then the 2016 subtrees are disjoint)
        if heads != {(pc_[:6], pc_[6:12])}:
            extra['torch_N3_subtrees_without_row_structure'] = extra.get('torch_N3_subtrees_without_row_structure', 0) + 1
            continue
        nexp = dom.SP_ORDER[2]
        desc = []
        ok = True
        for cls in sorted(by):
            cnt = by[cls]
            vals = sorted(set(cnt.values()))
            ok &= (len(cnt) == nexp and len(vals) == 1)
            desc.append({'coins': cls, 'leaves': int(sum(cnt.values())), 'distinct_tables': len(cnt), 'leaves_per_table_min_max': [vals[0], vals[-1]]})
        if not ok:
            viol.append(V('C16/torch/random_clifford/N3/not-uniform', item,
                          'torchclifford random_clifford(3) below the first pair %s: tables not drawn equally often, or not exactly %d distinct tables' % (list(pc_), nexp),
                          desc, '%d distinct tables, equally often in each class' % nexp))
            continue
        if not samples:
            samples.append({'torch random_clifford': 3, 'first_pair': list(pc_), 'classes': desc, 'residual_mass_of_subtree': _residual(st, rootA=pc_)})
    return {'n': n, 'nt': nt, 'viol': viol, 'extra': extra, 'samples': samples}


def _t3_worker(args):
    """one 12-coin prefix of torch random_clifford(3): {(coins, table bytes): leaves}, leaves, truncated, first invalid table."""
    prefix, max_extra = args
    tu = lib.torch_mods()['tu']
    want_pair = np.zeros((6, 6), dtype=np.int64)
    for k in range(3):
        want_pair[2 * k, 2 * k + 1] = want_pair[2 * k + 1, 2 * k] = 1
    st = {}
    by = collections.Counter()
    for a, b, res in explore2(run_torch(lambda: lib.t2n(tu.random_clifford(3)).astype(np.uint8).tobytes()), st, rootA=tuple(prefix), max_a=24 + max_extra):
        by[(len(a), res)] += 1
    bad = None
    for (_, kb) in by:
        g = np.frombuffer(kb, dtype=np.uint8).reshape(6, 6).astype(np.int64)
        if g.max() > 1 or not (ref.anti_mat(g) == want_pair).all():
            bad = g.tolist()
            break
    return tuple(prefix), dict(by), st.get('leaves', 0), st.get('truncated', 0), bad


def fn_n3_torch_full(items):
    """item = [max_extra, nproc]: the WHOLE coin tree of torchclifford random_clifford(3) up to 24+max_extra coins, split
    over the 4096 twelve-coin prefixes and explored by nproc forked workers; the parent adds up, per table, the number of
    leaves in each coin-length class.  Decided: every leaf a valid table; all |Sp(6,2)| = 1451520 tables occur and, within
    each coin-length class, equally often; and - independent of how the sampler is organised - no table collects more
    than 1/|Sp(6,2)| of probability from the explored part of the tree."""
    import multiprocessing
    n = nt = 0
    viol = []
    extra = {}
    samples = []
    for item in items:
        max_extra, nproc = item
        prefixes = [(list(bits(k, 12)), max_extra) for k in range(4096)]
        classes = collections.defaultdict(collections.Counter)
        leaves = trunc = 0
        bad = None
        ctx = multiprocessing.get_context('fork')
        with ctx.Pool(int(os.environ.get('PCVERIF_NPROC', nproc) or nproc)) as pool:
            for prefix, by, lv, tr, b in pool.imap_unordered(_t3_worker, prefixes, chunksize=8):
                leaves += lv
                trunc += tr
                if b is not None and bad is None:
                    bad = (prefix, b)
                for (cls, kb), c in by.items():
                    classes[cls][kb] += c
        n += leaves
        nt += leaves
        extra['torch_N3_full_leaves'] = leaves
        extra['torch_N3_full_truncated_subtrees'] = trunc
        if bad is not None:
            viol.append(V('C16/torch/random_clifford/N3/invalid', item, 'torchclifford random_clifford(3) returns a table violating the CCR below the coins %s' % (list(bad[0]),), bad[1]))
            continue
        order = dom.SP_ORDER[3]
        mass = collections.Counter()
        desc = []
        ok = True
        for cls in sorted(classes):
            cnt = classes[cls]
            vals = (min(cnt.values()), max(cnt.values()))
            ok &= (len(cnt) == order and vals[0] == vals[1])
            desc.append({'coins': cls, 'leaves': int(sum(cnt.values())), 'distinct_tables': len(cnt), 'leaves_per_table_min_max': list(vals)})
            for kb, c in cnt.items():
                mass[kb] += c * 2.0 ** -cls
        explored = float(sum(mass.values()))
        top, topm = max(mass.items(), key=lambda kv: kv[1])
        extra['torch_N3_full_explored_mass_ppm'] = int(explored * 1e6)
        extra['torch_N3_full_distinct_tables'] = len(mass)
        if topm > (1 + 1e-9) / order:
            viol.append(V('C16/torch/random_clifford/N3/not-uniform', item,
                          'torchclifford random_clifford(3): the explored coin strings (mass %.4f) alone give one table probability %.4g > 1/|Sp(6,2)| = %.4g' % (explored, topm, 1.0 / order),
                          {'table': np.frombuffer(top, dtype=np.uint8).reshape(6, 6).tolist(), 'probability_at_least': topm, 'classes': desc}, 1.0 / order))
        elif not ok:
            viol.append(V('C16/torch/random_clifford/N3/not-uniform', item,
                          'torchclifford random_clifford(3): not all %d tables occur, or they are not drawn equally often within a coin-length class' % order, desc,
                          '%d distinct tables, equally often in each class' % order))
        samples.append({'torch random_clifford': 3, 'whole_tree': True, 'classes': desc, 'explored_mass': explored})
    return {'n': n, 'nt': nt, 'viol': viol, 'extra': extra, 'samples': samples}


# ------------------------------------------------------------------ conventions / ownership
def conventions():
    out = {'rng_ownership': rng.selfcheck()}
    # the explorer itself: a toy two-stream function with a rejection loop must give an exact partition
    def toy(a, b):
        na = 0
        while True:
            x = a[na] if na < len(a) else FILL
            na += 1
            if x:
                break
        nb = 2 if (na % 2) else 1
        return na, nb, None
    st = {}
    leaves = list(explore2(toy, st, max_a=5))
    assert st['leaves'] == len(leaves) == 3 * 4 + 2 * 2 and st['truncated'] == 1, st
    out['explorer_partition_selftest'] = True
    return out


# ------------------------------------------------------------------ legs
def _explored_mass_clifford2(extra):
    """probability that random_clifford(2) needs at most `extra` coins beyond 12: k rejections of the 1-qubit pair
    (2 coins each, probability 1/4 each) and m of the 2-qubit pair (4 coins each, probability 1/16 each)."""
    tot = 0.0
    for m in range(extra // 4 + 1):
        for k in range((extra - 4 * m) // 2 + 1):
            tot += (15 / 16.0) * (1 / 16.0) ** m * (3 / 4.0) * (1 / 4.0) ** k
    return tot


# ------------------------------------------------------------------ histories: earlier samples edited / kept
def _bits10(k):
    return tuple((k >> i) & 1 for i in range(10))


def fn_fresh(items):
    """item = [pkg, what, N, k]: the generator state is FORCED to the same state k twice (pyclifford: scripted coin string
    = the 10 bits of k then filler, for both Mersenne-Twisters; torchclifford: torch.manual_seed(k)).
      sampler history: a = f(N) -> a is overwritten in place (all arrays) -> same generator state -> b = f(N): b must read
        exactly what a read when it was returned (a sampler must not hand out or keep shared tables), and overwriting a
        third sample must not change b.
      povm history: samples = circuit.povm(3) of a random circuit are read as they are yielded, KEPT, and re-read after
        the generator is exhausted and after each of them was overwritten: kept samples must not change (no storage shared
        between samples of one call)."""
    n = nt = 0
    viol = []
    for item in items:
        pkg, what, N, k = item
        if pkg == 'py':
            mod_s, mod_c = lib.pst, lib.pci
            arr = lambda x: (np.array(x.gs).astype(np.int64).tobytes(), (np.array(x.ps).astype(np.int64) % 4).tobytes(), int(getattr(x, 'r', -1)))

            def force():
                rng.script(_bits10(k), _bits10(k ^ 0x155))

            def wreck(x):
                x.gs[...] = 0
                x.ps[...] = 1
        else:
            m = lib.torch_mods()
            mod_s, mod_c, torch = m['tst'], m['tci'], m['torch']
            arr = lambda x: (lib.t2n(x.gs).tobytes(), (lib.t2n(x.ps) % 4).tobytes(), int(getattr(x, 'r', -1)))

            def force():
                torch.manual_seed(k)

            def wreck(x):
                x.gs.zero_()
                x.ps.fill_(1.0)

        def bad(sig, msg):
            viol.append(V('C16/history/%s/%s/%s' % (pkg, what, sig), item, '%s %s(N=%d), generator state #%d: %s' % (pkg, what, N, k, msg)))
        try:
            if what.startswith('povm:'):
                ctor = {'onsite': lambda: mod_c.onsite_rcc(N), 'global': lambda: mod_c.global_rcc(N), 'brickwall': lambda: mod_c.brickwall_rcc(N, 2)}[what[5:]]
                force()
                circ_ = ctor()
                kept, keys = [], []
                for smp in circ_.povm(3):
                    kept.append(smp)
                    keys.append(arr(smp))
                n += 3
                nt += 3
                if len({id(x) for x in kept}) != 3:
                    bad('same-object', 'povm(3) yields the same object more than once')
                    continue
                now = [arr(x) for x in kept]
                if now != keys:
                    j = [i for i in range(3) if now[i] != keys[i]][0]
                    bad('kept-sample-changed', 'sample %d of one povm(3) call reads differently after the later samples were drawn (signs/strings shared between samples)' % j)
                    continue
                for j in range(3):
                    wreck(kept[j])
                    for i in range(j + 1, 3):
                        if arr(kept[i]) != keys[i]:
                            bad('samples-share-storage', 'overwriting sample %d of one povm(3) call changed sample %d' % (j, i))
                            break
                    else:
                        continue
                    break
            else:
                f = getattr(mod_s, what)
                force()
                a = f(N)
                ka = arr(a)
                wreck(a)
                force()
                b = f(N)
                kb = arr(b)
                n += 2
                nt += 2
                if kb != ka:
                    bad('not-fresh-after-edit', 'the same generator state gave %s before and a different object after the first result was overwritten in place: the sampler hands out (or draws from) storage that the caller can edit' % what)
                    continue
                force()
                c = f(N)
                wreck(c)
                n += 1
                if arr(b) != kb:
                    bad('results-share-storage', 'overwriting a later sample changed an earlier one')
        except Harness:
            raise
        except Exception as e:
            bad('raises-%s' % type(e).__name__, 'raised %s' % e)
    return {'n': n, 'nt': nt, 'viol': viol}


def legs(tier):
    quick = tier == 'quick'
    for N in (1, 2):
        clifford_tables(N)
        product_tables(N)
        stab.tableaux(N)
        stab.valid_keyset(N)
    out = []
    # random_pair
    out.append(Leg('pairs', fn_pairs, [[1, 6], [2, 8], [3, 6]] + ([] if quick else [[4, 8]]), chunk=1,
                   bound='random_pair(N), N<=3 (thorough: 4): all coin strings up to 3 (N=1), 2 (N=2), 1 (N>=3) rejection rounds; '
                         'residual mass 4^-N per extra round'))
    # uniformity
    ex2 = 4 if quick else 8
    items = [['clifford', 2, 'signbij', [list((FILL,) * 12), list(bits(0x5a7, 12)), [0, 0, 0, 0] + [1] * 6 + [0, 0] + [1, 0, 1, 1]], 0],
             ['clifford', 1, 'joint', None, 6], ['pauli', 1, 'joint', None, 6], ['pauli', 2, 'joint', None, 4 if quick else 6]]
    items += [['clifford', 2, 'signfixed', k, ex2] for k in range(16)]
    out.append(Leg('uniform_maps', fn_uniform, items, chunk=1, src_states=24 + 11520 + 24 + 576,
                   bound='random_clifford_map / random_pauli_map, N<=2: complete two-stream coin tree; rejection bounded to +%d numba coins at N=2 '
                         '(coin classes 12..%d; unexplored residual mass %.2g), +6 at N=1 (residual 3.9e-3), +%d for random_pauli_map(2)' % (
                             ex2, 12 + ex2, 1 - _explored_mass_clifford2(ex2), 4 if quick else 6)))
    # states
    sitems = [['bit', N, 0, 0, 0] for N in (1, 2, 3)]
    s2 = [['clifford', 1, -1, 0, 0]]          # cheap head item: the runner replays the first item twice in the parent
    for kind in ('pauli', 'clifford'):
        for N in (1, 2):
            for r in [-1] + list(range(N + 1)):
                for k in range(4 ** N):
                    if kind == 'clifford' and N == 2:
                        if not quick or k in {-1: (6, 9), 0: (0,), 1: (15,), 2: (5,)}[r]:
                            s2.append([kind, N, r, k, 4])
                    else:
                        sitems.append([kind, N, r, k, 4])
    out.append(Leg('states', fn_states, sitems, chunk=1,
                   bound='random_bit_state N<=3 all coin strings; random_pauli_state(N<=2, r) and random_clifford_state(1, r), r in default,0..N: '
                         'whole pair-coin tree (+4 coins) x all sign strings'))
    out.append(Leg('states_clifford_N2', fn_states, s2, chunk=1, exhaustive=not quick, supplementary=quick,
                   bound='random_clifford_state(2, r), r in default,0,1,2: whole pair-coin tree (+4 coins) x '
                         + ('2 (default r) or 1 of the 16 sign strings (capped in quick; every (table, sign) map is covered by uniform_maps)' if quick else 'all 16 sign strings')))
    # circuits
    citems = []
    c2 = [['global_rcc', 1, 'forward', [], [], 0]]      # cheap head item (determinism probe)
    for dirn in ('forward', 'backward'):
        citems.append(['onsite_rcc', 1, dirn, [], [], 4])
        citems.append(['global_rcc', 1, dirn, [], [], 4])
    ex = 0 if quick else 4
    for dirn in ('forward', 'backward'):
        for p in itertools.product((0, 1), repeat=2):
            citems.append(['onsite_rcc', 2, dirn, list(p), [], 4])
        for k in range(16):
            if dirn == 'forward' or not quick:
                citems.append(['global_rcc', 2, dirn, [], list(bits(k, 4)), ex])
            elif k in (3, 5, 10, 12):
                c2.append(['global_rcc', 2, dirn, [], list(bits(k, 4)), ex])
        for k in ((6, 9) if quick else range(16)):
            c2.append(['brickwall_rcc', 2, dirn, [], list(bits(k, 4)), ex])
    out.append(Leg('circuits', fn_circuits, citems, chunk=1,
                   bound='onsite_rcc(N<=2), global_rcc(1) forward and backward, global_rcc(2) %s on zero_state: every coin string (pair coins and all sign coins); '
                         '1-qubit gates with +4 coins of rejection, the 2-qubit gate %s' % (
                             'forward' if quick else 'forward and backward', 'rejection-free (mass 0.70)' if quick else 'with +4 coins (mass 0.967)')))
    out.append(Leg('circuits_more', fn_circuits, c2, chunk=1, exhaustive=not quick, supplementary=quick,
                   bound=('global_rcc(2) backward on 4 of 16 sign strings, brickwall_rcc(2,1) forward/backward on 2 of 16 sign strings, rejection-free pair coins '
                          '(capped in quick)' if quick else 'brickwall_rcc(2,1) forward and backward: every coin string, +4 coins of rejection')))
    # resampling
    ritems = [[1, 'forward', 'pairs', None, 0], [1, 'forward', 'pairs', None, 4], [1, 'backward', 'pairs', None, 4]]
    out.append(Leg('resample', fn_resample, ritems, chunk=1,
                   bound='map-less CliffordGate(0) applied twice, forward and backward: the whole two-stream coin tree of both calls (+4 coins of rejection): '
                         'all 24x24 ordered pairs of maps'))
    r2 = [[1, 'forward', 'pairs', None, 0]]             # cheap head item (determinism probe)
    for dirn in ('forward', 'backward'):
        for k in (((3,) if dirn == 'forward' else (12,)) if quick else range(16)):
            r2.append([2, dirn, 'second', k, 2 if quick else 4])
    out.append(Leg('resample_N2', fn_resample, r2, chunk=1, exhaustive=not quick, supplementary=quick,
                   bound='map-less CliffordGate(0,1) applied twice: coins of the first call fixed, whole pair-coin tree of the second call (+%d coins) for %s' % (
                       2 if quick else 4, '1 of the 16 sign strings per direction (capped in quick)' if quick else 'all 16 sign strings')))
    if quick:
        import os as _os
        sd = int(_os.environ.get('VERIF_SEED', '0') or 0)
        ks = [1 + (17 * sd + 5) % 63, 1 + (17 * sd + 40) % 63]
        out.append(Leg('uniform_N3_subtrees', fn_n3, [[list(bits(k, 6)), 2] for k in ks], chunk=1, exhaustive=False, supplementary=True, timeout=3000, probe=0,
                       bound='random_clifford(3), symplectic part: 2 of the 63 subtrees below the first draw g1 (VERIF_SEED rotates which): every leaf a valid table, 23040 distinct tables per subtree equally often'))
    if not quick:
        n3 = [[[0, 0, 0, 0, 0, 0], 2]] + [[list(bits(k, 6)), 2] for k in range(1, 64)]
        out.append(Leg('uniform_N3_tables', fn_n3, n3, chunk=1, src_states=dom.SP_ORDER[3], timeout=3000,
                       bound='random_clifford(3), symplectic part: all 23.2 M coin strings of 24 and 26 coins, split into the 63 subtrees below the first draw g1 '
                             '(explored mass 0.865: rejection of the 3-qubit pair itself costs +6 coins, of the 2-qubit pair +4, a second 1-qubit rejection +4: beyond the bound)'))
    # torch
    titems = [['random_pair', 1, 4, []], ['random_pair', 2, 4, []], ['random_pauli', 1, 4, []], ['random_pauli', 2, 4, []],
              ['random_clifford', 1, 4, []], ['random_clifford_map', 1, 4, []], ['random_pauli_map', 1, 4, []],
              ['random_pauli_map', 2, 0 if quick else 2, []], ['random_clifford', 2, 2 if quick else 4, []]]
    out.append(Leg('torch', fn_torch, titems, chunk=1,
                   bound='torchclifford samplers through the scripted torch.randint seam: N=1 all streams (+4 coins), N=2 random_pair/random_pauli (+4), '
                         'random_clifford(2) (+%d), random_pauli_map(2) (+%d)' % (2 if quick else 4, 0 if quick else 2)))
    t2 = [['random_clifford_map', 1, 0, []]]            # cheap head item (determinism probe)
    t2 += [['random_clifford_map', 2, 0 if quick else 2, list(bits(k, 4))] for k in ((1, 6, 7, 11, 12) if quick else range(1, 16))]
    out.append(Leg('torch_map_N2', fn_torch, t2, chunk=1, exhaustive=not quick, supplementary=quick,
                   bound='torchclifford random_clifford_map(2): validity and conditional sign fairness on every stream below '
                         + ('5 of the 15 possible first draws g1 (capped in quick)' if quick else 'each of the 15 first draws g1')
                         + ', rejection bounded to +%d coins' % (0 if quick else 2)))
    # torch N=3: subtrees below a first anticommuting pair
    G3 = ref.all_g(3)
    A3 = ref.anti_mat(G3)
    sd = int(os.environ.get('VERIF_SEED', '0') or 0)
    pairs = []
    for t in range(12 if quick else 96):
        i1 = 1 + (11 * t + 7 * sd + 20) % 63
        js = [j for j in range(64) if A3[i1, j]]
        j1 = js[(5 * t + 3 * sd + 9) % len(js)]
        pairs.append([[int(x) for x in G3[i1]] + [int(x) for x in G3[j1]], 2 if quick else 4])
    out.append(Leg('torch_uniform_N3_subtrees', fn_n3_torch, pairs, chunk=1, exhaustive=False, supplementary=True, timeout=3000, probe=0,
                   bound='torchclifford random_clifford(3): %d of the 2016 subtrees below the first anticommuting pair (g1,g2) (VERIF_SEED rotates which): every leaf a valid table with rows 0,1 = (g1,g2), '
                         '720 distinct tables per subtree equally often within each coin-length class (+%d coins of rejection)' % (len(pairs), 2 if quick else 4)))
    if not quick:
        out.append(Leg('torch_uniform_N3_whole_tree', fn_n3_torch_full, [[2, 16]], chunk=1, parallel=False, probe=0, timeout=6 * 3600, src_states=dom.SP_ORDER[3],
                       bound='torchclifford random_clifford(3): ALL coin strings of 24 and 26 coins (about 23 M leaves, ~17 core-hours, split over the 4096 twelve-coin prefixes and 16 forked workers; '
                             'explored mass 0.865): every table valid, all 1451520 tables equally often per coin-length class, no table above 1/|Sp(6,2)|'))
    K = 12 if quick else 64
    fitems = [[pkg, what, N, k] for pkg in ('py', 'torch') for what in ('random_clifford_map', 'random_pauli_map', 'random_clifford_state', 'random_pauli_state') for N in (1, 2, 3) for k in range(K)]
    fitems += [['py', 'random_bit_state', N, k] for N in (1, 2, 3) for k in range(K)]
    fitems += [[pkg, 'povm:' + c, N, k] for pkg in ('py', 'torch') for c in ('onsite', 'global') for N in (1, 2, 3) for k in range(K)]
    fitems += [[pkg, 'povm:brickwall', N, k] for pkg in ('py', 'torch') for N in (2, 4) for k in range(K)]      # brickwall_rcc wants an even N
    out.append(Leg('sample_histories', fn_fresh, fitems, chunk=8, exhaustive=False, supplementary=True,
                   bound='both packages, N<=3, %d forced generator states each: every sampler called, its result overwritten in place, called again under the same generator state (must return what it returned before); '
                         'a later sample overwritten (earlier one unchanged); povm(3) of onsite / global / brickwall random circuits: samples read when yielded, kept, re-read after the call and after each other sample was overwritten' % K))
    return out
