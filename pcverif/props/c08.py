"""C08 Entropy equals the von Neumann entropy of the reduced density matrix.

`StabilizerState.entropy` reads only the strings of the active stabilizers, so the input
space is  (stabilizer group) x (ordered basis of it) x (signs) x (subsystem) x (input format).
The check enumerates ALL isotropic subspaces ("groups") of the Pauli strings of N qubits
(independently of the library), ALL ordered bases of every group (= all ordered independent
commuting lists, cross-checked against dom.commuting_lists), all 2^N subsystems and the
input formats {list, tuple, int array, boolean numpy mask, reversed list}; every state is a
valid tableau completed by the check itself (symplectic Gram-Schmidt), fed to the real
`entropy`, and compared with -sum l log2 l of the eigenvalues of the partial trace of the
dense density matrix 2^-N prod (1+S_a), evaluated for EVERY sign pattern of the group."""
import itertools
import functools
import numpy as np
from .. import ref, dom, lib, stab
from ..core import Leg, V

PROP = 'C08'
RULE = ('(stabilizer group, ordered basis, sign pattern, subsystem, input format) tuples: every isotropic subspace of '
        'dimension 0..N, every ordered basis of it, every one of the 2^N subsystems; one transition = one real '
        'entropy() call compared with the dense partial-trace oracle; non-trivial = (ordered basis, signs, subsystem) '
        'with a proper non-empty subsystem and at least one generator acting on both sides of the cut (the rank '
        'computations are exercised); states = distinct (N, ordered list, signs) tableaux built')
ASSUMPTIONS = ['numpy eigvalsh / kron / trace on matrices up to 32x32 are correct (root oracle); entropies of stabilizer '
               'states are integers, compared with tolerance 1e-6',
               'bounded to N<=3 completely (quick) and N=4 (thorough: all lists with L<=3, all 2295 Lagrangian '
               'subspaces with every 24th of their 20160 ordered bases); torch leg N<=2 (thorough N<=3) complete, plus a capped '
               'N=4 torch leg (one / a few ordered bases per subspace) because N=4 is the smallest size where a real matrix rank differs from the GF(2) rank',
               'entropy() reads only the active stabilizer strings; standby rows / destabilizers are completed to a '
               'valid tableau by the check (verified against the tableau invariant for every state built)']

EPS = 1e-6
FORMATS = ('list', 'tuple', 'intarray', 'boolmask', 'revlist', 'duplist')
GL_ORDER = {0: 1, 1: 1, 2: 6, 3: 168, 4: 20160}


# ---------------------------------------------------------------- domains (library independent)
@functools.lru_cache(maxsize=None)
def _G(N):
    """ref.all_g(N), cached (read-only use)."""
    G = ref.all_g(N)
    G.setflags(write=False)
    return G


@functools.lru_cache(maxsize=None)
def _SUP(N):
    """Support of every string as a bit mask over qubits (bit q = acts non-trivially on qubit q)."""
    c = ref.codes(_G(N)) != 0
    return [int(sum(1 << q for q in range(N) if row[q])) for row in c]


@functools.lru_cache(maxsize=None)
def _A(N):
    """4^N x 4^N anticommutation table; string index i == integer value of the bit vector."""
    G = _G(N)
    assert (ref.gindex(G) == np.arange(len(G))).all()
    return ref.anti_mat(G)


def _span(basis):
    s = [0]
    for b in basis:
        s += [x ^ b for x in s]
    return s


def _canon(elems):
    """Greedy minimal basis of a GF(2) subspace given as a collection of ints."""
    basis = []
    sp = {0}
    for x in sorted(elems):
        if x not in sp:
            basis.append(x)
            sp |= {y ^ x for y in sp}
    return tuple(basis)


@functools.lru_cache(maxsize=None)
def groups(N, L):
    """All isotropic subspaces of dimension L of the 4^N strings, each as its canonical basis."""
    if L == 0:
        return [()]
    A = _A(N)
    seen = {}
    for basis in groups(N, L - 1):
        sp = frozenset(_span(basis))
        comm = np.ones(4 ** N, dtype=bool)
        for b in basis:
            comm &= (A[:, b] == 0)
        for c in np.flatnonzero(comm):
            c = int(c)
            if c in sp:
                continue
            sp2 = frozenset(sp | {x ^ c for x in sp})
            if sp2 not in seen:
                seen[sp2] = _canon(sp2)
    out = sorted(seen.values())
    assert len(out) * GL_ORDER[L] == dom.count_commuting_lists(N, L), (N, L, len(out))
    return out


def ordered_bases(basis):
    """All ordered bases of span(basis), deterministic order."""
    elems = sorted(_span(basis))[1:]
    L = len(basis)

    def rec(sel, sp):
        if len(sel) == L:
            yield tuple(sel)
            return
        for c in elems:
            if c in sp:
                continue
            yield from rec(sel + [c], sp | {x ^ c for x in sp})
    yield from rec([], frozenset([0]))


def complete(N, lst):
    """Complete the ordered commuting independent list to a valid tableau (rows [0,r) standby
    stabilizers, [r,N) = lst in the given order, [N,N+r) standby destabilizers, [N+r,2N) active
    destabilizers; row i pairs with row i+N).  Symplectic Gram-Schmidt on integers."""
    A = _A(N)
    lst = [int(x) for x in lst]
    L = len(lst)
    r = N - L
    ds = []
    if L:
        cols = A[:, lst]
        for i in range(L):
            want = np.zeros(L, dtype=cols.dtype)
            want[i] = 1
            ds.append(int(np.flatnonzero((cols == want).all(1))[0]))
        for j in range(L):
            for i in range(j):
                if A[ds[i], ds[j]]:
                    ds[j] ^= lst[i]
        cand = [int(x) for x in np.flatnonzero((A[:, lst + ds] == 0).all(1))]
    else:
        cand = list(range(4 ** N))
    xs, ys = [], []
    for _ in range(r):
        x = next(c for c in cand if c != 0)
        y = next(c for c in cand if A[x, c])
        xs.append(x)
        ys.append(y)
        cand = [c for c in cand if not A[x, c] and not A[y, c]]
    rows = xs + lst + ys + ds
    return _G(N)[rows]


def build(N, lst, signs):
    """Fresh valid tableau arrays (gs, ps, r) with the given active stabilizers."""
    L = len(lst)
    r = N - L
    gs = complete(N, lst)
    ps = np.zeros(2 * N, dtype=np.int64)
    ps[r:N] = signs
    bad = ref.tableau_invariant(gs, ps, r)
    assert bad == '' and (ref.gindex(gs[r:N]) == np.array(lst, dtype=np.int64)).all(), \
        'harness: tableau completion failed (%s) for N=%d list=%s' % (bad, N, lst)
    return gs, ps, r


def sign_sets(N, L, lite, lst):
    if L == 0:
        return [()]
    if N <= 2:
        return [tuple(s) for s in itertools.product((0, 2), repeat=L)]
    alt = tuple(2 * ((i + 1) % 2) for i in range(L))
    plus = (0,) * L
    if not lite:
        return [plus, alt]
    return [alt if (sum(lst) & 1) else plus]


# ---------------------------------------------------------------- oracle
_ORACLE = {}


def oracle(N, basis):
    """Entropy of every subsystem (order of dom.subsets(N)) of the state stabilized by the group
    span(basis): dense matrices, evaluated for EVERY sign pattern on the basis (= every signed
    version of the group); the sign patterns must agree (they are related by Pauli conjugation)."""
    k = (N, tuple(basis))
    got = _ORACLE.get(k)
    if got is not None:
        return got
    G = _G(N)
    L = len(basis)
    subs = dom.subsets(N)
    out = None
    for signs in itertools.product((0, 2), repeat=L):
        rho = ref.rho_from_stabs(G[list(basis)], signs, N) if L else np.eye(2 ** N, dtype=complex) / 2 ** N
        vals = [ref.vn_entropy(ref.ptrace(rho, A, N)) for A in subs]
        if out is None:
            out = vals
        assert np.allclose(out, vals, atol=1e-9), 'harness: oracle depends on signs'
    ints = [int(round(v)) for v in out]
    assert np.allclose(out, ints, atol=1e-9), 'harness: non-integer stabilizer entropy'
    # reference-side sanity of the derived facts of the statement
    assert ints[0] == 0 and ints[-1] == N - L
    if L == N:
        for si, A in enumerate(subs):
            comp = [q for q in range(N) if q not in A]
            assert ints[si] == ints[subs.index(comp)]
    if len(_ORACLE) < 200000:
        _ORACLE[k] = ints
    return ints


def fmt_arg(fmt, A, N):
    A = list(A)
    if fmt == 'list':
        return A
    if fmt == 'tuple':
        return tuple(A)
    if fmt == 'intarray':
        return np.array(A, dtype=np.int_)
    if fmt == 'revlist':
        return A[::-1]
    if fmt == 'duplist':      # the same set with one index listed twice (not adjacent when there are >= 2 entries)
        return A + [A[0]]
    if fmt == 'boolmask':
        m = np.zeros(N, dtype=np.bool_)
        for q in A:
            m[q] = True
        return m
    raise KeyError(fmt)


def fmt_class(fmt):
    return 'boolmask' if fmt == 'boolmask' else 'indices'


def _num(v):
    """Numeric value of a returned entropy (python int, numpy integer, 0-d array, tensor)."""
    try:
        f = float(v)
    except Exception:
        return None
    if f != f:
        return None
    return f


def _crossing(N, lst, A):
    """Does some generator act non-trivially on both sides of the cut?"""
    sup = _SUP(N)
    a = 0
    for q in A:
        a |= 1 << q
    for x in lst:
        if (sup[x] & a) and (sup[x] & ~a):
            return True
    return False


class _Acc(object):
    """At most one violation per signature per item; the count goes into the message."""
    def __init__(self, item):
        self.item = item
        self.d = {}

    def add(self, sig, msg, observed=None, expected=None):
        if sig in self.d:
            self.d[sig][1] += 1
        else:
            self.d[sig] = [V(sig, self.item, msg, observed, expected), 1]

    def out(self):
        res = []
        for sig, (v, c) in self.d.items():
            if c > 1:
                v['msg'] += '  [%d cases with this signature in this item]' % c
            res.append(v)
        return res


def _desc(N, lst, signs, r):
    G = _G(N)
    return 'N=%d r=%d stabilizers=[%s]' % (N, r, ','.join(ref.g_to_str(G[x], s) for x, s in zip(lst, signs)))


# ---------------------------------------------------------------- gates for the invariance check point
_GATES = {}


def gate_menu(N):
    """H(q), S(q), CNOT(c,t) for every wire / ordered pair of distinct wires (library gates)."""
    if N not in _GATES:
        pc = lib.pc
        out = []
        for q in range(N):
            out.append(('H(%d)' % q, (q,), pc.H(q)))
            out.append(('S(%d)' % q, (q,), pc.S(q)))
        for c, t in itertools.permutations(range(N), 2):
            out.append(('CNOT(%d,%d)' % (c, t), (c, t), pc.CNOT(c, t)))
        _GATES[N] = out
    return _GATES[N]


def _state_entropy_ref(st, N, A):
    """Oracle entropy of a live library state (dense), or None if the arrays are not a valid tableau."""
    try:
        gs = np.asarray(st.gs).astype(np.int64)
        ps = np.asarray(st.ps).astype(np.int64) % 4
        r = int(st.r)
        if ref.tableau_invariant(gs, ps, r):
            return None
        return ref.vn_entropy(ref.ptrace(ref.rho(gs, ps, r), list(A), N))
    except Exception:
        return None


# ---------------------------------------------------------------- main sweep
def fn_groups(items):
    """item = [N, canonical basis (string indices), stride, offset, lite]: every ordered basis of the
    group whose enumeration index = offset mod stride; lite=1 -> formats {list, boolmask}, one sign
    pattern, local-Clifford check on every 24th selected basis."""
    n = nt = 0
    viol = []
    keys = set()
    samples = []
    extra = {}
    for item in items:
        N, basis, stride, off, lite = item
        basis = tuple(int(x) for x in basis)
        L = len(basis)
        r = N - L
        kind = 'pure' if r == 0 else 'mixed'
        E = oracle(N, basis)
        subs = dom.subsets(N)
        acc = _Acc(item)
        fmts = ('list', 'boolmask') if lite else FORMATS
        gate_stride = 24 if lite else 1
        per_sub = [set() for _ in subs]          # library values over all bases (generator independence)
        nsel = -1
        for bi, lst in enumerate(ordered_bases(basis)):
            if bi % stride != off:
                continue
            nsel += 1
            for sgi, signs in enumerate(sign_sets(N, L, lite, lst)):
                gs, ps, _ = build(N, lst, signs)
                st = lib.ST(gs, ps, r)
                g0, p0 = np.array(st.gs).tobytes(), np.array(st.ps).tobytes()
                keys.add(hash((N, lst, signs)))
                libval = {}
                for si, A in enumerate(subs):
                    if 0 < len(A) < N and _crossing(N, lst, A):
                        nt += 1
                    for fmt in fmts:
                        if (fmt == 'revlist' and len(A) < 2) or (fmt == 'duplist' and len(A) < 1):
                            continue
                        n += 1
                        try:
                            arg = fmt_arg(fmt, A, N)
                            arg0 = arg.copy() if isinstance(arg, np.ndarray) else list(arg)
                            v = st.entropy(arg)
                            if not (np.array_equal(arg, arg0) if isinstance(arg, np.ndarray) else list(arg) == arg0):
                                acc.add('C08/entropy/argument-modified/format=%s' % fmt_class(fmt), '%s: entropy(%r) [format %s] changed its region argument into %r' % (_desc(N, lst, signs, r), arg0, fmt, arg))
                        except Exception as e:
                            acc.add('C08/entropy/raises-%s/format=%s' % (type(e).__name__, fmt_class(fmt)),
                                    '%s: entropy(%r) [format %s] raised %s: %s' % (_desc(N, lst, signs, r), fmt_arg(fmt, A, N), fmt, type(e).__name__, e))
                            continue
                        f = _num(v)
                        if f is None:
                            acc.add('C08/entropy/not-a-number/format=%s' % fmt_class(fmt),
                                    '%s: entropy(%r) returned %r' % (_desc(N, lst, signs, r), fmt_arg(fmt, A, N), v))
                            continue
                        if fmt in ('list', 'boolmask'):
                            libval[(si, fmt)] = f
                        if fmt == 'list':
                            per_sub[si].add(f)
                        if abs(f - E[si]) > EPS:
                            if len(A) == 0:
                                sig = 'C08/entropy/empty-subsystem/format=%s' % fmt_class(fmt)
                            elif len(A) == N:
                                sig = 'C08/entropy/whole-system/%s/format=%s' % (kind, fmt_class(fmt))
                            else:
                                sig = 'C08/entropy/value/%s/format=%s' % (kind, fmt_class(fmt))
                            acc.add(sig, '%s: entropy(%r) [format %s] = %r, von Neumann entropy of the reduced density matrix = %d' % (
                                _desc(N, lst, signs, r), fmt_arg(fmt, A, N), fmt, v, E[si]), v, E[si])
                # pure => S(A) = S(complement), on the library's own values
                if r == 0:
                    for si, A in enumerate(subs):
                        comp = [q for q in range(N) if q not in A]
                        a, b = libval.get((si, 'list')), libval.get((subs.index(comp), 'list'))
                        n += 1
                        if a is not None and b is not None and abs(a - b) > EPS:
                            acc.add('C08/entropy/complement/pure', '%s: entropy(%s)=%r but entropy(%s)=%r on a pure state' % (
                                _desc(N, lst, signs, r), A, a, comp, b), a, b)
                # the queries must not have touched the state
                if np.array(st.gs).tobytes() != g0 or np.array(st.ps).tobytes() != p0 or int(st.r) != r:
                    acc.add('C08/entropy/mutates-state', '%s: entropy() changed the tableau' % _desc(N, lst, signs, r))
                # invariance under Clifford gates acting entirely inside / outside the region
                if sgi == 0 and nsel % gate_stride == 0:
                    for si, A in enumerate(subs):
                        fmt = 'list' if A else 'boolmask'
                        before = libval.get((si, fmt))
                        if before is None:
                            continue
                        sa = set(A)
                        for label, qs, gate in gate_menu(N):
                            if all(q in sa for q in qs):
                                where = 'inside'
                            elif not any(q in sa for q in qs):
                                where = 'outside'
                            else:
                                continue
                            st2 = lib.ST(gs, ps, r)
                            n += 1
                            extra['gate_' + where] = extra.get('gate_' + where, 0) + 1
                            try:
                                gate.forward(st2)
                                f2 = _num(st2.entropy(fmt_arg(fmt, A, N)))
                            except Exception as e:
                                acc.add('C08/local-clifford/%s/raises-%s' % (where, type(e).__name__),
                                        '%s: %s.forward then entropy(%s) raised %s: %s' % (_desc(N, lst, signs, r), label, A, type(e).__name__, e))
                                continue
                            if f2 is None or abs(f2 - before) > EPS:
                                tru = _state_entropy_ref(st2, N, A)
                                if tru is not None and f2 is not None and abs(tru - f2) < EPS:
                                    sig = 'C08/local-clifford/%s/gate-changed-entanglement/%s' % (where, kind)
                                else:
                                    sig = 'C08/local-clifford/%s/entropy-changed/%s' % (where, kind)
                                acc.add(sig, '%s: entropy(%s)=%r, after %s (acting %s the region) entropy=%r (dense oracle of the new state: %r)' % (
                                    _desc(N, lst, signs, r), A, before, label, where, f2, tru), f2, before)
                if not samples and L >= 2 and bi == 1:
                    samples.append({'state': _desc(N, lst, signs, r), 'subsystems': [list(A) for A in subs], 'entropy_oracle': E,
                                    'entropy_library_list_format': [libval.get((si, 'list')) for si in range(len(subs))]})
        # generator independence: all ordered bases / sign patterns of one group give one value
        for si, A in enumerate(subs):
            n += 1
            if len(per_sub[si]) > 1:
                acc.add('C08/entropy/generator-dependence/%s' % kind,
                        'N=%d group spanned by [%s]: entropy(%s) takes the values %s over the ordered bases of the same group' % (
                            N, ','.join(ref.g_to_str(_G(N)[x]) for x in basis), A, sorted(per_sub[si])), sorted(per_sub[si]), E[si])
        viol.extend(acc.out())
    return {'n': n, 'nt': nt, 'viol': viol, 'keys': keys, 'samples': samples, 'extra': extra}


# ---------------------------------------------------------------- live objects: entropy -> in-place operation -> entropy
def fn_live(items):
    """item = [N, idx, lo, hi]: every subsystem's entropy is asked of ONE live state object (index and mask formats),
    then an in-place operation of the C05 menu (rotations, maps, gates, measurements on every coin branch,
    post-selection, projections) is applied, and the entropies asked again must equal those of a fresh object
    built from the live object's arrays -- the dense oracle is applied to that fresh state in leg lists_*."""
    from . import c05
    n = nt = 0
    viol = []
    for N, idx, lo, hi in items:
        gs0, ps0, r0 = stab.tableaux(N)[idx]
        menu = c05.get_menu(N, 'quick')
        subs = dom.subsets(N)

        def ask(s_):
            out = {}
            for A in subs:
                out['entropy(%s)' % (list(A),)] = _num(s_.entropy(list(A))) if A else None
                out['entropy(mask %s)' % (list(A),)] = _num(s_.entropy(fmt_arg('boolmask', A, N)))
            return out
        for k in range(lo, min(hi, len(menu))):
            cls, label, f = menu[k]
            st = lib.ST(gs0, ps0, r0)
            q0 = ask(st)
            try:
                if f(st) == 'skip':
                    continue
            except Exception:
                continue            # failing operations are judged by C05
            if stab.state_check(st, N):
                continue            # invalid successors are judged by C05
            fresh = lib.ST(np.array(st.gs), np.array(st.ps), int(st.r))
            q1, q2 = ask(st), ask(fresh)
            n += len(q1)
            nt += int(q0 != q2)
            for key in q2:
                a, b = q1[key], q2[key]
                if a != b and not (a is not None and b is not None and abs(a - b) < EPS):
                    viol.append(V('C08/live/stale-after-%s' % cls, [N, idx, k, k + 1], '%s after %s on a live object whose entropies had been asked before gives %r, a fresh object with identical arrays gives %r (%s)' % (
                        key, label, a, b, stab.describe(st.gs, st.ps, int(st.r))), a, b))
                    break
    return {'n': n, 'nt': nt, 'viol': viol}


# ---------------------------------------------------------------- states built by the library's own constructor
def fn_ctor(items):
    """item = [N, canonical basis]: every ordered basis x 2 sign patterns through
    pyclifford.stabilizer_state(PauliList); guarded: if the constructor raises or returns a state with a
    different group / rank (C12's business) the case is skipped and counted."""
    n = nt = 0
    viol = []
    extra = {}
    for item in items:
        N, basis = item
        basis = tuple(int(x) for x in basis)
        L = len(basis)
        r = N - L
        kind = 'pure' if r == 0 else 'mixed'
        E = oracle(N, basis)
        subs = dom.subsets(N)
        G = _G(N)
        want = sorted(_span(basis))
        acc = _Acc(item)
        for lst in ordered_bases(basis):
            for signs in ([(0,) * L, tuple(2 * ((i + 1) % 2) for i in range(L))] if L else [()]):
                try:
                    if L:
                        st = lib.pc.stabilizer_state(lib.PL(G[list(lst)], list(signs)))
                    else:
                        st = lib.pc.maximally_mixed_state(N)
                    act = [int(x) for x in ref.gindex(np.asarray(st.gs).astype(np.int64)[int(st.r):N])] if int(st.r) < N else []
                    ok = int(st.r) == r and sorted(_span(act)) == want and len(act) == L
                except Exception:
                    ok = False
                    extra['ctor_raised'] = extra.get('ctor_raised', 0) + 1
                if not ok:
                    extra['ctor_skipped'] = extra.get('ctor_skipped', 0) + 1
                    continue
                for si, A in enumerate(subs):
                    if 0 < len(A) < N and _crossing(N, act, A):
                        nt += 1
                    for fmt in ('list', 'boolmask'):
                        n += 1
                        try:
                            f = _num(st.entropy(fmt_arg(fmt, A, N)))
                        except Exception as e:
                            acc.add('C08/ctor-state/raises-%s/format=%s' % (type(e).__name__, fmt_class(fmt)),
                                    'stabilizer_state(%s).entropy(%r) raised %s: %s' % (_desc(N, lst, signs, r), fmt_arg(fmt, A, N), type(e).__name__, e))
                            continue
                        if f is None or abs(f - E[si]) > EPS:
                            acc.add('C08/ctor-state/value/%s/format=%s' % (kind, fmt_class(fmt)),
                                    'stabilizer_state(%s).entropy(%r) = %r, von Neumann entropy = %d' % (_desc(N, lst, signs, r), fmt_arg(fmt, A, N), f, E[si]), f, E[si])
        viol.extend(acc.out())
    return {'n': n, 'nt': nt, 'viol': viol, 'extra': extra}


def fn_named(items):
    """item = [name, N]: zero / one / ghz / maximally mixed states from the library constructors,
    all subsystems, formats list + boolmask, dense oracle on the state's own arrays."""
    n = nt = 0
    viol = []
    for item in items:
        name, N = item
        acc = _Acc(item)
        st = getattr(lib.pc, name)(N)
        if ref.tableau_invariant(np.asarray(st.gs).astype(np.int64), np.asarray(st.ps).astype(np.int64), int(st.r)):
            continue                      # constructor defect: not this property's business
        rho = ref.rho(np.asarray(st.gs).astype(np.int64), np.asarray(st.ps).astype(np.int64) % 4, int(st.r))
        kind = 'pure' if int(st.r) == 0 else 'mixed'
        for A in dom.subsets(N):
            e = ref.vn_entropy(ref.ptrace(rho, A, N))
            if name == 'ghz_state' and 0 < len(A) < N:
                nt += 1
            for fmt in ('list', 'tuple', 'intarray', 'boolmask'):
                n += 1
                try:
                    f = _num(st.entropy(fmt_arg(fmt, A, N)))
                except Exception as ex:
                    acc.add('C08/named-state/raises-%s/format=%s' % (type(ex).__name__, fmt_class(fmt)),
                            '%s(%d).entropy(%r) raised %s: %s' % (name, N, fmt_arg(fmt, A, N), type(ex).__name__, ex))
                    continue
                if f is None or abs(f - e) > EPS:
                    acc.add('C08/named-state/value/%s/format=%s' % (kind, fmt_class(fmt)),
                            '%s(%d).entropy(%r) = %r, von Neumann entropy = %r' % (name, N, fmt_arg(fmt, A, N), f, e), f, e)
        viol.extend(acc.out())
    return {'n': n, 'nt': nt, 'viol': viol}


# ---------------------------------------------------------------- z2rank (anchor mechanism)
def fn_z2rank(items):
    """item = [nr, nc, start, count]: utils.z2rank on every binary nr x nc matrix with code in
    [start, start+count) (row-major bits), compared with an independent GF(2) elimination."""
    n = nt = 0
    viol = []
    for item in items:
        nr, nc, start, count = item
        acc = _Acc(item)
        nb = nr * nc
        for code in range(start, start + count):
            bits = [(code >> (nb - 1 - k)) & 1 for k in range(nb)]
            rows = [bits[i * nc:(i + 1) * nc] for i in range(nr)]
            m = np.array(rows, dtype=lib.INT).reshape(nr, nc)
            exp = dom.z2_rank(rows)
            n += 1
            if rows[0][0] == 0:
                nt += 1                   # a pivot search / row swap is needed
            try:
                got = lib.pu.z2rank(m.copy())
            except Exception as e:
                acc.add('C08/z2rank/raises-%s' % type(e).__name__, 'z2rank(%s) raised %s: %s' % (rows, type(e).__name__, e))
                continue
            if int(got) != exp:
                acc.add('C08/z2rank/value', 'z2rank(%s) = %r, GF(2) rank = %d' % (rows, got, exp), got, exp)
        viol.extend(acc.out())
    return {'n': n, 'nt': nt, 'viol': viol}


# ---------------------------------------------------------------- torch port
def _real_rank_formula(N, lst, A):
    """What stabilizer_entropy yields when z2rank is the REAL matrix rank (torch port), reference side."""
    G = _G(N)
    gs = G[list(lst)].astype(np.float64)
    L = len(lst)
    mask2 = np.zeros(2 * N, dtype=bool)
    for q in A:
        mask2[2 * q] = mask2[2 * q + 1] = True
    if L == N:
        inside = gs[:, mask2].sum(-1) != 0
        outside = gs[:, ~mask2].sum(-1) != 0
        sub = G[list(lst)][inside & outside][:, mask2]
        if sub.shape[0] == 0 or sub.shape[1] == 0:
            return 0
        return int(np.linalg.matrix_rank(ref.anti_mat(sub).astype(np.float64))) // 2
    comp = gs[:, ~mask2]
    rk = int(np.linalg.matrix_rank(comp)) if comp.size else 0
    return len(A) - (L - rk)


def fn_torch(items):
    """item = [N, canonical basis, stride, lite]: torchclifford StabilizerState.entropy on every
    (stride-th) ordered basis, all subsystems, formats list / tuple / int array / torch bool tensor;
    the boolean NUMPY mask (the format the method's own isinstance test promises) once per subsystem.
    lite=1: index-list format only."""
    m = lib.torch_mods()
    torch = m['torch']
    n = nt = 0
    viol = []
    extra = {}
    for item in items:
        N, basis, stride, lite = item
        basis = tuple(int(x) for x in basis)
        L = len(basis)
        r = N - L
        kind = 'pure' if r == 0 else 'mixed'
        E = oracle(N, basis)
        subs = dom.subsets(N)
        acc = _Acc(item)
        for bi, lst in enumerate(ordered_bases(basis)):
            if bi % stride:
                continue
            signs = tuple(2 * ((i + 1) % 2) for i in range(L)) if bi % 2 else (0,) * L
            gs, ps, _ = build(N, lst, signs)
            st = lib.tST(gs, ps, r)
            for si, A in enumerate(subs):
                if 0 < len(A) < N and _crossing(N, lst, A):
                    nt += 1
                for fmt in (('list',) if lite else ('list', 'tuple', 'intarray', 'booltensor') + (('boolmask',) if bi == 0 else ())):
                    if fmt == 'booltensor':
                        arg = torch.tensor(fmt_arg('boolmask', A, N).tolist(), dtype=torch.bool)
                    else:
                        arg = fmt_arg(fmt, A, N)
                    n += 1
                    arg0 = arg.clone() if fmt == 'booltensor' else (arg.copy() if isinstance(arg, np.ndarray) else list(arg))
                    try:
                        f = _num(st.entropy(arg))
                        same_arg = bool((arg == arg0).all()) if fmt == 'booltensor' else (np.array_equal(arg, arg0) if isinstance(arg, np.ndarray) else list(arg) == arg0)
                        if not same_arg:
                            acc.add('C08/torch/entropy/argument-modified/format=%s' % (fmt if fmt in ('boolmask', 'booltensor') else 'indices'),
                                    'torchclifford %s: entropy(%r) [format %s] changed its region argument into %r' % (_desc(N, lst, signs, r), arg0, fmt, arg))
                    except Exception as e:
                        acc.add('C08/torch/entropy/format=%s/raises-%s' % (fmt if fmt in ('boolmask', 'booltensor') else 'indices', type(e).__name__),
                                'torchclifford %s: entropy(%r) [format %s] raised %s: %s' % (
                                    _desc(N, lst, signs, r), arg, fmt, type(e).__name__, str(e).split('\n')[0]))
                        continue
                    if f is None or abs(f - E[si]) > EPS:
                        if f is not None and 0 < len(A) and abs(f - _real_rank_formula(N, lst, A)) < EPS:
                            sig = 'C08/torch/entropy/z2rank-real-vs-gf2'
                        else:
                            sig = 'C08/torch/entropy/value/%s/format=%s' % (kind, fmt if fmt in ('boolmask', 'booltensor') else 'indices')
                        acc.add(sig, 'torchclifford %s: entropy(%r) [format %s] = %r, von Neumann entropy = %d' % (
                            _desc(N, lst, signs, r), arg, fmt, f, E[si]), f, E[si])
        viol.extend(acc.out())
    return {'n': n, 'nt': nt, 'viol': viol, 'extra': extra}


# ---------------------------------------------------------------- self-checks recorded in the evidence
def conventions():
    out = {}
    # the group / ordered-basis enumeration reproduces dom.commuting_lists exactly (N<=3: 108 + 24 633 = 24 741 non-empty lists)
    total = 0
    for N in (1, 2, 3):
        for L in range(1, N + 1):
            mine = set()
            for b in groups(N, L):
                for lst in ordered_bases(b):
                    mine.add(lst)
            theirs = set(tuple(int(x) for x in l) for l in dom.commuting_lists(N, L))
            assert mine == theirs and len(mine) == dom.count_commuting_lists(N, L), (N, L)
            total += len(mine)
    out['ordered_lists_N<=3'] = total
    assert total == 24741
    out['groups_N4'] = [len(groups(4, L)) for L in range(5)]
    assert out['groups_N4'] == [1, 255, 5355, 11475, 2295]
    # the oracle reproduces textbook values
    G3 = [int(ref.gindex(ref.str_to_g(s))) for s in ('ZZI', 'IZZ', 'XXX')]
    e = oracle(3, _canon(_span(G3)))
    assert e == [0, 1, 1, 1, 1, 1, 1, 0], e
    e = oracle(3, _canon(_span([int(ref.gindex(ref.str_to_g(s))) for s in ('ZZI', 'ZIZ')])))
    assert e[1] == 1 and e[-1] == 1, e
    out['oracle_ghz3'] = True
    return out


# ---------------------------------------------------------------- legs
def _group_items(Ns_Ls, stride=1, lite=0):
    items = []
    for N, Ls in Ns_Ls:
        for L in Ls:
            for b in groups(N, L):
                items.append([N, list(b), stride, 0, lite])
    return items


def legs(tier):
    out = []
    n3 = [(1, (0, 1)), (2, (0, 1, 2)), (3, (0, 1, 2, 3))]
    nlists = lambda spec: sum(len(groups(N, L)) * GL_ORDER[L] for N, Ls in spec for L in Ls)
    it = _group_items(n3)
    out.append(Leg('lists_N123', fn_groups, it, chunk=4, src_states=nlists(n3),
                   bound='N<=3: all %d isotropic subspaces, ALL %d ordered independent commuting lists (incl. the empty list per N) x sign patterns '
                         '(all for N<=2, {+..+, alternating} for N=3) x all 2^N subsystems x formats %s; local H/S/CNOT inside/outside on every list' % (
                             len(it), nlists(n3), list(FORMATS))))
    it = [[N, list(b)] for N, Ls in n3 for L in Ls for b in groups(N, L)]
    out.append(Leg('ctor_N123', fn_ctor, it, chunk=4, src_states=nlists(n3),
                   bound='N<=3: the same %d lists x 2 sign patterns built by pyclifford.stabilizer_state, all subsystems, formats list + boolmask' % nlists(n3)))
    nm = [[name, N] for name in ('zero_state', 'one_state', 'ghz_state', 'maximally_mixed_state')
          for N in ((1, 2, 3, 4) if tier == 'quick' else (1, 2, 3, 4, 5)) if not (name == 'ghz_state' and N < 2)]
    out.append(Leg('named_states', fn_named, nm, chunk=1, bound='library constructors zero/one/ghz/maximally mixed, N<=%d, all subsystems x 4 formats' % nm[-1][1]))
    shapes = [(a, b) for a in range(1, 5) for b in range(1, 5)]
    if tier != 'quick':
        shapes += [(5, 4), (4, 5), (5, 3), (3, 5), (5, 2), (2, 5), (5, 1), (1, 5)]
    zi = []
    for nr, nc in shapes:
        tot = 2 ** (nr * nc)
        step = 4096
        for s in range(0, tot, step):
            zi.append([nr, nc, s, min(step, tot - s)])
    quick = tier == 'quick'
    from . import c05
    stab.tableaux(2)
    m2 = len(c05.get_menu(2, 'quick'))
    t2 = range(0, 34560, 1151 if quick else 97)
    litems = [[1, i, 0, 10 ** 6] for i in range(48)] + [[2, i, lo, lo + 80] for i in t2 for lo in range(0, m2, 80)]
    out.append(Leg('live_histories', fn_live, litems, chunk=2,
                   bound='entropy of all subsystems -> one in-place operation (whole C05 menu, all coin branches) -> entropy again on ONE object vs a fresh object with the same arrays: '
                         'all 48 N=1 tableaux, every %dth of the 34560 N=2 tableaux (%d)' % (1151 if quick else 97, len(list(t2)))))
    out.append(Leg('z2rank', fn_z2rank, zi, chunk=2, bound='utils.z2rank on ALL binary matrices of the shapes %s' % (shapes,)))
    if tier != 'quick':
        n4 = [(4, (0, 1, 2, 3))]
        it = _group_items(n4, lite=1)
        out.append(Leg('lists_N4_L0123', fn_groups, it, chunk=8, src_states=nlists(n4), timeout=3000,
                       bound='N=4: all isotropic subspaces of dimension <=3 (%d), ALL %d ordered lists x 1 sign pattern x 16 subsystems x formats {list, boolmask}; '
                             'local gates on every 24th ordered basis' % (len(it), nlists(n4))))
        it = [[4, list(b), 24, 0, 1] for b in groups(4, 4)]
        out.append(Leg('lists_N4_L4', fn_groups, it, chunk=2, exhaustive=False, supplementary=True, timeout=3000,
                       src_states=len(it) * GL_ORDER[4] // 24,
                       bound='N=4 pure: all 2295 Lagrangian subspaces x every 24th of the 20160 ordered bases each (capped: 840 per subspace, 1.93 M lists) x 16 subsystems x {list, boolmask}'))
    if tier == 'quick':
        # N=4 in the quick tier (capped): pure states need N>=4 for >=4 crossing generators / non-prefix regions
        it = [[4, list(b), 4032, (k * 7) % 4032, 1] for k, b in enumerate(groups(4, 4))]
        out.append(Leg('lists_N4_L4_light', fn_groups, it, chunk=16, exhaustive=False, supplementary=True, timeout=3000,
                       bound='N=4 pure: all 2295 Lagrangian subspaces x 5 ordered bases each (every 4032th, offset rotating with the subspace; capped) x 16 subsystems x {list, boolmask}'))
        import os as _os
        sd = int(_os.environ.get('VERIF_SEED', '0') or 0)
        it = [[4, list(b), GL_ORDER[len(b)], k % GL_ORDER[len(b)], 1] for k, b in enumerate(bb for L in (1, 2, 3) for bb in groups(4, L)) if k % 3 == sd % 3]
        out.append(Leg('lists_N4_mixed_light', fn_groups, it, chunk=64, exhaustive=False, supplementary=True, timeout=3000,
                       bound='N=4 mixed: every 3rd isotropic subspace of dimension 1..3 (VERIF_SEED rotates which third) x 1 ordered basis each (which one rotates with the subspace; capped) x 16 subsystems x {list, boolmask}'))
    tN = [(1, (0, 1)), (2, (0, 1, 2))] + ([(3, (0, 1, 2, 3))] if tier != 'quick' else [])
    it = [[N, list(b), 1, 0] for N, Ls in tN for L in Ls for b in groups(N, L)]
    out.append(Leg('torch_lists', fn_torch, it, chunk=2, src_states=nlists(tN),
                   bound='torchclifford N<=%d: all %d ordered lists x all subsystems x formats {list, tuple, int array, torch bool tensor}; boolean numpy mask once per group and subsystem' % (
                       tN[-1][0], nlists(tN))))
    # N=4: the smallest size at which a real-valued matrix rank (torch z2rank) can differ from the GF(2) rank
    if tier == 'quick':
        it = [[4, list(b), 168, 1] for b in groups(4, 3)]
        bound = 'torchclifford N=4 mixed (r=1): all 11475 isotropic subspaces of dimension 3, ONE ordered basis each (capped) x 16 subsystems, index-list format'
    else:
        it = [[4, list(b), 6, 1] for b in groups(4, 2)] + [[4, list(b), 24, 1] for b in groups(4, 3)] + [[4, list(b), 2016, 1] for b in groups(4, 4)]
        bound = ('torchclifford N=4: all isotropic subspaces of dimension 2 / 3 / 4 (5355 / 11475 / 2295) with 1 / 7 / 10 ordered bases each (capped) '
                 'x 16 subsystems, index-list format')
    out.append(Leg('torch_N4', fn_torch, it, chunk=24, exhaustive=False, supplementary=True, bound=bound, timeout=3000))
    return out
