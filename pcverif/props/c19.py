"""C19 Stabilizer-group sampling and classical-shadow snapshots agree with the state.

`sample(L)`, `density_matrix` and `ClassicalShadow(state, circuit).snapshots(n)` are executed on the real
code from independently enumerated tableaux (all ranks, all sign patterns, N<=2) under EVERY coin string
they consume: the python-level numpy coins of `sample`, and for the shadows the numba coins of the random
gate sampler, the numpy coins of its sign bits and the numba coins of the measurement (two-stream stateless
exploration, pcverif.props.c16.explore2).  Distributions are decided exactly by counting leaves.  The oracle
is the dense density matrix: the stabilizer group of rho is { P : Tr(rho P) = +1 }."""
import itertools
import collections
import os
import numpy as np
from .. import ref, dom, lib, rng, stab
from ..core import Leg, V
from .c16 import explore2, run_both, Harness, bits, _residual, FILL

PROP = 'C19'
RULE = ('one case = (tableau, operation, complete coin string): sample(L) under every numpy coin string, density_matrix, '
        'ClassicalShadow.snapshots(n) under every sampler / sign / measurement coin string (rejection rounds bounded); '
        'non-trivial = the group has more than one element (sample / density_matrix), resp. every snapshot leaf; '
        'states = source tableaux')
ASSUMPTIONS = ['MT19937 bits are fair and independent (a coin string of length n has weight 2^-n)',
               'bounded to N<=2 (all 48 / 34560 tableaux, or one tableau per density matrix where stated) plus a capped set of N=3 states',
               'rejection rounds of the random gate sampler inside the shadow circuits are bounded (extra coins); residual mass reported per leg',
               'ClassicalShadow is explored with state.N == circuit.N only']

_grp = {}


def group_of(gs, ps, r):
    """Reference stabilizer group of the denoted density matrix: {(gindex, p): Tr(rho P) = +1}."""
    rho = stab.rho_of(gs, ps, r)
    k = ref.rho_key(rho)
    got = _grp.get(k)
    if got is None:
        N = np.asarray(gs).shape[0] // 2
        got = set()
        for g in ref.all_g(N):
            for p in (0, 2):
                t = np.trace(rho @ ref.mat(g, p))
                if abs(t - 1) < 1e-9:
                    got.add((int(ref.gindex(g)), p))
        got = frozenset(got)
        if len(got) != 2 ** (N - int(r)):
            raise Harness('reference group of a rank-2^%d state on %d qubits has %d elements' % (r, N, len(got)))
        if len(_grp) < 200000:
            _grp[k] = got
    return got


def _raw(st):
    return (np.array(st.gs).tobytes(), str(np.asarray(st.gs).dtype), np.array(st.ps).tobytes(), str(np.asarray(st.ps).dtype), int(st.r))


def _cls(r, ps, N):
    signed = bool((np.asarray(ps)[r:N] % 4 != 0).any())
    return ('pure' if r == 0 else ('mixed' if r < N else 'maximally-mixed')) + (',signed' if signed else '')


# ------------------------------------------------------------------ sample
def _check_sample(N, gs0, ps0, r0, L, item, viol, tag):
    """whole numpy coin tree of st.sample(L); returns (#leaves, nontrivial)."""
    G = group_of(gs0, ps0, r0)
    cls = _cls(r0, ps0, N)

    def run(a, b):
        st = lib.ST(gs0, ps0, r0)
        before = _raw(st)
        rng.script((), b)
        out = st.sample(L)
        ca, cb = rng.consumed()
        if ca:
            raise Harness('sample drew %d numba coins' % ca)
        return 0, cb, (np.array(out.gs), np.array(out.ps), before == _raw(st))

    stt = {}
    by = collections.defaultdict(collections.Counter)
    try:
        for a, b, (ogs, ops, same) in explore2(run, stt):
            desc = 'sample(%d) numpy coins %s on %s' % (L, list(b), stab.describe(gs0, ps0, r0))
            if ogs.shape != (L, 2 * N) or ops.shape != (L,):
                viol.append(V('C19/%s/shape/%s' % (tag, cls), item, '%s returned shapes %s %s' % (desc, ogs.shape, ops.shape)))
                return stt['leaves'], True
            elems = tuple((int(ref.gindex(ogs[k])), int(ops[k]) % 4) for k in range(L))
            bad = [k for k in range(L) if elems[k] not in G]
            if bad:
                k = bad[0]
                val = np.trace(stab.rho_of(gs0, ps0, r0) @ ref.mat(ogs[k], int(ops[k])))
                kind = 'wrong-sign' if (elems[k][0], (elems[k][1] + 2) % 4) in G else 'not-in-group'
                viol.append(V('C19/%s/%s/%s' % (tag, kind, cls), item,
                              '%s: sampled operator %s has Tr(rho P) = %s, not +1' % (desc, ref.g_to_str(ogs[k], int(ops[k])), complex(val)),
                              complex(val), 1))
                return stt['leaves'], True
            if not same:
                viol.append(V('C19/%s/receiver-changed/%s' % (tag, cls), item, '%s modified the state' % desc))
                return stt['leaves'], True
            by[len(b)][elems] += 1
    except Harness:
        raise
    except Exception as e:
        viol.append(V('C19/%s/raises-%s/%s' % (tag, type(e).__name__, cls), item,
                      'sample(%d) on %s raised %s: %s' % (L, stab.describe(gs0, ps0, r0), type(e).__name__, e)))
        return 1, True
    # uniform over G^L: every L-tuple of group elements by equally many leaves of each coin class
    want = len(G) ** L
    for ncoins, cnt in by.items():
        vals = set(cnt.values())
        if len(cnt) != want or len(vals) != 1:
            viol.append(V('C19/%s/not-uniform/%s' % (tag, cls), item,
                          'sample(%d) on %s: %d coin strings of %d coins give %d distinct %d-tuples of group elements (group order %d, expected %d tuples, '
                          'equally often); counts %s' % (L, stab.describe(gs0, ps0, r0), sum(cnt.values()), ncoins, len(cnt), L, len(G), want, sorted(vals)[:4]),
                          {'distinct': len(cnt), 'counts': sorted(vals)[:4]}, {'distinct': want}))
            break
    return stt['leaves'], len(G) > 1 and L > 0


def fn_sample(items):
    """item = [N, idx, L]: tableau idx (independent enumeration), sample(L) under all numpy coin strings."""
    n = nt = 0
    viol = []
    samples = []
    for item in items:
        N, idx, L = item
        gs0, ps0, r0 = stab.tableaux(N)[idx]
        runs, nontriv = _check_sample(N, gs0, ps0, r0, L, item, viol, 'sample')
        n += runs
        nt += runs if nontriv else 0
        if not samples and r0 < N and L:
            samples.append({'N': N, 'tableau': stab.describe(gs0, ps0, r0), 'L': L, 'coin_strings': runs, 'group_order': 2 ** (N - r0)})
    return {'n': n, 'nt': nt, 'viol': viol, 'samples': samples}


# ------------------------------------------------------------------ density_matrix
def _check_density(N, gs0, ps0, r0, item, viol, tag):
    G = group_of(gs0, ps0, r0)
    cls = _cls(r0, ps0, N)
    st = lib.ST(gs0, ps0, r0)
    before = _raw(st)
    rng.script((), ())
    try:
        dm = st.density_matrix
    except Exception as e:
        viol.append(V('C19/%s/raises-%s/%s' % (tag, type(e).__name__, cls), item,
                      'density_matrix of %s raised %s: %s' % (stab.describe(gs0, ps0, r0), type(e).__name__, e)))
        return
    if rng.consumed() != (0, 0):
        raise Harness('density_matrix drew coins')
    desc = 'density_matrix of %s' % (stab.describe(gs0, ps0, r0),)
    dgs, dps, dcs = np.asarray(dm.gs), np.asarray(dm.ps), np.asarray(dm.cs)
    if dgs.ndim != 2 or dgs.shape[1] != 2 * N or dps.shape != (dgs.shape[0],) or dcs.shape != (dgs.shape[0],):
        viol.append(V('C19/%s/shape/%s' % (tag, cls), item, '%s: shapes %s %s %s' % (desc, dgs.shape, dps.shape, dcs.shape)))
        return
    seen = collections.Counter()
    for k in range(dgs.shape[0]):
        z = complex(dcs[k]) * ref.IPOW[int(dps[k]) % 4] * 2 ** N          # term = z * 2^-N * sigma[g]
        if abs(abs(z) - 1) > 1e-9:
            viol.append(V('C19/%s/weight/%s' % (tag, cls), item, '%s: term %s has weight |c| = %r, expected 2^-%d' % (
                desc, ref.g_to_str(dgs[k]), abs(complex(dcs[k])), N), abs(complex(dcs[k])), 2.0 ** -N))
            return
        if abs(z - 1) < 1e-9:
            p = 0
        elif abs(z + 1) < 1e-9:
            p = 2
        else:
            viol.append(V('C19/%s/not-hermitian-term/%s' % (tag, cls), item, '%s: term %s has a non-real coefficient' % (desc, ref.g_to_str(dgs[k]))))
            return
        e = (int(ref.gindex(dgs[k])), p)
        if e not in G:
            kind = 'wrong-sign' if (e[0], (p + 2) % 4) in G else 'not-in-group'
            viol.append(V('C19/%s/%s/%s' % (tag, kind, cls), item, '%s: term %s is not an element of the stabilizer group' % (desc, ref.g_to_str(dgs[k], p))))
            return
        seen[e] += 1
    if set(seen) != set(G) or any(c != 1 for c in seen.values()):
        viol.append(V('C19/%s/not-every-element-once/%s' % (tag, cls), item,
                      '%s: %d terms, %d distinct group elements, group order %d' % (desc, dgs.shape[0], len(seen), len(G)),
                      {'terms': int(dgs.shape[0]), 'distinct': len(seen)}, {'terms': len(G), 'distinct': len(G)}))
        return
    dense = np.zeros((2 ** N, 2 ** N), dtype=complex)
    for k in range(dgs.shape[0]):
        dense = dense + complex(dcs[k]) * ref.mat(dgs[k], int(dps[k]))
    if not np.allclose(dense, stab.rho_of(gs0, ps0, r0), atol=1e-9):
        viol.append(V('C19/%s/matrix/%s' % (tag, cls), item, '%s: polynomial as a matrix differs from rho' % desc))
        return
    if before != _raw(st):
        viol.append(V('C19/%s/receiver-changed/%s' % (tag, cls), item, '%s modified the state' % desc))


def fn_density(items):
    """item = [N, idx]: st.density_matrix on tableau idx."""
    n = nt = 0
    viol = []
    samples = []
    for item in items:
        N, idx = item
        gs0, ps0, r0 = stab.tableaux(N)[idx]
        _check_density(N, gs0, ps0, r0, item, viol, 'density_matrix')
        n += 1
        nt += int(r0 < N)
        if not samples and idx % 211 == 100:
            samples.append({'N': N, 'tableau': stab.describe(gs0, ps0, r0), 'terms': 2 ** (N - r0)})
    return {'n': n, 'nt': nt, 'viol': viol, 'samples': samples}


# ------------------------------------------------------------------ density_matrix with many active stabilizers
def _signed_large(kind, N, r, signs):
    """a library-built N-qubit state (zero / ghz / ghz rotated by one global generator), rank set to r, sign pattern
    `signs` (bit k flips active row r+k)."""
    pc = lib.pc
    st = pc.zero_state(N) if kind == 'zero' else pc.ghz_state(N)
    if kind == 'ghz-rotated':
        st.rotate_by(pc.pauli('XYZ' * (N // 3) + 'X' * (N % 3)))
    gs, ps = np.array(st.gs), np.array(st.ps)
    for k in range(N - r):
        if (signs >> k) & 1:
            ps[r + k] = (ps[r + k] + 2) % 4
    return gs, ps, r


def fn_density_large(items):
    """item = [kind, N, r, signs]: density_matrix of a state with N-r >= 8 active stabilizers.  The reference group is
    built by multiplying the active rows with the reference product (Gray-code walk over all 2^(N-r) subsets); the
    expansion must list exactly these signed strings, each once, with weight 2^-N."""
    n = nt = 0
    viol = []
    for item in items:
        kind, N, r, signs = item
        gs0, ps0, r0 = _signed_large(kind, N, r, signs)
        act_g, act_p = gs0[r0:N].astype(np.int64), ps0[r0:N].astype(np.int64) % 4
        m = N - r0
        refset = {}
        g, p = np.zeros(2 * N, dtype=np.int64), 0
        refset[g.tobytes()] = 0
        for k in range(1, 2 ** m):
            j = (k & -k).bit_length() - 1                  # Gray code: toggle generator j
            g, p = ref.mul(g, p, act_g[j], act_p[j])
            g, p = np.asarray(g, dtype=np.int64).reshape(-1), int(p) % 4
            refset[g.tobytes()] = p
        if len(refset) != 2 ** m or any(q not in (0, 2) for q in refset.values()):
            raise Harness('reference group of %s(%d) r=%d malformed' % (kind, N, r0))
        st = lib.ST(gs0, ps0, r0)
        before = _raw(st)
        n += 1
        nt += 1
        desc = 'density_matrix of %s_state(%d) with r=%d, sign pattern %s on the active rows' % (kind, N, r0, bin(signs))
        try:
            dm = st.density_matrix
        except Exception as e:
            viol.append(V('C19/density_matrix-large/raises-%s' % type(e).__name__, item, '%s raised %s: %s' % (desc, type(e).__name__, e)))
            continue
        dgs, dps, dcs = np.asarray(dm.gs).astype(np.int64), np.asarray(dm.ps), np.asarray(dm.cs)
        seen = {}
        problem = None
        for k in range(dgs.shape[0]):
            z = complex(dcs[k]) * ref.IPOW[int(dps[k]) % 4] * 2.0 ** N
            if abs(abs(z) - 1) > 1e-9:
                problem = ('weight', 'term %d has weight %r, expected 2^-%d' % (k, abs(complex(dcs[k])), N))
                break
            if abs(z.imag) > 1e-9:
                problem = ('not-hermitian-term', 'term %s has a non-real coefficient' % ref.g_to_str(dgs[k]))
                break
            key = dgs[k].tobytes()
            want = refset.get(key)
            if want is None:
                problem = ('not-in-group', 'term %s is not an element of the stabilizer group' % ref.g_to_str(dgs[k]))
                break
            if (0 if z.real > 0 else 2) != want:
                problem = ('wrong-sign', 'term %s has the wrong sign' % ref.g_to_str(dgs[k]))
                break
            seen[key] = seen.get(key, 0) + 1
        if problem is None and (len(seen) != len(refset) or dgs.shape[0] != len(refset)):
            problem = ('not-every-element-once', '%d terms, %d distinct group elements, group order %d' % (dgs.shape[0], len(seen), len(refset)))
        if problem is None and before != _raw(st):
            problem = ('receiver-changed', 'the state was modified')
        if problem is not None:
            viol.append(V('C19/density_matrix-large/%s' % problem[0], item, '%s: %s' % (desc, problem[1])))
    return {'n': n, 'nt': nt, 'viol': viol}


# ------------------------------------------------------------------ N=3 supplement
_N3 = {}


def _n3(budget):
    if budget not in _N3:
        from .c06 import _n3_states
        base = _n3_states(budget, 0)
        out = []
        for i, (gs, ps, r) in enumerate(base):
            ps = np.array(ps).copy()
            # the BFS set is mostly unsigned; give every second state a sign pattern on its rows (any Hermitian
            # sign pattern on a valid tableau is a valid tableau)
            if i % 2:
                for k in range(6):
                    if (i >> (k % 5)) & 1 or k == i % 3:
                        ps[k] = (ps[k] + 2) % 4
            out.append((np.array(gs), ps, int(r)))
        _N3[budget] = out
    return _N3[budget]


def fn_n3(items):
    """item = [budget, i, L]: i-th state of a deterministic N=3 BFS set (signed variants included): sample(L) and
    density_matrix."""
    n = nt = 0
    viol = []
    for item in items:
        budget, i, L = item
        gs0, ps0, r0 = _n3(budget)[i]
        if stab.state_check(lib.ST(gs0, ps0, r0), 3):
            raise Harness('N=3 source state invalid')
        runs, nontriv = _check_sample(3, gs0, ps0, r0, L, item, viol, 'sample-N3')
        n += runs
        nt += runs if nontriv else 0
        _check_density(3, gs0, ps0, r0, item, viol, 'density_matrix-N3')
        n += 1
    return {'n': n, 'nt': nt, 'viol': viol}


# ------------------------------------------------------------------ classical shadows
def _fixed_unitary(N):
    """reference unitary of the fixed circuit (gate order = forward order)."""
    if N == 1:
        return ref.U_S @ ref.U_H                      # H then S
    U = ref.embed_1q(ref.U_H, 1, N) @ ref.embed_1q(ref.U_S, 1, N) @ ref.u_cnot(0, 1, N) @ ref.embed_1q(ref.U_H, 0, N)
    if N == 3:                                        # ... then CNOT(1,2), H(2)
        U = ref.embed_1q(ref.U_H, 2, 3) @ ref.u_cnot(1, 2, 3) @ U
    return U


def _mk_circuit(name, N):
    pc = lib.pc
    if name == 'onsite_rcc':
        return pc.onsite_rcc(N)
    if name == 'global_rcc':
        return pc.global_rcc(N)
    if name == 'brickwall_rcc':
        return pc.brickwall_rcc(N, 1)
    if name in ('fixed', 'fixedC'):
        c = pc.identity_circuit(N) if name == 'fixed' else pc.Circuit(N)
        c.take(pc.H(0))
        if N == 1:
            c.take(pc.S(0))
        else:
            c.take(pc.CNOT(0, 1))
            c.take(pc.S(1))
            c.take(pc.H(1))
            if N == 3:
                c.take(pc.CNOT(1, 2))
                c.take(pc.H(2))
        return c
    raise Harness(name)


def _sampler_base(name, N):
    if name in ('fixed', 'fixedC'):
        return 0
    if name == 'onsite_rcc':
        return 4 * N
    return sum(4 * k for k in range(1, N + 1))


def fn_shadow(items):
    """item = [N, idx, circuit, nsample, prefixA, prefixB, max_extra]: ClassicalShadow(tableau idx, circuit).snapshots(nsample)
    under every coin string below the prefixes (stream A = numba: gate sampler + measurement coins; stream B = numpy: sign
    bits of the sampled maps).  Per snapshot: valid tableau (C05 invariant); Tr(snapshot*base) != 0; for every stabilizer
    string g of the back-evolved computational basis (circuit.backward(zero_state) replayed on the coin segment the snapshot
    consumed) Tr(snapshot * sigma[g]) = +-1; fixed circuit: that basis equals U^dag |0><0| U of the reference unitary.
    Afterwards the base state is bit-identical."""
    n = nt = 0
    viol = []
    extra = {}
    samples = []
    for item in items:
        N, idx, name, nsample, prefixA, prefixB, max_extra = item
        if N == 3:                       # idx = [budget, i]: i-th state of the deterministic N=3 set (signed variants included)
            gs0, ps0, r0 = _n3(idx[0])[idx[1]]
        else:
            gs0, ps0, r0 = stab.tableaux(N)[idx]
        cls = _cls(r0, ps0, N)
        rho0 = stab.rho_of(gs0, ps0, r0)
        where = 'shadow/%s' % name

        def body():
            base = lib.ST(gs0, ps0, r0)
            before = _raw(base)
            circ = _mk_circuit(name, N)
            sh = lib.pc.ClassicalShadow(base, circ)
            gen = sh.snapshots(nsample)
            marks = [rng.consumed()]
            snaps = []
            for s in gen:
                marks.append(rng.consumed())
                snaps.append(s)
            return (snaps, marks, before == _raw(base), base)

        stt = {}
        pcache = {}
        plens = set()

        def replay_povm(aseg, bseg):
            # the back-evolved basis is a function of the coins its computation consumes: memoise on that prefix
            for (la, lb) in plens:
                got = pcache.get((aseg[:la], bseg[:lb]))
                if got is not None and len(aseg) >= la and len(bseg) >= lb:
                    return got
            rng.script(aseg, bseg)
            povm = _mk_circuit(name, N).backward(lib.pc.zero_state(N))
            la, lb = rng.consumed()
            if la > len(aseg) or lb > len(bseg):
                raise Harness('replay of circuit.backward(zero_state) consumed more coins (%d,%d) than the snapshot segment (%d,%d)' % (la, lb, len(aseg), len(bseg)))
            if len(pcache) > 60000:
                pcache.clear()
            plens.add((la, lb))
            pcache[(aseg[:la], bseg[:lb])] = povm
            return povm

        base_coins = nsample * _sampler_base(name, N)
        # measurement coins: at most N per snapshot, on top of the sampler coins
        max_a = None if name in ('fixed', 'fixedC') else base_coins + nsample * N + max_extra
        problem = None
        try:
            for a, b, (snaps, marks, same, base) in explore2(run_both(body), stt, rootA=tuple(prefixA), rootB=tuple(prefixB), max_a=max_a):
                n += 1
                nt += 1
                if problem is not None:
                    continue
                desc = 'ClassicalShadow(%s, %s(%d)).snapshots(%d), numba coins %s, numpy coins %s' % (
                    stab.describe(gs0, ps0, r0), name, N, nsample, list(a), list(b))
                if len(snaps) != nsample:
                    problem = ('count', '%s yielded %d snapshots' % (desc, len(snaps)))
                    continue
                if not same:
                    problem = ('base-state-changed', '%s: the base state was modified (now %s)' % (desc, stab.describe(base.gs, base.ps, int(base.r))))
                    continue
                for k, s in enumerate(snaps):
                    if s is base:
                        problem = ('snapshot-is-base', '%s: snapshot %d is the base state object itself' % (desc, k))
                        break
                    bad = stab.state_check(s, N)
                    if bad:
                        problem = ('snapshot-invalid', '%s: snapshot %d invalid: %s' % (desc, k, bad))
                        break
                    rs = stab.rho_of(s.gs, s.ps, s.r)
                    ov = float(np.trace(rs @ rho0).real)
                    if ov < 1e-9:
                        problem = ('zero-overlap', '%s: snapshot %d = %s has Tr(snapshot*base) = %r' % (desc, k, stab.describe(s.gs, s.ps, int(s.r)), ov))
                        break
                    # replay the back-evolved basis on the coin segment of this snapshot
                    ca, cb = marks[k]
                    povm = replay_povm(a[ca:marks[k + 1][0]], b[cb:marks[k + 1][1]])
                    badp = stab.state_check(povm, N)
                    if badp or int(povm.r) != 0:
                        problem = ('povm-invalid', '%s: back-evolved basis invalid: %s' % (desc, badp or 'r=%r' % povm.r))
                        break
                    pg = np.asarray(povm.gs)[:N]
                    vals = [np.trace(rs @ ref.mat(pg[j], 0)) for j in range(N)]
                    if any(abs(abs(v) - 1) > 1e-9 for v in vals):
                        problem = ('not-stabilized-by-povm', '%s: snapshot %d = %s is not stabilized up to sign by the back-evolved basis %s' % (
                            desc, k, stab.describe(s.gs, s.ps, int(s.r))['active_stab'], [ref.g_to_str(pg[j]) for j in range(N)]))
                        break
                    if name in ('fixed', 'fixedC'):
                        U = _fixed_unitary(N)
                        z0 = np.zeros((2 ** N, 2 ** N), dtype=complex)
                        z0[0, 0] = 1
                        if not np.allclose(stab.rho_of(povm.gs, povm.ps, povm.r), U.conj().T @ z0 @ U, atol=1e-9):
                            problem = ('povm-not-back-evolved-basis', '%s: circuit.backward(zero_state) is not U^dag|0><0|U' % desc)
                            break
                        D = U @ rs @ U.conj().T
                        if not (np.allclose(D, np.diag(np.diag(D)), atol=1e-9) and abs(np.abs(np.diag(D)).max() - 1) < 1e-9):
                            problem = ('not-stabilized-by-povm', '%s: snapshot %d is not a back-evolved computational basis state' % (desc, k))
                            break
        except Harness:
            raise
        except Exception as e:
            problem = ('raises-%s' % type(e).__name__, 'ClassicalShadow(%s, %s(%d)).snapshots(%d) raised %s: %s' % (
                stab.describe(gs0, ps0, r0), name, N, nsample, type(e).__name__, e))
        if problem is not None:
            viol.append(V('C19/%s/%s/%s' % (where, problem[0], cls), item, problem[1]))
        k = 'shadow_%s_N%d' % (name, N)
        extra[k + '_leaves'] = extra.get(k + '_leaves', 0) + stt.get('leaves', 0)
        extra[k + '_truncated_subtrees'] = extra.get(k + '_truncated_subtrees', 0) + stt.get('truncated', 0)
        if not samples and name not in ('fixed', 'fixedC') and stt.get('leaves'):
            samples.append({'N': N, 'base': stab.describe(gs0, ps0, r0), 'circuit': name, 'nsample': nsample, 'leaves': stt['leaves'],
                            'max_numba_coins': stt['max_a'], 'numpy_coins': stt['max_b'],
                            'residual_mass_of_subtree': _residual(stt, tuple(prefixA), tuple(prefixB))})
    return {'n': n, 'nt': nt, 'viol': viol, 'extra': extra, 'samples': samples}


# ------------------------------------------------------------------ legs
def _subset(reps, k):
    """deterministic spread of k representatives (keeps first and last)."""
    if k >= len(reps):
        return list(reps)
    step = (len(reps) - 1) / float(k - 1)
    return sorted(set(reps[int(round(i * step))] for i in range(k)))


# ------------------------------------------------------------------ torchclifford: sample / density_matrix
def _torch_pool19(N, seed):
    if N == 3:
        from . import c06
        if 402 not in c06._N3:
            c06._N3[402] = c06._n3_states(402, 0)
        return c06._N3[402][seed % 9::9]
    T = stab.tableaux(N)
    return [T[i] for i in (range(len(T)) if N == 1 else stab.representatives(N, seed))]


def fn_torch19(items):
    """item = [seed, N, i]: torchclifford state built from the i-th pool tableau.  density_matrix: exactly 2^(N-r) terms,
    pairwise different strings, each of weight 2^-N, dense sum = rho.  sample(L) for L = 1, 2 under EVERY scripted
    torch.randint stream ((N-r)*L coins): every sampled operator has a Hermitian sign and Tr(rho P) = +1; for L = 1 the
    2^(N-r) streams give 2^(N-r) different group elements (uniform); the state is unchanged."""
    n = nt = 0
    viol = []
    m = lib.torch_mods()
    torch = m['torch']
    for seed, N, i in items:
        item = [seed, N, i]
        gs0, ps0, r0 = _torch_pool19(N, seed)[i]
        rho_m = stab.rho_of(gs0, ps0, r0)
        k = N - r0
        desc = stab.describe(gs0, ps0, r0)
        st = lib.tST(gs0, ps0, r0)
        key0 = (lib.t2n(st.gs).tobytes(), lib.t2n(st.ps).tobytes(), int(st.r))
        # density_matrix
        try:
            dm = st.density_matrix
            dg, dp = lib.t2n(dm.gs).reshape(-1, 2 * N), np.atleast_1d(lib.t2n(dm.ps))
            dc = np.atleast_1d(dm.cs.detach().numpy())
            n += 1
            nt += int(k > 0)
            if dg.shape[0] != 2 ** k or len({row.tobytes() for row in dg}) != dg.shape[0]:
                viol.append(V('C19/torch/density_matrix/terms', item, 'torch density_matrix of %s has %d terms (%d distinct strings), the group has %d elements' % (
                    desc, dg.shape[0], len({row.tobytes() for row in dg}), 2 ** k)))
            elif any(abs(abs(complex(c)) - 2.0 ** -N) > 1e-6 for c in dc):
                viol.append(V('C19/torch/density_matrix/weight', item, 'torch density_matrix of %s: a term does not have weight 2^-%d' % (desc, N)))
            else:
                tot = sum(complex(c) * ref.mat(g, int(p) % 4) for g, p, c in zip(dg, dp, dc))
                if not np.allclose(tot, rho_m, atol=1e-6):
                    viol.append(V('C19/torch/density_matrix/value', item, 'torch density_matrix of %s does not sum to rho (a sign or an element is wrong)' % (desc,)))
        except Exception as e:
            viol.append(V('C19/torch/density_matrix/raises-%s' % type(e).__name__, item, 'torch density_matrix of %s raised %s' % (desc, e)))
        # sample under every coin stream
        for L in (1, 2):
            if k * L > 6:
                continue
            seen = {}
            for coins in itertools.product((0, 1), repeat=k * L):
                calls = []

                def fake(*args, **kw):
                    if len(args) != 3 or args[0] != 0 or args[1] != 2:
                        raise Harness('unexpected torch.randint call %r' % (args,))
                    size = tuple(int(x) for x in args[2])
                    cnt = int(np.prod(size)) if size else 1
                    vals = [coins[j] if j < len(coins) else 1 for j in range(len(calls), len(calls) + cnt)]
                    calls.extend(vals)
                    return torch.tensor(vals, dtype=torch.int64).reshape(size)
                orig = torch.randint
                torch.randint = fake
                try:
                    out = st.sample(L)
                except Harness:
                    raise
                except Exception as e:
                    viol.append(V('C19/torch/sample/raises-%s' % type(e).__name__, item, 'torch sample(%d) on %s raised %s' % (L, desc, e)))
                    break
                finally:
                    torch.randint = orig
                n += 1
                nt += int(k > 0)
                og, op = lib.t2n(out.gs).reshape(-1, 2 * N), np.atleast_1d(lib.t2n(out.ps))
                if og.shape[0] != L or len(calls) != k * L:
                    viol.append(V('C19/torch/sample/shape-or-coins', item, 'torch sample(%d) on %s: %d operators, %d coins drawn (expected %d, %d)' % (
                        L, desc, og.shape[0], len(calls), L, k * L)))
                    break
                okk = True
                for g, p_ in zip(og, op):
                    if int(p_) != p_ or int(p_) % 4 not in (0, 2) or abs(np.trace(rho_m @ ref.mat(g, int(p_) % 4)).real - 1) > 1e-9:
                        viol.append(V('C19/torch/sample/not-a-stabilizer', item, 'torch sample(%d) on %s under coins %s returned %s: not an element of the stabilizer group with expectation +1' % (
                            L, desc, list(coins), ref.g_to_str(g, int(p_) % 4) if int(p_) == p_ else (g.tolist(), float(p_)))))
                        okk = False
                        break
                if not okk:
                    break
                if L == 1:
                    kk = og[0].tobytes()
                    if kk in seen:
                        viol.append(V('C19/torch/sample/not-uniform', item, 'torch sample(1) on %s: coin streams %s and %s give the same group element' % (desc, seen[kk], list(coins))))
                        break
                    seen[kk] = list(coins)
        if (lib.t2n(st.gs).tobytes(), lib.t2n(st.ps).tobytes(), int(st.r)) != key0:
            viol.append(V('C19/torch/state-changed', item, 'density_matrix / sample changed the torch state %s' % (desc,)))
    return {'n': n, 'nt': nt, 'viol': viol}


def legs(tier, for_replay=False):
    quick = tier == 'quick'
    seed = int(os.environ.get('VERIF_SEED', '0') or 0)
    for N in (1, 2):
        stab.tableaux(N)
        stab.valid_keyset(N)
    reps = {1: stab.representatives(1, seed), 2: stab.representatives(2, seed)}
    out = []
    # sample
    it = [[1, i, L] for i in range(48) for L in (0, 1, 2, 3)]
    it += [[2, i, 1] for i in range(34560)]
    out.append(Leg('sample_all', fn_sample, it, chunk=120, src_states=48 + 34560,
                   bound='all 48 tableaux of N=1 with L<=3 and all 34560 tableaux of N=2 with L=1: every numpy coin string'))
    if quick:
        it = [[2, i, L] for i in reps[2] for L in (0, 2)]
        out.append(Leg('sample_L2', fn_sample, it, chunk=4, src_states=len(reps[2]),
                       bound='one tableau per density matrix (91; VERIF_SEED rotates the representative), L=0 and L=2: every coin string'))
    else:
        it = [[2, i, 2] for i in range(34560)] + [[2, i, L] for i in reps[2] for L in (0, 3)]
        out.append(Leg('sample_L2', fn_sample, it, chunk=120, src_states=34560,
                       bound='all 34560 tableaux of N=2 with L=2; one tableau per density matrix with L=0 and L=3: every coin string'))
    # density_matrix
    it = [[1, i] for i in range(48)] + [[2, i] for i in range(34560)]
    out.append(Leg('density_matrix', fn_density, it, chunk=240, src_states=48 + 34560, bound='all tableaux N<=2'))
    it = [[k, N, r, sg] for (k, N, r) in (('zero', 8, 0), ('ghz', 9, 0), ('ghz-rotated', 9, 0), ('ghz', 10, 1), ('ghz-rotated', 10, 0), ('zero', 11, 2)) for sg in (0, 0b101101011 % (2 ** (N - r)))]
    if not quick:
        it += [[k, N, r, sg] for (k, N, r) in (('ghz-rotated', 11, 0), ('ghz-rotated', 12, 1), ('ghz', 12, 0)) for sg in (0, 0b11010110101 % (2 ** (N - r)))]
    out.append(Leg('density_matrix_large', fn_density_large, it, chunk=1, exhaustive=False, supplementary=True,
                   bound='density_matrix of zero / GHZ / rotated GHZ states with 8..%d active stabilizers (N up to %d), two sign patterns each: the expansion against the reference group '
                         'built with the reference product (more than 256 combinations: the binary expansion of the combination index needs more than one byte)' % ((11, 11) if quick else (12, 12))))
    # N=3 supplement
    b3 = 60 if quick else 600
    if not for_replay:
        _n3(b3)          # computed before the workers fork
    out.append(Leg('N3', fn_n3, [[b3, i, L] for i in range(b3) for L in (1, 2)], chunk=4, exhaustive=False, supplementary=True,
                   bound='%d N=3 states from a deterministic BFS (half of them with sign patterns), sample(L<=2) under every coin string and density_matrix' % b3))
    # shadows: fixed circuits
    it = [[1, i, c, 1, [], [], 0] for i in range(48) for c in ('fixed', 'fixedC')]
    it += [[1, i, 'fixed', 2, [], [], 0] for i in range(48)]
    it += [[2, i, c, n_, [], [], 0] for i in reps[2] for (c, n_) in (('fixed', 1), ('fixedC', 1), ('fixed', 2))]
    out.append(Leg('shadow_fixed', fn_shadow, it, chunk=12, src_states=48 + len(reps[2]),
                   bound='fixed circuit (N=1: H,S; N=2: H0,CNOT01,S1,H1; CliffordCircuit and Circuit classes), nsample 1 and 2, on all 48 tableaux of N=1 and '
                         'one tableau per density matrix of N=2 (91): every measurement coin string'))
    it = [[3, [b3, i], c, 1, [], [], 0] for i in range(b3 if quick else 300) for c in (('fixed',) if i % 4 else ('fixed', 'fixedC'))]
    out.append(Leg('shadow_fixed_N3', fn_shadow, it, chunk=4, exhaustive=False, supplementary=True,
                   bound='fixed circuit H0,CNOT01,S1,H1,CNOT12,H2 on %d N=3 states of every rank (deterministic BFS set, half of them signed): every measurement coin string' % (b3 if quick else 300)))
    stride = 16 if quick else 1
    it = [[2, i, 'fixed', 1, [], [], 0] for i in range(seed % stride, 34560, stride)]
    out.append(Leg('shadow_fixed_all', fn_shadow, it, chunk=60, src_states=len(it), exhaustive=not quick, supplementary=quick,
                   bound='fixed circuit on %s of N=2: every measurement coin string' % ('every 16th tableau (capped in quick)' if quick else 'all 34560 tableaux')))
    # shadows: random circuits N=1
    it = []
    for i in reps[1]:
        it.append([1, i, 'onsite_rcc', 1, [], [], 4])
        it.append([1, i, 'global_rcc', 1, [], [], 4])
    for i in (reps[1][::3] if quick else reps[1]):
        it.append([1, i, 'onsite_rcc', 2, [], [], 0])
    if not quick:
        it += [[1, i, 'global_rcc', 1, [], [], 4] for i in range(48)]
    out.append(Leg('shadow_random_N1', fn_shadow, it, chunk=1, src_states=len(reps[1]),
                   bound='N=1, one tableau per density matrix (7): onsite_rcc / global_rcc, every sampler, sign and measurement coin string (+4 coins of '
                         'rejection); nsample=2 with rejection-free sampler coins on %s' % ('3 of the 7' if quick else 'all 7; global_rcc also on all 48 tableaux')))
    # shadows: random circuits N=2
    it = []
    for j, i in enumerate(reps[2]):
        for k in (((5, 10)[j % 2],) if quick else range(16)):
            it.append([2, i, 'onsite_rcc', 1, [], list(bits(k, 4)), 0])
    out.append(Leg('shadow_onsite_N2', fn_shadow, it, chunk=1, src_states=len(reps[2]), exhaustive=not quick, supplementary=quick, timeout=3000,
                   bound='N=2 onsite_rcc on one tableau per density matrix (91) x %s sign strings x every rejection-free sampler coin string (mass 0.56) x every '
                         'measurement coin string' % ('1 of 16 (capped in quick)' if quick else 'all 16')))
    it = [[1, reps[1][0], 'global_rcc', 1, [], [], 0]]      # cheap head item: the runner replays the first item twice in the parent
    nglob = 8 if quick else len(reps[2])
    sub = _subset(reps[2], nglob)
    for j, i in enumerate(sub):
        for k in (((6, 9)[j % 2],) if quick else (6, 9)):
            it.append([2, i, 'global_rcc', 1, [], list(bits(k, 4)), 0])
    if not quick:
        for i in _subset(reps[2], 16):
            for k in (0, 3, 12, 15):
                it.append([2, i, 'global_rcc', 1, [], list(bits(k, 4)), 0])
    nbw = 2 if quick else 16
    for i in _subset(reps[2], nbw):
        it.append([2, i, 'brickwall_rcc', 1, [], list(bits(9, 4)), 0])
    out.append(Leg('shadow_global_N2', fn_shadow, it, chunk=1, src_states=len(sub), exhaustive=False, supplementary=True, timeout=3000,
                   bound=('N=2 global_rcc on %d of the 91 representatives x %s of the 16 sign strings%s, brickwall_rcc(2,1) on %d representatives x 1 sign string: '
                          'every rejection-free sampler coin string (mass 0.70) x every measurement coin string (capped: sign strings and base states)' % (
                              len(sub), '1' if quick else '2', '' if quick else ' (+4 more sign strings on 16 representatives)', nbw))))
    sd = int(os.environ.get('VERIF_SEED', '0') or 0)
    tit = [[sd, N, i] for N in (1, 2, 3) for i in range(len(_torch_pool19(N, sd)))]
    out.append(Leg('torch_sample_density', fn_torch19, tit, chunk=4, exhaustive=False, supplementary=True,
                   bound='torchclifford: 48 (N=1) + 91 (N=2) + %d (N=3) pool tableaux of every rank: density_matrix (term count, distinct strings, weights, dense sum = rho); sample(1), sample(2) under every scripted torch.randint stream: group membership with sign, uniformity for L=1; state unchanged' % len(_torch_pool19(3, sd))))
    return out
