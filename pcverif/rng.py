"""Coin scheduler: owns numba's and numpy's Mersenne-Twister so that the k-th random
bit the library draws is the k-th scripted coin (DESIGN.md 2.4)."""
import numpy as np
from numba import _helperlib as H

_ptr = None


def refresh():
    """(Re)fetch the per-thread numba RNG pointer; call in every forked worker."""
    global _ptr
    _ptr = H.rnd_get_np_state_ptr()


def _untemper(y):
    y ^= y >> 18
    y ^= (y << 15) & 0xefc60000
    x = y
    for _ in range(5):
        x = y ^ ((x << 7) & 0x9d2c5680)
    y = x & 0xffffffff
    x = y
    for _ in range(3):
        x = y ^ (x >> 11)
    return x & 0xffffffff


ONE = _untemper(0xffffffff)
MAXC = 624


_wcache = {}
_acache = {}


def _words(coins, filler):
    k = (tuple(coins), filler)
    w = _wcache.get(k)
    if w is None:
        assert len(coins) <= MAXC
        w = [ONE if c else 0 for c in coins] + [ONE if filler else 0] * (MAXC - len(coins))
        if len(_wcache) < 4096:
            _wcache[k] = w
    return w


def script(coins_numba=(), coins_numpy=(), filler=1):
    """Force both generators.  After the scripted prefix every further bit is `filler`
    (1 by default: every rejection loop in the library waits for a non-zero draw)."""
    if _ptr is None:
        refresh()
    H.rnd_set_state(_ptr, (0, _words(coins_numba, filler)))
    if coins_numpy is not None:
        k = (tuple(coins_numpy), filler)
        a = _acache.get(k)
        if a is None:
            a = np.array(_words(coins_numpy, filler), dtype=np.uint32)
            if len(_acache) < 4096:
                _acache[k] = a
        np.random.set_state(('MT19937', a, 0))


def consumed():
    """(coins consumed by numba kernels, coins consumed by python-level numpy.random)."""
    return H.rnd_get_state(_ptr)[0], int(np.random.get_state()[2])


def explore(run, max_extra=None, filler=1, which='numba', max_leaves=10 ** 7):
    """Stateless depth-first enumeration of every coin string the code consumes.

    run(coins) -> (n_consumed, result): executes the library under `coins` (+filler).
    Yields (coins_tuple, result) for every leaf (complete coin string).  A leaf's coin
    string has exactly n_consumed entries.  Branches on each position actually consumed.
    `max_extra`: bound on coins beyond the shortest (all-filler) run; leaves longer than
    that are reported with result=None ('truncated').
    """
    base_n, base_res = run(())
    limit = None if max_extra is None else base_n + max_extra
    stack = [((), base_n, base_res)]
    leaves = 0
    while stack:
        prefix, n, res = stack.pop()
        coins = tuple(prefix) + (filler,) * (n - len(prefix))
        leaves += 1
        if leaves > max_leaves:
            raise RuntimeError('coin tree larger than max_leaves')
        yield coins, res
        for i in range(len(prefix), n):
            alt = coins[:i] + (1 - filler,)
            if limit is not None and len(alt) > limit:
                continue
            n2, res2 = run(alt)
            if n2 < len(alt):
                raise RuntimeError('run consumed fewer coins (%d) than the forced prefix (%d)' % (n2, len(alt)))
            if limit is not None and n2 > limit:
                # too deep: count as truncated leaf but do not expand
                yield alt + (filler,) * (n2 - len(alt)), None
                continue
            stack.append((alt, n2, res2))


def selfcheck():
    """Prove ownership: scripted coins come out of numba and numpy generators."""
    from numba import njit

    @njit
    def draw(n):
        out = np.empty(n, dtype=np.int64)
        for i in range(n):
            out[i] = np.random.randint(2)
        return out

    @njit
    def draw_arr(n):
        return np.random.randint(0, 2, n)

    @njit
    def draw_choice(n):
        return np.random.choice(np.array([0, 2]), size=n)

    pat = [1, 0, 0, 1, 1, 1, 0, 1, 0, 0, 0, 1]
    script(pat, pat)
    a = draw(len(pat)).tolist()
    c1 = consumed()[0]
    script(pat, pat)
    b = draw_arr(len(pat)).tolist()
    script(pat, pat)
    c = (draw_choice(len(pat)) // 2).tolist()
    d = np.random.randint(0, 2, len(pat)).tolist()
    c2 = consumed()[1]
    script(pat, pat)
    e = np.random.randint(2, size=(3, 4)).reshape(-1).tolist()
    ok = (a == pat and b == pat and c == pat and d == pat and e == pat and c1 == len(pat) and c2 == len(pat))
    if not ok:
        raise RuntimeError('coin scheduler does not own the RNG: %r' % ((a, b, c, d, e, c1, c2),))
    return {'scripted_streams_followed': True, 'coins': len(pat)}
