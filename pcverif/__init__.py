"""pcverif - bounded exhaustive exploration (model checking) of hongyehu/PyClifford.

See /verif/DESIGN.md.  Entry point: /verif/check.py.
"""
