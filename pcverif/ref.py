"""Reference model: dense matrices and facts derived from them.

Independent of the library: imports numpy only.  Conventions (DESIGN.md 2.10):
g = [x0,z0,x1,z1,...], sigma[g] = i^(x.z) prod X^x Z^z, so (1,1) = +Y.
Single-qubit code a = 2*x + z : 0=I, 1=Z, 2=X, 3=Y.
"""
import itertools
import functools
import numpy as np

I2 = np.eye(2, dtype=complex)
SX = np.array([[0, 1], [1, 0]], dtype=complex)
SY = np.array([[0, -1j], [1j, 0]], dtype=complex)
SZ = np.array([[1, 0], [0, -1]], dtype=complex)
SIG = [I2, SZ, SX, SY]          # indexed by a = 2*x+z
LETTER = 'IZXY'                 # indexed by a
LETTER2CODE = {'I': 0, 'Z': 1, 'X': 2, 'Y': 3}
IPOW = [1, 1j, -1, -1j]


def _derive_tables():
    """Single-qubit multiplication / anticommutation tables derived numerically
    from the 2x2 matrices (no formula shared with the library)."""
    mul_ph = np.zeros((4, 4), dtype=np.int64)
    acq = np.zeros((4, 4), dtype=np.int64)
    for a in range(4):
        for b in range(4):
            prod = SIG[a] @ SIG[b]
            c = a ^ b
            found = None
            for k in range(4):
                if np.allclose(prod, IPOW[k] * SIG[c]):
                    found = k
            assert found is not None
            mul_ph[a, b] = found
            comm = SIG[a] @ SIG[b] - SIG[b] @ SIG[a]
            anti = SIG[a] @ SIG[b] + SIG[b] @ SIG[a]
            if np.allclose(comm, 0):
                acq[a, b] = 0
            else:
                assert np.allclose(anti, 0)
                acq[a, b] = 1
    return mul_ph, acq


MUL_PH, ACQ = _derive_tables()


def codes(g):
    """(...,2N) bits -> (...,N) single-qubit codes a=2x+z."""
    g = np.asarray(g, dtype=np.int64)
    return 2 * g[..., 0::2] + g[..., 1::2]


def mul(g1, p1, g2, p2):
    """Reference product (g1,p1)*(g2,p2) -> (g,p); vectorised, broadcasting."""
    g1 = np.asarray(g1, dtype=np.int64)
    g2 = np.asarray(g2, dtype=np.int64)
    c1, c2 = codes(g1), codes(g2)
    ph = MUL_PH[c1, c2].sum(-1)
    return (g1 ^ g2), (np.asarray(p1) + np.asarray(p2) + ph) % 4


def anti(g1, g2):
    """Reference anticommutation indicator (vectorised, broadcasting)."""
    return ACQ[codes(g1), codes(g2)].sum(-1) % 2


def anti_mat(gs):
    gs = np.asarray(gs, dtype=np.int64)
    return anti(gs[:, None, :], gs[None, :, :])


@functools.lru_cache(maxsize=None)
def _mat_cached(key, p):
    m = np.array([[1.0 + 0j]])
    for a in key:
        m = np.kron(m, SIG[a])
    return IPOW[p % 4] * m


def mat(g, p=0):
    """Dense 2^N x 2^N matrix of i^p sigma[g]."""
    key = tuple(int(a) for a in codes(g))
    return _mat_cached(key, int(p) % 4)


def all_g(N):
    """All 4^N strings, shape (4^N, 2N), lexicographic in the bit vector."""
    return np.array(list(itertools.product((0, 1), repeat=2 * N)), dtype=np.int64)


def gindex(g):
    """Integer index of a bit vector consistent with all_g order."""
    g = np.asarray(g, dtype=np.int64)
    n2 = g.shape[-1]
    w = 1 << np.arange(n2 - 1, -1, -1)
    return (g * w).sum(-1)


def elem_index(g, p, N):
    """Index of group element (g,p) in [0, 4*4^N)."""
    return (np.asarray(p) % 4) * (4 ** N) + gindex(g)


def g_to_str(g, p=None):
    s = ''.join(LETTER[a] for a in codes(g))
    if p is None:
        return s
    return ['+', '+i', '-', '-i'][int(p) % 4] + s


def str_to_g(s):
    g = []
    for ch in s:
        a = LETTER2CODE[ch]
        g += [a >> 1, a & 1]
    return np.array(g, dtype=np.int64)


def weight(g):
    return int((codes(g) != 0).sum())


# ---------------------------------------------------------------- states
def rho_from_stabs(gs, ps, N):
    """2^-(N-L)... normalised projector: 2^-N prod (1+S_a) for L stabilizers."""
    d = 2 ** N
    rho = np.eye(d, dtype=complex) / d
    for g, p in zip(gs, ps):
        rho = rho @ (np.eye(d) + mat(g, p))
    return rho


def rho(gs, ps, r):
    """Density matrix denoted by tableau (gs,ps,r): class docstring definition."""
    gs = np.asarray(gs, dtype=np.int64)
    N = gs.shape[1] // 2
    return rho_from_stabs(gs[r:N], np.asarray(ps)[r:N], N)


def rho_key(m):
    """Hashable key of an exactly representable matrix."""
    a = np.round(np.asarray(m) * 1024).astype(np.complex128)
    return (a.real.astype(np.int64).tobytes(), a.imag.astype(np.int64).tobytes())


def is_density(m, rank=None, tol=1e-9):
    m = np.asarray(m)
    if not np.allclose(m, m.conj().T, atol=tol):
        return False
    if abs(np.trace(m) - 1) > tol:
        return False
    ev = np.linalg.eigvalsh(m)
    if ev.min() < -tol:
        return False
    if rank is not None:
        if int((ev > tol).sum()) != rank:
            return False
        if not np.allclose(ev[ev > tol], 1.0 / rank, atol=tol):
            return False
    return True


def measure_ref(rho_m, g, p):
    """Reference projective measurement of Hermitian observable (g,p).
    Returns dict outcome_bit -> (prob, post_state or None)."""
    O = mat(g, p)
    d = rho_m.shape[0]
    out = {}
    for b in (0, 1):
        Pi = (np.eye(d) + (-1) ** b * O) / 2
        un = Pi @ rho_m @ Pi
        pr = float(np.trace(un).real)
        out[b] = (pr, un / pr if pr > 1e-12 else None)
    return out


def ptrace(rho_m, keep, N):
    """Partial trace keeping qubits in `keep` (sorted list)."""
    keep = list(keep)
    t = rho_m.reshape([2] * (2 * N))
    drop = [q for q in range(N) if q not in keep]
    # trace out dropped qubits one by one (from the highest index)
    cur_n = N
    for q in sorted(drop, reverse=True):
        t = np.trace(t, axis1=q, axis2=q + cur_n)
        cur_n -= 1
    k = len(keep)
    return t.reshape(2 ** k, 2 ** k)


def vn_entropy(m):
    ev = np.linalg.eigvalsh(m)
    ev = ev[ev > 1e-12]
    return float(-(ev * np.log2(ev)).sum())


# ---------------------------------------------------------------- maps
def map_apply(gs_map, ps_map, gs_in, ps_in):
    """Image of Paulis (gs_in,ps_in) under the map whose row 2k / 2k+1 is the image
    of X_k / Z_k:  img(P) = i^p prod_k i^(x_k z_k) img(X_k)^x_k img(Z_k)^z_k."""
    gs_map = np.asarray(gs_map, dtype=np.int64)
    ps_map = np.asarray(ps_map, dtype=np.int64)
    gs_in = np.atleast_2d(np.asarray(gs_in, dtype=np.int64))
    ps_in = np.atleast_1d(np.asarray(ps_in, dtype=np.int64))
    L, n2 = gs_in.shape
    m2 = gs_map.shape[1]
    acc_g = np.zeros((L, m2), dtype=np.int64)
    acc_p = (ps_in + (gs_in[:, 0::2] * gs_in[:, 1::2]).sum(-1)) % 4
    for j in range(n2):
        sel = gs_in[:, j] == 1
        if sel.any():
            ng, np_ = mul(acc_g[sel], acc_p[sel], gs_map[j], ps_map[j])
            acc_g[sel] = ng
            acc_p[sel] = np_
    return acc_g, acc_p


def map_perm(gs_map, ps_map, N):
    """The automorphism as a permutation of the 4*4^N group elements."""
    G = all_g(N)
    out = np.empty(4 * 4 ** N, dtype=np.int64)
    for p in range(4):
        ig, ip = map_apply(gs_map, ps_map, G, np.full(len(G), p))
        out[p * 4 ** N:(p + 1) * 4 ** N] = elem_index(ig, ip, N)
    return out


def is_valid_map(gs, ps):
    """CCR + Hermitian phases: rows 2k,2k+1 anticommute, all other pairs commute."""
    gs = np.asarray(gs, dtype=np.int64)
    n2 = gs.shape[0]
    if gs.shape != (n2, n2) or n2 % 2:
        return False
    if not np.isin(gs, (0, 1)).all():
        return False
    A = anti_mat(gs)
    want = np.zeros((n2, n2), dtype=np.int64)
    for k in range(n2 // 2):
        want[2 * k, 2 * k + 1] = want[2 * k + 1, 2 * k] = 1
    if not (A == want).all():
        return False
    return bool(np.isin(np.asarray(ps) % 4, (0, 2)).all())


def tableau_invariant(gs, ps, r, need_destab_phase=False):
    """C05 invariant on the concrete arrays; returns '' or a description."""
    gs = np.asarray(gs)
    ps = np.asarray(ps)
    if gs.ndim != 2 or gs.shape[0] != gs.shape[1] or gs.shape[0] % 2:
        return 'shape gs %s' % (gs.shape,)
    N = gs.shape[0] // 2
    if ps.shape != (2 * N,):
        return 'shape ps %s' % (ps.shape,)
    if not np.issubdtype(gs.dtype, np.integer) and not np.isin(gs, (0, 1)).all():
        return 'bits'
    if not np.isin(gs, (0, 1)).all():
        return 'bits not in {0,1}'
    try:
        ri = int(r)
    except Exception:
        return 'r not int'
    if ri != r or not (0 <= ri <= N):
        return 'r=%r out of range' % (r,)
    A = anti_mat(gs.astype(np.int64))
    want = np.zeros((2 * N, 2 * N), dtype=np.int64)
    for i in range(N):
        want[i, i + N] = want[i + N, i] = 1
    if not (A == want).all():
        return 'symplectic pairing broken'
    act = np.asarray(ps[ri:N]).astype(np.int64) % 4
    if not np.isin(act, (0, 2)).all():
        return 'active stabilizer phase not Hermitian'
    if not np.all(np.asarray(ps[ri:N]) == np.asarray(ps[ri:N]).astype(np.int64)):
        return 'non-integer phase'
    if need_destab_phase:
        if not np.isin(np.asarray(ps).astype(np.int64) % 4, (0, 2)).all():
            return 'phase not in {0,2}'
    return ''


def unitary_of_map(gs_map, ps_map, N):
    """Reconstruct U (up to phase) with img(P) = U^dag P U for all P, by solving the
    intertwining equations P U = U img(P) for the generators.  Returns U or None."""
    d = 2 ** N
    rows = []
    eye = np.eye(d)
    for j in range(2 * N):
        g = np.zeros(2 * N, dtype=np.int64)
        g[j] = 1
        Pm = mat(g, 0)
        Qm = mat(gs_map[j], ps_map[j])
        # vec(P U - U Q) = (I kron P - Q^T kron I) vec(U)   (column-major vec)
        rows.append(np.kron(eye, Pm) - np.kron(Qm.T, eye))
    M = np.vstack(rows)
    _, s, vh = np.linalg.svd(M)
    null = vh[np.abs(s) < 1e-9] if len(s) == vh.shape[0] else vh[np.r_[np.abs(s) < 1e-9, [True] * (vh.shape[0] - len(s))]]
    if null.shape[0] != 1:
        return None
    U = null[0].conj().reshape(d, d, order='F')
    # normalise
    U = U * np.sqrt(d) / np.linalg.norm(U)
    if not np.allclose(U.conj().T @ U, np.eye(d), atol=1e-8):
        return None
    return U


def rot_unitary(g, p, N):
    """exp(i pi/4 G) = (1 + i G)/sqrt2 for Hermitian G."""
    d = 2 ** N
    return (np.eye(d) + 1j * mat(g, p)) / np.sqrt(2)


# named gate unitaries (textbook)
U_H = (SX + SZ) / np.sqrt(2)
U_S = np.diag([1, 1j]).astype(complex)
U_X, U_Y, U_Z = SX, SY, SZ


def u_cnot(c, t, N):
    """CNOT on N qubits with control c and target t (qubit 0 = leftmost factor)."""
    d = 2 ** N
    U = np.zeros((d, d), dtype=complex)
    for b in range(d):
        bits = [(b >> (N - 1 - q)) & 1 for q in range(N)]
        if bits[c]:
            bits[t] ^= 1
        b2 = sum(bit << (N - 1 - q) for q, bit in enumerate(bits))
        U[b2, b] = 1
    return U


def embed_1q(U1, q, N):
    m = np.array([[1.0 + 0j]])
    for k in range(N):
        m = np.kron(m, U1 if k == q else I2)
    return m


def conj_table(U, N):
    """Map table (gs,ps) with rows = U X_k U^dag, U Z_k U^dag, read off the matrix."""
    G = all_g(N)
    gs = np.zeros((2 * N, 2 * N), dtype=np.int64)
    ps = np.zeros(2 * N, dtype=np.int64)
    for j in range(2 * N):
        g = np.zeros(2 * N, dtype=np.int64)
        g[j] = 1
        M = U @ mat(g, 0) @ U.conj().T
        found = False
        for h in G:
            for p in range(4):
                if np.allclose(M, mat(h, p), atol=1e-9):
                    gs[j] = h
                    ps[j] = p
                    found = True
                    break
            if found:
                break
        assert found, 'not a Clifford'
    return gs, ps


def selfcheck():
    """Oracle self-checks; returns a dict recorded in the evidence."""
    out = {}
    # table product == dense product for all pairs at N=2 incl. phases
    G = all_g(2)
    ok = True
    n = 0
    for i, g1 in enumerate(G):
        g, p = mul(g1[None, :], 1, G, 3)
        for j, g2 in enumerate(G):
            n += 1
            if not np.allclose(mat(g1, 1) @ mat(g2, 3), mat(g[j], p[j])):
                ok = False
    out['mul_table_vs_dense_N2'] = [ok, n]
    # anticommutation
    A = anti_mat(G)
    ok2 = True
    for i in range(16):
        for j in range(16):
            m1, m2 = mat(G[i]), mat(G[j])
            if A[i, j]:
                ok2 &= np.allclose(m1 @ m2 + m2 @ m1, 0)
            else:
                ok2 &= np.allclose(m1 @ m2 - m2 @ m1, 0)
    out['anti_vs_dense_N2'] = bool(ok2)
    # sigma(1,1) = +Y
    out['y_convention'] = bool(np.allclose(mat([1, 1], 0), SY))
    assert ok and ok2 and out['y_convention']
    return out
