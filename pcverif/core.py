"""Runner: legs, parallel exhaustive sweeps, violations, replay files, known findings,
evidence.  See DESIGN.md 2.7-2.9."""
import os
import sys
import json
import time
import hashlib
import random
import traceback
import multiprocessing as mp

VERIF_DIR = os.path.dirname(os.path.dirname(os.path.abspath(__file__)))
EVID_DIR = os.environ.get('PCVERIF_EVID_DIR') or os.path.join(VERIF_DIR, 'evidence')
REPLAY_DIR = os.environ.get('PCVERIF_REPLAY_DIR') or os.path.join(VERIF_DIR, 'replays')
KNOWN_FILE = os.path.join(VERIF_DIR, 'known_findings.json')
NPROC = int(os.environ.get('PCVERIF_NPROC', '16'))
MAX_REPLAYS = 6


def jsonable(o):
    import numpy as np
    if isinstance(o, dict):
        return {str(k): jsonable(v) for k, v in o.items()}
    if isinstance(o, (list, tuple, set)):
        return [jsonable(v) for v in o]
    if isinstance(o, np.ndarray):
        return jsonable(o.tolist())
    if isinstance(o, (np.integer,)):
        return int(o)
    if isinstance(o, (np.floating,)):
        return float(o)
    if isinstance(o, (np.bool_,)):
        return bool(o)
    if isinstance(o, complex) or isinstance(o, np.complexfloating):
        return {'re': float(o.real), 'im': float(o.imag)}
    if isinstance(o, (str, int, float, bool)) or o is None:
        return o
    try:
        import torch
        if torch.is_tensor(o):
            return jsonable(o.detach().cpu().numpy())
    except Exception:
        pass
    return repr(o)


class Viol(dict):
    """A violation record: leg, item (replayable), sig (signature), msg, observed, expected."""


def V(sig, item, msg, observed=None, expected=None):
    return {'sig': sig, 'item': jsonable(item), 'msg': msg,
            'observed': jsonable(observed), 'expected': jsonable(expected)}


class Leg(object):
    """One exhaustive sweep.

    name   - unique within the property
    fn     - module-level function fn(items) -> dict(n=transitions, nt=nontrivial,
             viol=[V(...)], keys=set of state hashes (optional), samples=[...],
             extra={counter: int})
    items  - list of JSON-serialisable items (the complete domain for the tier)
    chunk  - items per task
    """
    def __init__(self, name, fn, items, chunk=64, exhaustive=True, note='', parallel=True,
                 bound=None, timeout=1800, src_states=None, supplementary=False, probe=4):
        self.name = name
        self.fn = fn
        self.items = items
        self.chunk = chunk
        self.exhaustive = exhaustive
        self.note = note
        self.parallel = parallel
        self.bound = bound
        self.timeout = timeout
        self.src_states = src_states
        self.supplementary = supplementary
        self.probe = probe      # number of first items replayed twice in the parent (determinism / ownership check)


_WORK = {}


_PROP = ['C??']


def _library_frame(exc):
    """'file:line in function' of the innermost frame inside the library under test, provided it lies BELOW the last
    frame of this harness (i.e. the library raised while being called by a leg); None otherwise."""
    repo = os.path.realpath(os.environ.get('PCVERIF_REPO', '/repo')) + os.sep
    here = os.path.dirname(os.path.realpath(__file__)) + os.sep
    frames = traceback.extract_tb(exc.__traceback__)
    last_h = max([i for i, f in enumerate(frames) if os.path.realpath(f.filename).startswith(here)] or [-1])
    inside = [f for f in frames[last_h + 1:] if os.path.realpath(f.filename).startswith(repo)]
    if not inside:
        return None
    f = inside[-1]
    return '%s:%d in %s' % (os.path.relpath(os.path.realpath(f.filename), repo), f.lineno, f.name)


def _run_chunk(args):
    legname, idx = args
    fn, chunks = _WORK[legname]
    try:
        from . import rng
        rng.refresh()
    except Exception:
        pass
    try:
        res = fn(chunks[idx])
    except Exception as e:  # harness or library crash inside the sweep
        lib_frame = _library_frame(e)
        if lib_frame is not None and not type(e).__name__ == 'Harness':
            # the exception was raised inside the library under test (below the last harness frame) on an input the
            # leg treats as valid and does not expect to be refused: that is a finding about the library, not about
            # the harness.  (On the unchanged tree no leg gets here.)
            item = chunks[idx][0] if chunks[idx] else None
            res = {'n': 0, 'nt': 0, 'viol': [V('%s/%s/library-raises-%s' % (_PROP[0], legname, type(e).__name__), item,
                                                'leg %s: the library raised %s: %s at %s on an input of the chunk starting with this item' % (
                                                    legname, type(e).__name__, str(e)[:200], lib_frame))]}
        else:
            res = {'n': 0, 'nt': 0, 'viol': [], 'error': '%s: %s\n%s' % (type(e).__name__, e, traceback.format_exc()),
                   'error_items': jsonable(chunks[idx])}
    res.setdefault('viol', [])
    res.setdefault('n', 0)
    res.setdefault('nt', 0)
    if 'keys' in res and not isinstance(res['keys'], set):
        res['keys'] = set(res['keys'])
    return idx, res


def merge(total, res):
    total['n'] += res.get('n', 0)
    total['nt'] += res.get('nt', 0)
    total['viol'].extend(res.get('viol', []))
    if 'keys' in res:
        total['keys'] |= res['keys']
    for k, v in res.get('extra', {}).items():
        total['extra'][k] = total['extra'].get(k, 0) + v
    for s in res.get('samples', []):
        if len(total['samples']) < 3:
            total['samples'].append(s)
    if res.get('error'):
        total['errors'].append((res['error'], res.get('error_items')))


def load_known():
    if not os.path.exists(KNOWN_FILE):
        return []
    with open(KNOWN_FILE) as f:
        return json.load(f).get('findings', [])


def match_known(prop, v, known):
    """A violation is a known finding iff an entry with status 'known' for this property
    lists exactly this signature (signatures are computed from reference-side facts and
    name the call site and the semantic class of the failing input)."""
    for k in known:
        if k.get('property') != prop or k.get('status') != 'known':
            continue
        if k.get('signature') == v['sig']:
            return k
    return None


class Run(object):
    def __init__(self, prop, tier, module):
        self.prop = prop
        _PROP[0] = prop
        self.tier = tier
        self.module = module
        self.seed = int(os.environ.get('VERIF_SEED', '0') or 0)
        self.t0 = time.time()
        self.legs_out = {}
        self.viol = []
        self.errors = []
        self.assumptions = []
        self.selfcheck = {}

    def log(self, *a):
        print('[%s %6.1fs]' % (self.prop, time.time() - self.t0), *a, flush=True)

    def run_leg(self, leg):
        t0 = time.time()
        items = list(leg.items)
        chunks = [items[i:i + leg.chunk] for i in range(0, len(items), leg.chunk)]
        total = {'n': 0, 'nt': 0, 'viol': [], 'keys': set(), 'extra': {}, 'samples': [], 'errors': []}
        if not chunks:
            self.legs_out[leg.name] = {'items': 0, 'transitions': 0, 'nontrivial': 0, 'note': leg.note + ' (empty)'}
            return
        # determinism / ownership check + JIT warm-up: first few items twice in the parent
        probe = chunks[0][:min(leg.probe, len(chunks[0]))]
        if probe:
            _WORK[leg.name] = (leg.fn, [probe])
            _, r1 = _run_chunk((leg.name, 0))
            _, r2 = _run_chunk((leg.name, 0))
            sig1 = json.dumps(jsonable({k: r1.get(k) for k in ('n', 'nt', 'viol', 'error')}), sort_keys=True)
            sig2 = json.dumps(jsonable({k: r2.get(k) for k in ('n', 'nt', 'viol', 'error')}), sort_keys=True)
            if sig1 != sig2:
                self.errors.append('leg %s: nondeterministic replay of first items' % leg.name)
        order = list(range(len(chunks)))
        random.Random(self.seed * 7919 + len(chunks)).shuffle(order)
        _WORK[leg.name] = (leg.fn, chunks)
        hung = False
        if leg.parallel and len(chunks) > 1 and NPROC > 1:
            ctx = mp.get_context('fork')
            pool = ctx.Pool(min(NPROC, len(chunks)))
            try:
                it = pool.imap_unordered(_run_chunk, [(leg.name, i) for i in order])
                deadline = time.time() + leg.timeout
                done = set()
                for _ in range(len(order)):
                    try:
                        idx, res = it.next(timeout=max(1.0, deadline - time.time()))
                    except mp.TimeoutError:
                        hung = True
                        break
                    done.add(idx)
                    merge(total, res)
                if hung:
                    missing = [i for i in order if i not in done]
                    total['viol'].append(V('%s/%s/timeout' % (self.prop, leg.name), chunks[missing[0]],
                                           'sweep did not finish within %ss: %d chunks missing (hang in library code?)'
                                           % (leg.timeout, len(missing))))
            finally:
                pool.terminate()
                pool.join()
        else:
            for i in order:
                _, res = _run_chunk((leg.name, i))
                merge(total, res)
        for v in total['viol']:
            v['leg'] = leg.name
        self.viol.extend(total['viol'])
        for e, its in total['errors']:
            self.errors.append('leg %s: %s' % (leg.name, e))
        out = {'items': len(items), 'transitions': total['n'], 'nontrivial': total['nt'],
               'exhaustive': bool(leg.exhaustive), 'supplementary': bool(leg.supplementary), 'violations': len(total['viol']),
               'wall_s': round(time.time() - t0, 2)}
        if leg.note:
            out['note'] = leg.note
        if leg.bound:
            out['bound'] = leg.bound
        if total['keys']:
            out['distinct_states'] = len(total['keys'])
        if leg.src_states is not None:
            out['source_states'] = leg.src_states
        if total['extra']:
            out['counters'] = total['extra']
        out['_samples'] = total['samples']
        self.legs_out[leg.name] = out
        self.log('leg %-28s items=%d transitions=%d nontrivial=%d viol=%d %.1fs' % (
            leg.name, len(items), total['n'], total['nt'], len(total['viol']), time.time() - t0))

    def finish(self):
        known = load_known()
        new, kn = {}, {}
        for v in self.viol:
            k = match_known(self.prop, v, known)
            if k is not None:
                kn.setdefault(k['signature'], [k, 0, v])
                kn[k['signature']][1] += 1
            else:
                new.setdefault(v['sig'], []).append(v)
        # replay files
        lines = []
        nrep = 0
        for sig, vs in sorted(new.items()):
            if nrep >= MAX_REPLAYS:
                break
            v = vs[0]
            d = os.path.join(REPLAY_DIR, self.prop)
            os.makedirs(d, exist_ok=True)
            h = hashlib.sha1(json.dumps(jsonable([sig, v['item']]), sort_keys=True).encode()).hexdigest()[:10]
            safe = ''.join(c if c.isalnum() or c in '-_.' else '_' for c in sig)[:80]
            path = os.path.join(d, '%s-%s.json' % (safe, h))
            with open(path, 'w') as f:
                json.dump({'property': self.prop, 'leg': v['leg'], 'signature': sig, 'item': v['item'],
                           'msg': v['msg'], 'observed': v.get('observed'), 'expected': v.get('expected'),
                           'count_with_signature': len(vs), 'tier': self.tier}, f, indent=1)
            lines.append('VIOLATION property=%s replay=%s' % (self.prop, path))
            self.log('violation sig=%s count=%d: %s' % (sig, len(vs), v['msg']))
            nrep += 1
        for sig, (k, cnt, v) in sorted(kn.items()):
            print('KNOWN-FINDING: property=%s %s [%s; %d cases this run]' % (
                self.prop, k.get('what', k.get('description', sig)), sig, cnt), flush=True)
        self.write_evidence(len(new), sum(len(v) for v in new.values()), {s: c for s, (k, c, v) in kn.items()})
        for e in self.errors:
            print('HARNESS-ERROR: %s' % e, flush=True)
        for l in lines:
            print(l, flush=True)
        if lines:
            return 1
        if self.errors:
            return 2
        self.log('OK: property held on everything explored')
        return 0

    def write_evidence(self, nsig, nviol, known_counts):
        os.makedirs(EVID_DIR, exist_ok=True)
        trans = sum(l.get('transitions', 0) for l in self.legs_out.values())
        nt = sum(l.get('nontrivial', 0) for l in self.legs_out.values())
        states = 0
        for l in self.legs_out.values():
            states += max(l.get('distinct_states', 0), l.get('source_states', 0) or 0)
        if states == 0:
            states = sum(l.get('items', 0) for l in self.legs_out.values())
        samples = []
        legs = {}
        for name, l in self.legs_out.items():
            l = dict(l)
            for s in l.pop('_samples', []):
                if len(samples) < 8:
                    samples.append({'leg': name, 'case': s})
            legs[name] = l
        if not samples:
            samples = [{'note': 'no sample recorded'}]
        ev = {
            'property_id': self.prop,
            'tier': self.tier,
            'seed': self.seed,
            'level': 'model_checking',
            'coverage': {
                'states': int(states),
                'transitions': int(trans),
                'traces_validated_against_impl': int(trans),
                'evaluations': int(trans),
                'distinct_nontrivial': int(nt),
                'rule': getattr(self.module, 'RULE', ''),
                'samples': jsonable(samples),
                'exhaustive': all(l.get('exhaustive', False) for l in legs.values() if not l.get('supplementary')) if legs else False,
                'caps_hit': [n for n, l in legs.items() if not l.get('exhaustive', False)],
                'legs': jsonable(legs),
                'oracle_selfcheck': jsonable(self.selfcheck),
                'explored_directly_on_implementation': True,
                'known_findings_matched': known_counts,
                'harness_errors': self.errors[:5],
                'repo': os.environ.get('PCVERIF_REPO', '/repo'),
            },
            'assumptions': list(getattr(self.module, 'ASSUMPTIONS', [])),
            'wall_s': round(time.time() - self.t0, 2),
            'violations': int(nviol),
        }
        path = os.path.join(EVID_DIR, '%s.json' % self.prop)
        tmp = path + '.tmp'
        with open(tmp, 'w') as f:
            json.dump(ev, f, indent=1)
        os.replace(tmp, path)


def run_property(prop, tier):
    import importlib
    from . import ref, dom
    mod = importlib.import_module('pcverif.props.%s' % prop.lower())
    run = Run(prop, tier, mod)
    run.selfcheck = {'ref': ref.selfcheck(), 'dom': dom.selfcheck()}
    if hasattr(mod, 'conventions'):
        run.selfcheck['conventions'] = mod.conventions()
    legs = mod.legs(tier)
    only = os.environ.get('PCVERIF_LEGS')
    for leg in legs:
        if only and leg.name not in only.split(','):
            continue
        run.run_leg(leg)
    return run.finish()


def replay(path):
    import importlib
    with open(path) as f:
        rp = json.load(f)
    prop = rp['property']
    mod = importlib.import_module('pcverif.props.%s' % prop.lower())
    legs = mod.legs(rp.get('tier', 'quick'), for_replay=True) if 'for_replay' in mod.legs.__code__.co_varnames else mod.legs(rp.get('tier', 'quick'))
    fn = None
    for leg in legs:
        if leg.name == rp['leg']:
            fn = leg.fn
    if fn is None:
        print('replay: leg %s not found' % rp['leg'])
        return 2
    items = [rp['item']] if not rp['signature'].endswith('/timeout') else rp['item']
    try:
        res = fn(items)
    except Exception as e:
        where = _library_frame(e)
        if where is None or type(e).__name__ == 'Harness':
            raise
        print('REPLAY-FAIL sig=%s: the library raised %s: %s at %s' % (rp['signature'], type(e).__name__, str(e)[:200], where))
        return 1
    viol = res.get('viol', [])
    if viol:
        for v in viol[:5]:
            print('REPLAY-FAIL sig=%s: %s\n  observed=%s\n  expected=%s' % (v['sig'], v['msg'], v.get('observed'), v.get('expected')))
        return 1
    print('REPLAY-PASS: %d transitions, no violation' % res.get('n', 0))
    return 0
