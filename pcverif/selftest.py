"""setup_cmd: oracle, enumerator, RNG-ownership and binding self-checks."""
import json
import sys


def main():
    from . import ref, dom
    out = {'ref': ref.selfcheck(), 'dom': dom.selfcheck()}
    from . import lib, rng
    out['binding'] = lib.pc.__file__
    out['rng'] = rng.selfcheck()
    # unitary reconstruction round trip on one map
    import numpy as np
    t, s = dom.valid_maps(2)[4321]
    U = ref.unitary_of_map(t, s, 2)
    assert U is not None
    g = np.array([1, 1, 0, 1])
    ig, ip = ref.map_apply(t, s, g, 1)
    assert np.allclose(U.conj().T @ ref.mat(g, 1) @ U, ref.mat(ig[0], ip[0]))
    out['unitary_reconstruction'] = True
    print(json.dumps(out, default=str))
    print('selftest OK')
    return 0


if __name__ == '__main__':
    sys.exit(main())
