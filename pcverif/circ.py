"""Shared machinery of C09 (a circuit = ordered product of its gates) and C10 (backward =
inverse of forward): gate alphabets with INDEPENDENT reference automorphisms, program
enumeration, circuit configurations, structural invariants of the layer chain.

Reference side (numpy + pcverif.ref only, never the library):
  every gate letter is abstracted to the permutation it induces on the 4*4^N elements of
  the Pauli group (index = p*4^N + gindex(g), the order of `group(N)`):
    * named gates   - conjugation table read off the textbook dense unitary (ref.conj_table)
    * rotations     - the rule  P -> U^dag P U = i*P*G  for anticommuting P  (U=exp(i pi/4 G))
    * map gates     - the small table embedded at the declared (ascending) qubits (ref.map_apply)
    * backward-only - the inverse permutation of the embedded backward table
  a program's reference action is the composition of the letter permutations in insertion
  order, its inverse the inverse permutation.

Library side: fresh gate / layer / circuit objects per configuration, driven through the
public methods take / compose / copy / compile / forward / backward only.
"""
import itertools
import functools
import numpy as np
from . import ref, dom, lib, stab
from .core import V

I64 = np.int64
CAP = 64          # maximum number of layers walked (a longer chain = broken links)


# ======================================================================= reference side
@functools.lru_cache(maxsize=None)
def all_g(N):
    return ref.all_g(N)


@functools.lru_cache(maxsize=None)
def group(N):
    """The complete Pauli group, element i = (Gs[i], Ps[i]) with elem_index == i."""
    G = all_g(N)
    Gs = np.concatenate([G] * 4)
    Ps = np.repeat(np.arange(4, dtype=I64), len(G))
    assert (ref.elem_index(Gs, Ps, N) == np.arange(4 * 4 ** N)).all()
    return Gs, Ps


def ident(N):
    return np.arange(4 * 4 ** N, dtype=I64)


def decode(idx, N):
    idx = np.asarray(idx, dtype=I64)
    n = 4 ** N
    return all_g(N)[idx % n], idx // n


def estr(i, N):
    g, p = decode(np.array([i]), N)
    return ref.g_to_str(g[0], int(p[0]))


def embed_table(t, s, qubits, N):
    """Embed a small n-qubit table at ascending `qubits` of N (written independently of
    CliffordMap.embed): the k-th small qubit is qubits[k]; every other generator is fixed."""
    t = np.asarray(t, dtype=I64)
    s = np.asarray(s, dtype=I64)
    gm = np.eye(2 * N, dtype=I64)
    pm = np.zeros(2 * N, dtype=I64)
    cols = []
    for q in qubits:
        cols += [2 * int(q), 2 * int(q) + 1]
    for i, ci in enumerate(cols):
        gm[ci, :] = 0
        for j, cj in enumerate(cols):
            gm[ci, cj] = t[i, j]
        pm[ci] = s[i]
    return gm, pm


def perm_table(gm, pm, N):
    return ref.map_perm(gm, pm, N).astype(I64)


def perm_rot(gfull, p, N):
    """rotate_by(G): P -> U^dag P U with U = exp(i pi/4 G): anticommuting P -> i*P*G."""
    Gs, Ps = group(N)
    gfull = np.asarray(gfull, dtype=I64)
    a = ref.anti(Gs, gfull[None, :])
    eg, ep = ref.mul(Gs, Ps, gfull[None, :], int(p))
    ep = (ep + 1) % 4
    eg = np.where(a[:, None] == 1, eg, Gs)
    ep = np.where(a == 1, ep, Ps)
    return ref.elem_index(eg, ep, N).astype(I64)


def inverse_perm(perm):
    inv = np.empty_like(perm)
    inv[perm] = np.arange(len(perm), dtype=perm.dtype)
    return inv


def table_of_perm(perm, N):
    """Rows = images of X_0,Z_0,X_1,... under the automorphism `perm`."""
    E = np.eye(2 * N, dtype=I64)
    idx = ref.elem_index(E, np.zeros(2 * N, dtype=I64), N)
    return decode(perm[idx], N)


_U1 = {'H': ref.U_H, 'S': ref.U_S, 'X': ref.U_X, 'Y': ref.U_Y, 'Z': ref.U_Z}


@functools.lru_cache(maxsize=None)
def table_named(name, qubits, N):
    """Textbook table of a named gate (rows U X_k U^dag, U Z_k U^dag), from dense matrices."""
    if name in _U1:
        U = ref.embed_1q(_U1[name], qubits[0], N)
    elif name == 'CNOT':
        U = ref.u_cnot(qubits[0], qubits[1], N)
    else:
        raise KeyError(name)
    return ref.conj_table(U, N)


def full_string(gstr, qubits, N):
    """Full-width string with the letters of gstr at `qubits`, identity elsewhere."""
    s = ['I'] * N
    for ch, q in zip(gstr, qubits):
        s[int(q)] = ch
    return ''.join(s)


def ref_depth(qsets):
    """Reference-side ASAP layering depth of a program (used only to classify cases)."""
    layers = []
    for qs in qsets:
        k = len(layers)
        while k > 0 and not (layers[k - 1] & qs):
            k -= 1
        if k == len(layers):
            layers.append(set())
        layers[k] |= qs
    return len(layers)


# ======================================================================= letters
class Letter(object):
    """One gate letter.  spec (JSON):
      ['named', name, [qubits]]            pc.H/S/X/Y/Z/CNOT(*qubits)              (pyclifford only)
      ['C', k, q]                          pc.C(k, q); reference = its declared table embedded
      ['gen', [qubits], gstr, p]           CliffordGate(*qubits).set_generator(Pauli(gstr, p))
      ['rotctor', gfull, p]                clifford_rotation_gate(Pauli(gfull, p))   (qubits = support)
      ['rotctorq', gstr, p, [qubits]]      clifford_rotation_gate(Pauli(gstr, p), numpy.array(qubits))
      ['fmap'|'bmap'|'fbmap', [qubits], n, idx]   CliffordGate(*qubits) with forward / backward / both
                                           maps = dom.valid_maps(n)[idx]  (n in 1,2)
      ['fmapT', [qubits], name]            forward map = textbook table of the named gate (torch port has
                                           no named constructors)
      ['fmap3'|'bmap3', [letters]]         global 3-qubit map = reference product of base letters
    """
    def __init__(self, N, spec):
        self.N = N
        self.spec = spec
        kind = spec[0]
        self.kind = kind
        self.small = None          # (table, signs) handed to the library for map kinds
        self.small_inv = None
        if kind == 'named':
            self.name = '%s%s' % (spec[1], list(spec[2]))
            self.qubits = tuple(spec[2])
            self.perm = perm_table(*table_named(spec[1], self.qubits, N), N=N)
        elif kind == 'C':
            self.name = 'C(%d)[%d]' % (spec[1], spec[2])
            self.qubits = (spec[2],)
            self.perm = None       # filled from the declared map on first mk()
        elif kind == 'gen':
            self.qubits = tuple(spec[1])
            self.name = 'gen%s(%s)' % (list(self.qubits), ref.g_to_str(ref.str_to_g(spec[2]), spec[3]))
            self.perm = perm_rot(ref.str_to_g(full_string(spec[2], self.qubits, N)), spec[3], N)
        elif kind == 'rotctor':
            g = ref.str_to_g(spec[1])
            self.qubits = tuple(q for q in range(N) if spec[1][q] != 'I')
            self.name = 'clifford_rotation_gate(%s)' % ref.g_to_str(g, spec[2])
            self.perm = perm_rot(g, spec[2], N)
        elif kind == 'rotctorq':
            qs = list(spec[3])
            self.qubits = tuple(q for ch, q in zip(spec[1], qs) if ch != 'I')
            self.name = 'clifford_rotation_gate(%s,%s)' % (ref.g_to_str(ref.str_to_g(spec[1]), spec[2]), qs)
            self.perm = perm_rot(ref.str_to_g(full_string(spec[1], qs, N)), spec[2], N)
        elif kind in ('fmap', 'bmap', 'fbmap'):
            self.qubits = tuple(spec[1])
            n, idx = spec[2], spec[3]
            t, s = dom.valid_maps(n)[idx]
            self.small = (np.array(t), np.array(s))
            self.name = '%s%s(map%d#%d)' % (kind, list(self.qubits), n, idx)
            p = perm_table(*embed_table(t, s, self.qubits, N), N=N)
            self.perm = inverse_perm(p) if kind == 'bmap' else p
            if kind == 'fbmap':
                self.small_inv = table_of_perm(inverse_perm(perm_table(t, s, n)), n)
        elif kind == 'fmapT':
            self.qubits = tuple(spec[1])
            n = len(self.qubits)
            t, s = table_named(spec[2], tuple(range(n)) if self.qubits[0] < self.qubits[-1] or n == 1 else tuple(range(n))[::-1], n)
            self.small = (np.array(t), np.array(s))
            self.qubits = tuple(sorted(self.qubits))
            self.name = 'fmap%s(%s table)' % (list(self.qubits), spec[2])
            self.perm = perm_table(*embed_table(t, s, self.qubits, N), N=N)
        elif kind in ('fmap3', 'bmap3'):
            base = alphabet('py', N)
            p = ident(N)
            for i in spec[1]:
                p = base[i].perm[p]
            self.qubits = tuple(range(N))
            self.small = table_of_perm(p, N)
            self.name = '%s(product of letters %s)' % (kind, list(spec[1]))
            self.perm = inverse_perm(p) if kind == 'bmap3' else p
        else:
            raise KeyError(kind)
        self.qset = set(self.qubits)
        self.sigkind = kind

    # -------------------------------------------------------------- library objects
    def mk(self, pk):
        sp = self.spec
        k = self.kind
        if pk.tag == 'py':
            pc, pci = lib.pc, lib.pci
            if k == 'named':
                return getattr(pc, sp[1])(*sp[2])
            if k == 'C':
                g = pc.C(sp[1], sp[2])
                if self.perm is None:   # reference = the DECLARED table embedded by embed_table
                    self.perm = perm_table(*embed_table(np.asarray(g.forward_map.gs), np.asarray(g.forward_map.ps) % 4, self.qubits, self.N), N=self.N)
                return g
            if k == 'rotctor':
                return pc.clifford_rotation_gate(lib.P(ref.str_to_g(sp[1]), sp[2]))
            if k == 'rotctorq':
                return pc.clifford_rotation_gate(lib.P(ref.str_to_g(sp[1]), sp[2]), np.array(sp[3]))
            Gate, P, CM = pci.CliffordGate, lib.P, lib.CM
        else:
            m = lib.torch_mods()
            if k == 'rotctor':
                return m['tc'].clifford_rotation_gate(lib.tP(ref.str_to_g(sp[1]), sp[2]))
            if k in ('named', 'C', 'rotctorq'):
                raise NotImplementedError('no torch constructor for %s' % k)
            Gate, P, CM = m['tci'].CliffordGate, lib.tP, lib.tCM
        g = Gate(*self.qubits)
        if k == 'gen':
            g.set_generator(P(ref.str_to_g(sp[2]), sp[3]))
        elif k in ('fmap', 'fmapT', 'fmap3'):
            g.set_forward_map(CM(*self.small))
        elif k in ('bmap', 'bmap3'):
            g.set_backward_map(CM(*self.small))
        elif k == 'fbmap':
            g.set_forward_map(CM(*self.small))
            g.set_backward_map(CM(*self.small_inv))
        return g


# map indices: generic tables with mixed signs, not involutions (checked in selfcheck())
M2A, M2B, M1A = 5003, 3301, 22

_BASE = {
    ('py', 3): [
        ['named', 'H', [0]], ['named', 'H', [1]], ['named', 'H', [2]],
        ['named', 'S', [0]], ['named', 'S', [1]], ['named', 'S', [2]],
        ['named', 'CNOT', [0, 1]], ['named', 'CNOT', [2, 1]], ['named', 'CNOT', [0, 2]], ['named', 'CNOT', [2, 0]],
        ['gen', [2], 'X', 0], ['gen', [0, 1], 'XZ', 2], ['gen', [0, 1, 2], 'YXZ', 0],
        ['rotctor', 'XIY', 0],
        ['fmap', [0, 2], 2, M2A], ['bmap', [1, 2], 2, M2B], ['bmap', [0], 1, M1A]],
    ('py', 2): [
        ['named', 'H', [0]], ['named', 'H', [1]], ['named', 'S', [0]], ['named', 'S', [1]],
        ['named', 'CNOT', [0, 1]], ['named', 'CNOT', [1, 0]],
        ['gen', [1], 'Y', 2], ['gen', [0, 1], 'XZ', 2], ['rotctor', 'ZY', 0],
        ['fmap', [0, 1], 2, M2A], ['bmap', [0, 1], 2, M2B], ['bmap', [0], 1, M1A]],
    ('py', 4): [
        ['named', 'H', [3]], ['named', 'S', [1]],
        ['named', 'CNOT', [0, 1]], ['named', 'CNOT', [3, 2]], ['named', 'CNOT', [0, 3]],
        ['gen', [1, 2], 'YZ', 2], ['rotctor', 'XIIY', 0],
        ['fmap', [0, 2], 2, M2A], ['bmap', [1, 3], 2, M2B], ['gen', [0, 1, 2, 3], 'XYZX', 0]],
    ('py', 1): [['named', 'H', [0]], ['named', 'S', [0]], ['gen', [0], 'Y', 2], ['bmap', [0], 1, M1A]],
    ('torch', 3): [
        ['gen', [2], 'X', 0], ['gen', [0, 1], 'XZ', 2], ['gen', [0, 1, 2], 'YXZ', 0], ['gen', [0, 2], 'XY', 0],
        ['fmapT', [0], 'H'], ['fmapT', [0, 2], 'CNOT'],
        ['fmap', [0, 2], 2, M2A], ['bmap', [1, 2], 2, M2B], ['bmap', [0], 1, M1A]],
    ('torch', 2): [
        ['gen', [1], 'Y', 2], ['gen', [0, 1], 'XZ', 2],
        ['fmapT', [0], 'H'], ['fmapT', [1], 'S'], ['fmapT', [0, 1], 'CNOT'],
        ['fmap', [0, 1], 2, M2A], ['bmap', [0, 1], 2, M2B], ['bmap', [0], 1, M1A]],
}


@functools.lru_cache(maxsize=None)
def alphabet(tag, N):
    return [Letter(N, sp) for sp in _BASE[(tag, N)]]


def programs(tag, N, maxlen):
    """All programs (index lists) of length 0..maxlen over the base alphabet."""
    n = len(_BASE[(tag, N)])
    out = []
    for L in range(maxlen + 1):
        for p in itertools.product(range(n), repeat=L):
            out.append([N, list(p)])
    return out


# ======================================================================= inputs
class Inp(object):
    def __init__(self, kind, name, gs, ps, r, N):
        self.kind, self.name, self.N = kind, name, N
        self.gs = np.array(gs, dtype=I64)
        self.ps = np.array(ps, dtype=I64) % 4
        self.r = r
        self.idx = ref.elem_index(self.gs, self.ps, N).astype(I64)


_SCRAMBLE = {4: (0, 2, 4, 7, 8, 5, 9, 1), 3: (0, 8, 4, 12, 14, 1, 7, 11), 2: (0, 4, 3, 7, 9, 1), 1: (0, 1, 3)}


@functools.lru_cache(maxsize=None)
def tableaux_pool(N):
    """Two valid signed tableaux: a product state with mixed signs and a generic entangled one
    (reference image of the first under a fixed scrambling program of base letters)."""
    gs = np.zeros((2 * N, 2 * N), dtype=I64)
    for i in range(N):
        gs[i, 2 * i + 1] = 1          # stabilizer Z_i
        gs[N + i, 2 * i] = 1          # destabilizer X_i
    ps = np.array([2 * ((i + 1) % 2) for i in range(N)] + [2 * (i % 2) for i in range(N)], dtype=I64)
    p = ident(N)
    A = alphabet('py', N)
    for i in _SCRAMBLE[N]:
        p = A[i].perm[p]
    g2, p2 = decode(p[ref.elem_index(gs, ps, N)], N)
    out = [('product', gs, ps), ('generic', g2, p2)]
    for nm, g, q in out:
        for r in range(N + 1):
            assert ref.tableau_invariant(g, q, r, need_destab_phase=True) == '', (nm, r)
    return out


@functools.lru_cache(maxsize=None)
def inputs(N, light=False):
    """The whole Pauli group (all four phases) as ONE list + states of every rank with signs.
    light (torch, N=3): every string once with a phase pattern covering all four phases."""
    Gs, Ps = group(N)
    if light:
        G = all_g(N)
        ph = np.array([(int(ref.gindex(g)) + ref.weight(g)) % 4 for g in G], dtype=I64)
        out = [Inp('group', 'all %d strings, phases cycling' % len(G), G, ph, None, N)]
        for nm, g, p in tableaux_pool(N)[1:]:
            for r in (0, 1, N):
                out.append(Inp('state', '%s,r=%d' % (nm, r), g, p, r, N))
        return out
    out = [Inp('group', 'complete Pauli group (%d elements)' % len(Gs), Gs, Ps, None, N)]
    pool = tableaux_pool(N)
    for r in range(N + 1):                      # generic entangled signed tableau at every rank
        out.append(Inp('state', '%s,r=%d' % (pool[1][0], r), pool[1][1], pool[1][2], r, N))
    for r in sorted(set((0, N // 2))):          # signed product state, pure and half-mixed
        out.append(Inp('state', '%s,r=%d' % (pool[0][0], r), pool[0][1], pool[0][2], r, N))
    return out


# ======================================================================= packages
class PyPk(object):
    tag = 'py'
    classes = ('CliffordCircuit', 'Circuit')

    @staticmethod
    def fresh(inp):
        if inp.kind == 'group':
            return lib.PL(inp.gs, inp.ps)
        return lib.ST(inp.gs, inp.ps, inp.r)

    @staticmethod
    def arr(obj):
        return np.asarray(obj.gs), np.asarray(obj.ps)

    @staticmethod
    def new_circuit(cls, N):
        return getattr(lib.pci, cls)(N)

    @staticmethod
    def new_layer(*gates):
        return lib.pci.CliffordLayer(*gates)

    @staticmethod
    def compile(circ, N):
        return circ.compile()

    @staticmethod
    def has(cls, what):
        return hasattr(getattr(lib.pci, cls), what)

    @staticmethod
    def inputs(N):
        return inputs(N)


class TorchPk(object):
    tag = 'torch'
    classes = ('CliffordCircuit',)

    @staticmethod
    def fresh(inp):
        if inp.kind == 'group':
            if getattr(inp, 'view', False):
                # the same list as a row-strided, column-windowed (non-contiguous) view of a larger buffer
                m = lib.torch_mods()
                L, W = inp.gs.shape
                big = np.ones((2 * L, W + 2), dtype=np.float32)
                big[::2, 1:W + 1] = inp.gs
                bp = np.full(2 * L, 3, dtype=np.float32)
                bp[::2] = inp.ps
                return m['tpa'].PauliList(lib.tT(big)[::2, 1:W + 1], lib.tT(bp)[::2])
            return lib.tPL(inp.gs, inp.ps)
        return lib.tST(inp.gs, inp.ps, inp.r)

    @staticmethod
    def arr(obj):
        return lib.t2n(obj.gs), lib.t2n(obj.ps)

    @staticmethod
    def new_circuit(cls, N):
        return lib.torch_mods()['tci'].CliffordCircuit()

    @staticmethod
    def new_layer(*gates):
        return lib.torch_mods()['tci'].CliffordLayer(*gates)

    @staticmethod
    def compile(circ, N):
        return circ.compile(N)

    @staticmethod
    def has(cls, what):
        return hasattr(lib.torch_mods()['tci'].CliffordCircuit, what)

    @staticmethod
    def inputs(N):
        return inputs(N, light=(N >= 3)) + [_view_input(N)]


@functools.lru_cache(maxsize=None)
def _view_input(N):
    G = all_g(N)
    ph = np.array([(int(ref.gindex(g)) + 2 * ref.weight(g) + 1) % 4 for g in G], dtype=I64)
    v = Inp('group', 'all %d strings (phases cycling) as a non-contiguous view' % len(G), G, ph, None, N)
    v.view = True
    return v


PKS = {'py': PyPk, 'torch': TorchPk}


def observe(pk, obj, inp):
    """Abstract a live library object to (gs int64, ps mod 4 int64, r) or a string describing
    a representation defect."""
    gs, ps = pk.arr(obj)
    if gs.shape != inp.gs.shape or ps.shape != inp.ps.shape:
        return 'shape gs=%s ps=%s' % (gs.shape, ps.shape)
    if gs.dtype.kind not in 'iub' or ps.dtype.kind not in 'iub':
        if not (np.all(gs == np.rint(gs)) and np.all(ps == np.rint(ps))):
            return 'non-integer entries'
    gs = np.rint(gs).astype(I64)
    ps = np.rint(ps).astype(I64) % 4
    if not np.isin(gs, (0, 1)).all():
        return 'bits outside {0,1}'
    r = None
    if inp.kind == 'state':
        r = obj.r
        try:
            if int(r) != r:
                return 'r=%r' % (r,)
        except Exception:
            return 'r=%r' % (r,)
        r = int(r)
    return gs, ps, r


def same(o, gs, ps, r):
    return (not isinstance(o, str)) and o[2] == r and np.array_equal(o[0], gs) and np.array_equal(o[1], ps)


def first_diff(o, gs, ps, inp):
    """Human readable first differing row."""
    if isinstance(o, str):
        return o
    N = inp.N
    bad = np.nonzero((o[0] != gs).any(1) | (o[1] != ps))[0]
    if len(bad) == 0:
        return 'r=%r, expected %r' % (o[2], inp.r)
    j = int(bad[0])
    return 'row %d: input %s -> %s, expected %s (%d rows differ)' % (
        j, ref.g_to_str(inp.gs[j], inp.ps[j]), ref.g_to_str(o[0][j], o[1][j]), ref.g_to_str(gs[j], ps[j]), len(bad))


def ref_image(inp, perm):
    """Reference image of an input under the automorphism perm -> (gs, ps)."""
    return decode(perm[inp.idx], inp.N)


def agrees_with_ref(o, inp, perm):
    """group: element-exact.  state: equal density matrix (active stabilizers incl. signs) and rank."""
    if isinstance(o, str):
        return False
    eg, ep = ref_image(inp, perm)
    if inp.kind == 'group':
        return np.array_equal(o[0], eg) and np.array_equal(o[1], ep)
    if o[2] != inp.r:
        return False
    if np.array_equal(o[0], eg) and np.array_equal(o[1], ep):
        return True
    if ref.tableau_invariant(o[0], o[1], o[2]):
        return False
    return ref.rho_key(stab.rho_of(o[0], o[1], o[2])) == ref.rho_key(stab.rho_of(eg, ep, inp.r))


# ======================================================================= structure invariant
def walk(circ):
    fwd, l = [], circ.first_layer
    while l is not None and len(fwd) <= CAP:
        fwd.append(l)
        l = l.next_layer
    back, l = [], circ.last_layer
    while l is not None and len(back) <= CAP:
        back.append(l)
        l = l.prev_layer
    return fwd, back


def structure(circ, gates):
    """Structural invariant of the layer chain after a take().  gates = library gate objects in
    insertion order.  Returns list of (class, message)."""
    out = []
    fwd, back = walk(circ)
    if len(fwd) > CAP or len(back) > CAP:
        return [('links', 'layer chain does not terminate')]
    if len(fwd) != len(back) or any(a is not b for a, b in zip(fwd, back[::-1])):
        out.append(('links', 'prev_layer chain is not the reverse of the next_layer chain (%d vs %d layers)' % (len(fwd), len(back))))
    if fwd[0].prev_layer is not None or fwd[-1].next_layer is not None or fwd[-1] is not circ.last_layer:
        out.append(('links', 'end layers not terminated / last_layer not the end of the chain'))
    for a, b in zip(fwd, fwd[1:]):
        if b.prev_layer is not a:
            out.append(('links', 'next_layer.prev_layer is not self'))
            break
    lf = list(itertools.islice(circ.layers_forward(), CAP + 1))
    lb = list(itertools.islice(circ.layers_backward(), CAP + 1))
    if len(lf) != len(fwd) or any(a is not b for a, b in zip(lf, fwd)):
        out.append(('links', 'layers_forward() does not walk first_layer..last_layer'))
    if len(lb) != len(fwd) or any(a is not b for a, b in zip(lb, fwd[::-1])):
        out.append(('links', 'layers_backward() is not the reverse of layers_forward()'))
    where = {}
    for li, l in enumerate(fwd):
        for g in l.gates:
            if id(g) in where:
                out.append(('gates', 'a gate is stored twice'))
            where[id(g)] = li
    if set(where) != set(id(g) for g in gates) or len(set(id(g) for g in gates)) != len(gates):
        out.append(('gates', 'stored gates are not exactly the inserted gates (%d stored, %d inserted)' % (len(where), len(gates))))
        return out
    for li, l in enumerate(fwd):
        for a, b in itertools.combinations(l.gates, 2):
            if set(int(q) for q in a.qubits) & set(int(q) for q in b.qubits):
                out.append(('disjoint', 'layer %d holds overlapping gates %r and %r' % (li, a, b)))
    for i, j in itertools.combinations(range(len(gates)), 2):
        if set(int(q) for q in gates[i].qubits) & set(int(q) for q in gates[j].qubits):
            if where[id(gates[i])] >= where[id(gates[j])]:
                out.append(('order', 'gate #%d %r (layer %d) overlaps the later gate #%d %r (layer %d)' % (
                    i, gates[i], where[id(gates[i])], j, gates[j], where[id(gates[j])])))
    return out


def layout(circ):
    fwd, _ = walk(circ)
    return [[tuple(int(q) for q in g.qubits) for g in l.gates] for l in fwd[:CAP]]




# ======================================================================= exercising one object
def exercise(prop, pk, sigbase, label, factory, ins, fw, bw, vio, stats, seq=None, locality=None, dcls=None, nontrivial=True):
    """Drive one configuration (an object with forward/backward) over all inputs.

    C09: forward on a fresh input; result must equal the sequential oracle `seq` exactly (when given)
         or else the reference image under fw; `locality` = boolean mask of tableau columns that
         must stay bit-identical.
    C10: two FRESH objects: (a) backward(forward(x)) == x ; (b) backward(x) == reference inverse
         image, then forward(backward(x)) == x.  Strings, phases (mod 4) and rank are compared.
    factory(step) builds the object; step[0] names the library call in progress.
    Returns the number of real calls compared."""
    n = 0
    tail = '' if dcls is None else '/' + dcls
    rounds = ('fwd',) if prop == 'C09' else ('fb', 'bf')
    for rd in rounds:
        step = ['build']
        try:
            obj = factory(step)
        except Exception as e:
            vio('%s/%s/raises-%s' % (sigbase[0], step[0], type(e).__name__),
                '%s: %s raised %s: %s' % (label, step[0], type(e).__name__, str(e)[:200]))
            stats['raised'] = stats.get('raised', 0) + 1
            return n + 1
        nv0 = vio.count()
        for ii, inp in enumerate(ins):
            if vio.count() > nv0 + 1:
                break           # two findings per configuration and round are enough
            try:
                x = pk.fresh(inp)
                if rd == 'fwd':
                    step[0] = 'forward'
                    obj.forward(x)
                    o = observe(pk, x, inp)
                    n += 1
                    if seq is not None:
                        s = seq[ii]
                        if not same(o, s[0], s[1], s[2]):
                            vio('%s%s' % (sigbase[1], tail),
                                '%s: forward on %s differs from applying the gates one at a time: %s' % (label, inp.name, first_diff(o, s[0], s[1], inp)))
                    elif not agrees_with_ref(o, inp, fw):
                        eg, ep = ref_image(inp, fw)
                        vio('%s/forward-vs-reference%s' % (sigbase[1], tail),
                            '%s: forward on %s is not the reference automorphism: %s' % (label, inp.name, first_diff(o, eg, ep, inp)))
                    if locality is not None and not isinstance(o, str) and (o[0][:, locality] != inp.gs[:, locality]).any():
                        j = int(np.nonzero((o[0][:, locality] != inp.gs[:, locality]).any(1))[0][0])
                        vio('%s/locality' % sigbase[1],
                            '%s: forward changed a qubit outside the declared ones: %s -> %s (%s)' % (
                                label, ref.g_to_str(inp.gs[j], inp.ps[j]), ref.g_to_str(o[0][j], o[1][j]), inp.name))
                elif rd == 'fb':
                    step[0] = 'forward'
                    obj.forward(x)
                    step[0] = 'backward'
                    obj.backward(x)
                    o = observe(pk, x, inp)
                    n += 1
                    if not same(o, inp.gs, inp.ps, inp.r):
                        vio('%s/backward-after-forward%s' % (sigbase[1], tail),
                            '%s: backward(forward(x)) != x on %s: %s' % (label, inp.name, first_diff(o, inp.gs, inp.ps, inp)))
                else:
                    step[0] = 'backward'
                    obj.backward(x)
                    o = observe(pk, x, inp)
                    n += 1
                    if not agrees_with_ref(o, inp, bw):
                        eg, ep = ref_image(inp, bw)
                        vio('%s/backward-vs-reference%s' % (sigbase[1], tail),
                            '%s: backward on %s (fresh object) is not the reference inverse automorphism: %s' % (label, inp.name, first_diff(o, eg, ep, inp)))
                    step[0] = 'forward'
                    obj.forward(x)
                    o = observe(pk, x, inp)
                    n += 1
                    if not same(o, inp.gs, inp.ps, inp.r):
                        vio('%s/forward-after-backward%s' % (sigbase[1], tail),
                            '%s: forward(backward(x)) != x on %s: %s' % (label, inp.name, first_diff(o, inp.gs, inp.ps, inp)))
            except Exception as e:
                vio('%s.%s/raises-%s' % (sigbase[1], step[0], type(e).__name__),
                    '%s: %s on %s raised %s: %s' % (label, step[0], inp.name, type(e).__name__, str(e)[:200]))
                n += 1
                break
    return n


# ======================================================================= configurations
def config_list(pk, L, prop='C09'):
    """(signature name, class, how, split point).  C09 composes at every split point (its statement
    names composition); C10 (whose statement does not) only at the middle one."""
    out = []
    for cls in pk.classes:
        c = 'cc' if cls == 'CliffordCircuit' else 'ct'
        for how in ('plain', 'layers-compiled', 'compiled'):
            out.append((c + '.' + how, cls, how, None))
        if prop == 'C09':
            # order of first use: one backward run (which makes gates derive and cache their missing maps) before forward
            out.append((c + '.after-backward-run', cls, 'after-backward-run', None))
        if pk.has(cls, 'copy'):
            for how in ('copy', 'copy-of-compiled', 'copy-of-layers-compiled'):
                out.append((c + '.' + how, cls, how, None))
            if pk.tag == 'torch':
                out.append((c + '.copy-compiled-by-hand', cls, 'copy-compiled-by-hand', None))
        if L >= 1:
            # history: compile a prefix, take the remaining gates (they may slide back into compiled layers), compile again
            for k in (range(L) if prop == 'C09' else (L // 2,)):
                out.append((c + '.compile-extend-compile', cls, 'compile-extend-compile', k))
            if pk.has(cls, 'copy'):
                out.append((c + '.compiled-copy-extend-compile', cls, 'compiled-copy-extend-compile', L // 2))
        if pk.has(cls, 'compose'):
            for k in (range(L + 1) if prop == 'C09' else ((L + 1) // 2,)):
                out.append((c + '.compose', cls, 'compose', k))
                out.append((c + '.compose-compiled', cls, 'compose-compiled', k))
    return out


def build(pk, cls, N, letters, on_take=None):
    circ = pk.new_circuit(cls, N)
    gates = []
    for l in letters:
        g = l.mk(pk)
        circ.take(g)
        gates.append(g)
        if on_take is not None:
            on_take(circ, gates)
    return circ, gates


def make(pk, cls, how, k, N, letters, step, fw=None, structs=None):
    """Build one configuration.  step[0] names the library call in progress (for signatures);
    structs (list) collects structural-invariant findings (phase, class, message)."""
    step[0] = 'take'
    on_take = None
    if structs is not None and how == 'plain':
        def on_take(circ, gates):
            for what, msg in structure(circ, gates):
                structs.append(('take', what, 'after take #%d: %s' % (len(gates), msg)))
    if how.startswith('compose'):
        a, ga = build(pk, cls, N, letters[:k])
        b, gb = build(pk, cls, N, letters[k:])
        step[0] = 'compose'
        a.compose(b)
        if structs is not None:
            for what, msg in structure(a, ga + gb):
                structs.append(('compose', what, 'after compose: %s' % msg))
        if how == 'compose-compiled':
            step[0] = 'compile'
            pk.compile(a, N)
        return a
    if how in ('compile-extend-compile', 'compiled-copy-extend-compile'):
        a, ga = build(pk, cls, N, letters[:k])
        step[0] = 'compile'
        pk.compile(a, N)
        if how == 'compiled-copy-extend-compile':
            step[0] = 'copy-compiled'
            a = a.copy()
        step[0] = 'take'
        for l in letters[k:]:
            a.take(l.mk(pk))
        step[0] = 'compile'
        pk.compile(a, N)
        return a
    circ, gates = build(pk, cls, N, letters, on_take=on_take)
    if how == 'after-backward-run':
        step[0] = 'backward'
        circ.backward(pk.fresh(pk.inputs(N)[0]))
        return circ
    if how in ('layers-compiled', 'copy-of-layers-compiled'):
        step[0] = 'layer.compile'
        for lay in list(itertools.islice(circ.layers_forward(), CAP)):
            lay.compile(N)
    if how in ('compiled', 'copy-of-compiled'):
        step[0] = 'compile'
        pk.compile(circ, N)
    if how == 'copy-compiled-by-hand':
        # torch only: compile() is unusable there, so the maps a compile would produce are taken from
        # the reference and stored in the public attributes; the object under test is copy()
        CM = lib.tCM if pk.tag == 'torch' else lib.CM
        circ.forward_map = CM(*table_of_perm(fw, N))
        circ.backward_map = CM(*table_of_perm(inverse_perm(fw), N))
        step[0] = 'copy-compiled'
        return circ.copy()
    if how.startswith('copy'):
        orig = circ
        step[0] = 'copy-compiled' if how == 'copy-of-compiled' else 'copy'
        circ = orig.copy()
        if structs is not None:
            fwd, back = walk(circ)
            if len(fwd) > CAP or len(fwd) != len(back) or any(a is not b for a, b in zip(fwd, back[::-1])):
                structs.append(('copy', 'links', 'copy: prev_layer chain is not the reverse of the next_layer chain'))
            elif layout(circ) != layout(orig):
                structs.append(('copy', 'gates', 'copy: layer layout %s differs from the original %s' % (layout(circ), layout(orig))))
            elif any(a is b for a, b in zip(walk(circ)[0], walk(orig)[0])):
                structs.append(('copy', 'shared', 'copy shares a layer object with the original'))
    return circ


def sequential(prop, pk, T, N, letters, ins, fw, vio):
    """The C09 oracle: gate.forward of fresh gates in insertion order on a fresh copy of every input,
    locality of every step, and agreement of the end result with the reference product.
    Returns (list of observations | None, real calls)."""
    n = 0
    try:
        gates = [l.mk(pk) for l in letters]
    except Exception as e:
        vio('%s/gate-constructor/raises-%s' % (T, type(e).__name__), 'building the gates raised %s: %s' % (type(e).__name__, e))
        return None, 1
    seq = []
    for inp in ins:
        obj = pk.fresh(inp)
        cur = observe(pk, obj, inp)
        for l, g in zip(letters, gates):
            try:
                g.forward(obj)
            except Exception as e:
                vio('%s/gate.forward/raises-%s' % (T, type(e).__name__), 'gate %s .forward(%s) raised %s: %s' % (l.name, inp.name, type(e).__name__, e))
                return None, n + 1
            nxt = observe(pk, obj, inp)
            n += 1
            if isinstance(nxt, str):
                vio('%s/gate.forward/representation' % T, 'after gate %s on %s: %s' % (l.name, inp.name, nxt))
                return None, n
            outside = np.ones(2 * N, dtype=bool)
            for q in g.qubits:
                outside[2 * int(q)] = outside[2 * int(q) + 1] = False
            if tuple(sorted(int(q) for q in g.qubits)) != tuple(sorted(l.qubits)):
                vio('%s/gate.%s/declared-qubits' % (T, l.sigkind), 'gate %s declares qubits %s, expected %s' % (l.name, tuple(g.qubits), l.qubits))
            if (nxt[0][:, outside] != cur[0][:, outside]).any():
                j = int(np.nonzero((nxt[0][:, outside] != cur[0][:, outside]).any(1))[0][0])
                vio('%s/gate.%s/in-sequence/locality' % (T, l.sigkind), 'gate %s on qubits %s changed a qubit outside: %s -> %s (%s)' % (
                    l.name, l.qubits, ref.g_to_str(cur[0][j], cur[1][j]), ref.g_to_str(nxt[0][j], nxt[1][j]), inp.name))
            cur = nxt
        seq.append(cur)
        if not agrees_with_ref(cur, inp, fw):
            eg, ep = ref_image(inp, fw)
            vio('%s/sequential/vs-reference' % T,
                'gate-by-gate gate.forward on %s differs from the reference automorphism product: %s' % (inp.name, first_diff(cur, eg, ep, inp)))
    return seq, n


def layerwalk(prop, pk, T, N, letters, ins, vio, seq=None):
    """Layers of a circuit that was compiled AT CIRCUIT LEVEL are layers too: for every layer of the
    compiled circuit backward(forward(x)) == x and forward(backward(x)) == x (C10), and applying the
    layers' forward one after the other equals the sequential oracle (C09)."""
    n = 0
    for cls in pk.classes:
        c = 'cc' if cls == 'CliffordCircuit' else 'ct'
        try:
            circ, gates = build(pk, cls, N, letters)
            pk.compile(circ, N)
            layers = list(itertools.islice(circ.layers_forward(), CAP))
        except Exception:
            continue     # a failing compile is reported by the 'compiled' configuration
        for ii, inp in enumerate(ins):
            if prop == 'C10':
                for li, lay in enumerate(layers):
                    for order in ('fb', 'bf'):
                        obj = pk.fresh(inp)
                        before = observe(pk, obj, inp)
                        try:
                            if order == 'fb':
                                lay.forward(obj); lay.backward(obj)
                            else:
                                lay.backward(obj); lay.forward(obj)
                        except Exception as e:
                            vio('%s/%s.compiled-layerwalk/raises-%s' % (T, c, type(e).__name__), 'layer %d of the compiled %s raised %s: %s' % (li, cls, type(e).__name__, e))
                            return n + 1
                        after = observe(pk, obj, inp)
                        n += 2
                        if isinstance(after, str) or not same(after, before[0], before[1], before[2]):
                            vio('%s/%s.compiled-layerwalk/%s/layer>=%d' % (T, c, 'backward-after-forward' if order == 'fb' else 'forward-after-backward', min(li, 1)),
                                'layer %d of %d of the circuit-compiled %s: %s does not return %s to its original value' % (li, len(layers), cls, 'backward(forward(x))' if order == 'fb' else 'forward(backward(x))', inp.name))
                            return n
            else:
                obj = pk.fresh(inp)
                try:
                    for lay in layers:
                        lay.forward(obj)
                except Exception as e:
                    vio('%s/%s.compiled-layerwalk/raises-%s' % (T, c, type(e).__name__), 'walking the layers of the compiled %s raised %s: %s' % (cls, type(e).__name__, e))
                    return n + 1
                after = observe(pk, obj, inp)
                n += len(layers)
                if seq is not None and (isinstance(after, str) or not same(after, seq[ii][0], seq[ii][1], seq[ii][2])):
                    vio('%s/%s.compiled-layerwalk/forward' % (T, c), 'applying the layers of the circuit-compiled %s one by one to %s differs from gate-by-gate application' % (cls, inp.name))
                    return n
    return n


def compose_history(pk, T, N, letters, ins, vio):
    """compose() must not entangle the two circuits: after a.compose(b), adding gates to a must leave b's
    action and layer chain untouched, and adding gates to b must leave a untouched (history
    compose -> in-place mutation of one circuit -> re-observe the other; every split point incl. the
    empty receiver and the empty argument)."""
    n = 0
    A = alphabet(pk.tag, N)
    extra = [A[0], A[-1]]
    L = len(letters)
    for cls in pk.classes:
        if not pk.has(cls, 'compose'):
            continue
        c = 'cc' if cls == 'CliffordCircuit' else 'ct'
        for k in range(L + 1):
            fa = ident(N)
            for l in letters:
                fa = l.perm[fa]
            fb = ident(N)
            for l in letters[k:]:
                fb = l.perm[fb]
            for who in ('receiver', 'argument'):
                try:
                    a, ga = build(pk, cls, N, letters[:k])
                    b, gb = build(pk, cls, N, letters[k:])
                    a.compose(b)
                    mut, other, fo, go = (a, b, fb, gb) if who == 'receiver' else (b, a, fa, ga + gb)
                    for e in extra:
                        mut.take(e.mk(pk))
                except Exception as e_:
                    vio('%s/%s.compose-then-take/raises-%s' % (T, c, type(e_).__name__), 'compose at split %d then take on the %s raised %s: %s' % (k, who, type(e_).__name__, e_))
                    return n + 1
                fwd, back = walk(other)
                held = [g for lay in fwd for g in lay.gates]
                if len(held) != len(go) or any(x is not y for x, y in zip(sorted(held, key=id), sorted(go, key=id))):
                    vio('%s/%s.compose-then-take/%s-mutated/other-gained-gates' % (T, c, who),
                        'after a.compose(b) (split %d: %d + %d gates) and two take() on the %s, the OTHER circuit holds %d gates instead of %d' % (k, k, L - k, who, len(held), len(go)))
                    return n + 1
                for inp in ins[:2]:
                    obj = pk.fresh(inp)
                    other.forward(obj)
                    n += 1
                    if not agrees_with_ref(observe(pk, obj, inp), inp, fo):
                        vio('%s/%s.compose-then-take/%s-mutated/other-action-changed' % (T, c, who),
                            'after a.compose(b) (split %d) and two take() on the %s, the OTHER circuit no longer acts as its own gate sequence on %s' % (k, who, inp.name))
                        return n
    return n


def copy_history(pk, T, N, letters, ins, vio):
    """copy() must not entangle the two circuits either: a circuit is compiled (layer by layer, or as a whole), copied,
    ONE of the two takes the remaining gates (gates sinking into existing layers included) and is compiled again in the
    same way; then the OTHER one must still act as its own gate sequence - as it stands and after being recompiled -
    and the extended one as the full sequence.  Every split point, both directions of extension."""
    n = 0
    L = len(letters)
    for cls in pk.classes:
        if not pk.has(cls, 'copy'):
            continue
        c = 'cc' if cls == 'CliffordCircuit' else 'ct'
        for how in ('layers', 'whole'):
            def comp(x):
                if how == 'whole':
                    pk.compile(x, N)
                else:
                    for lay in walk(x)[0]:
                        lay.compile(N)
            for k in range(0, L):
                fk = ident(N)
                for l in letters[:k]:
                    fk = l.perm[fk]
                ffull = ident(N)
                for l in letters:
                    ffull = l.perm[ffull]
                for who in ('copy', 'original'):
                    try:
                        a, _ = build(pk, cls, N, letters[:k])
                        comp(a)
                        b = a.copy()
                        mut, other = (b, a) if who == 'copy' else (a, b)
                        for l in letters[k:]:
                            mut.take(l.mk(pk))
                        comp(mut)
                    except Exception as e_:
                        vio('%s/%s.compiled(%s)-copy-extend-%s/raises-%s' % (T, c, how, who, type(e_).__name__), 'compile (%s), copy, extend the %s at split %d, compile raised %s: %s' % (how, who, k, type(e_).__name__, e_))
                        return n + 1
                    for stage in ('as-it-stands', 'recompiled'):
                        if stage == 'recompiled':
                            try:
                                comp(other)
                            except Exception as e_:
                                vio('%s/%s.compiled(%s)-copy-extend-%s/raises-%s' % (T, c, how, who, type(e_).__name__), 'recompiling the untouched circuit raised %s' % e_)
                                return n + 1
                        for obj_c, perm, role in ((other, fk, 'untouched'), (mut, ffull, 'extended')):
                            for inp in ins[:2]:
                                for d, pf in (('forward', perm), ('backward', inverse_perm(perm))):
                                    obj = pk.fresh(inp)
                                    try:
                                        getattr(obj_c, d)(obj)
                                    except Exception as e_:
                                        vio('%s/%s.compiled(%s)-copy-extend-%s/raises-%s' % (T, c, how, who, type(e_).__name__), '%s of the %s circuit raised %s' % (d, role, e_))
                                        return n + 1
                                    n += 1
                                    if not agrees_with_ref(observe(pk, obj, inp), inp, pf):
                                        vio('%s/%s.compiled(%s)-copy-extend-%s/%s-circuit-%s' % (T, c, how, who, role, stage),
                                            'circuit of the first %d gates compiled (%s), copied, the %s extended by the last %d gates and compiled again: the %s circuit (%s) does not act as its own gate sequence (%s on %s)' % (
                                                k, 'layer by layer' if how == 'layers' else 'as a whole', who, L - k, role, stage, d, inp.name))
                                        return n
    return n


# ======================================================================= program runner
def run_programs(prop, tag, items):
    """items = [[N, [letter indices]], ...].  prop in {'C09','C10'}; tag in {'py','torch'}."""
    pk = PKS[tag]
    n = nt = 0
    viol = []
    keys = set()
    samples = []
    extra = {}
    T = '%s/%s' % (prop, tag)
    for item in items:
        N, prog = int(item[0]), [int(i) for i in item[1]]
        A = alphabet(tag, N)
        letters = [A[i] for i in prog]
        L = len(letters)
        names = [l.name for l in letters]
        fw = ident(N)
        for l in letters:
            fw = l.perm[fw]
        bw = inverse_perm(fw)
        rev = ident(N)
        for l in reversed(letters):
            rev = l.perm[rev]
        order_matters = bool((rev != fw).any())
        depth = ref_depth([l.qset for l in letters])
        dcls = 'multi-layer' if depth >= 2 else 'one-layer'
        keys.add(hash(fw.tobytes()))
        ins = pk.inputs(N)
        if prop == 'C09':
            nontrivial = L >= 2 and (order_matters or depth < L)
        else:
            nontrivial = bool((fw != ident(N)).any())
        if order_matters:
            extra['programs_order_matters'] = extra.get('programs_order_matters', 0) + 1
        if 0 < depth < L:
            extra['programs_with_sliding_gate'] = extra.get('programs_with_sliding_gate', 0) + 1

        def vio(sig, msg, obs=None, exp=None):
            viol.append(V(sig, item, 'N=%d program %s: %s' % (N, names, msg), obs, exp))
        vio.count = lambda: len(viol)

        seq = None
        if prop == 'C09':
            seq, k_ = sequential(prop, pk, T, N, letters, ins, fw, vio)
            n += k_
            if seq is None:
                continue
        for cfg, cls, how, k in config_list(pk, L, prop):
            label = '%s %s' % (cls, how if k is None else '%s (first %d gates + last %d gates)' % (how, k, L - k))
            structs = [] if prop == 'C09' else None

            def factory(step, cls=cls, how=how, k=k, structs=structs):
                return make(pk, cls, how, k, N, letters, step, fw=fw, structs=structs)
            c = exercise(prop, pk, (T, '%s/%s' % (T, cfg)), label, factory, ins, fw, bw, vio, extra, seq=seq, dcls=dcls)
            n += c
            if nontrivial:
                nt += c
            extra['cfg_' + cfg] = extra.get('cfg_' + cfg, 0) + 1
            if structs:
                n += 1
                for phase, what, msg in structs[:3]:
                    vio('%s/structure/%s/%s' % (T, phase, what), '%s: %s' % (label, msg))
        if tag == 'py' and prop == 'C09' and 1 <= L <= 3:
            n += compose_history(pk, T, N, letters, ins, vio)
            extra['cfg_compose-then-take'] = extra.get('cfg_compose-then-take', 0) + 1
        if prop == 'C09' and 1 <= L <= (3 if tag == 'py' else 2):
            n += copy_history(pk, T, N, letters, ins, vio)
            extra['cfg_compiled-copy-extend-other'] = extra.get('cfg_compiled-copy-extend-other', 0) + 1
        if tag == 'py' and L >= 2:
            c = layerwalk(prop, pk, T, N, letters, ins, vio, seq=seq)
            n += c
            extra['cfg_compiled-layerwalk'] = extra.get('cfg_compiled-layerwalk', 0) + 1
        if not samples and L >= 2 and order_matters:
            e0 = int(ref.elem_index(np.eye(2 * N, dtype=I64)[0], 0, N))
            samples.append({'N': N, 'program': names, 'reference_depth': depth,
                            'reference_image_of_+X%s' % ('I' * (N - 1)): estr(int(fw[e0]), N),
                            'configurations': sorted(set(c[0] for c in config_list(pk, L, prop)))})
    return {'n': n, 'nt': nt, 'viol': viol, 'keys': keys, 'samples': samples, 'extra': extra}


# ======================================================================= single gates
GATE_VARIANTS = ('gate', 'gate-compiled', 'gate-copy', 'gate-used-copy', 'layer', 'layer-compiled', 'layer-copy',
                 'circuit', 'circuit-compiled')


def run_gates(prop, tag, items):
    """items = [[N, spec], ...]: one gate, exercised bare, compiled, copied, inside a one-gate layer
    and inside one-gate circuits (every class), on the whole group and states of every rank."""
    pk = PKS[tag]
    n = nt = 0
    viol = []
    keys = set()
    samples = []
    extra = {}
    T = '%s/%s' % (prop, tag)
    for item in items:
        N, spec = int(item[0]), item[1]
        L = Letter(N, spec)
        ins = pk.inputs(N)

        def vio(sig, msg, obs=None, exp=None):
            viol.append(V(sig, item, 'N=%d gate %s: %s' % (N, L.name, msg), obs, exp))
        vio.count = lambda: len(viol)
        try:
            g0 = L.mk(pk)
        except Exception as e:
            ctor = 'clifford_rotation_gate' if L.kind.startswith('rotctor') else 'gate-constructor.' + L.kind
            vio('%s/%s/raises-%s' % (T, ctor, type(e).__name__), 'constructor raised %s: %s' % (type(e).__name__, str(e)[:200]))
            n += 1
            continue
        fw = L.perm
        bw = inverse_perm(fw)
        keys.add(hash(fw.tobytes()))
        got = tuple(sorted(int(q) for q in g0.qubits))
        if got != tuple(sorted(L.qubits)):
            vio('%s/gate.%s/declared-qubits' % (T, L.sigkind), 'declares qubits %s, expected %s' % (tuple(g0.qubits), L.qubits))
            continue
        outside = np.ones(2 * N, dtype=bool)
        for q in L.qubits:
            outside[2 * q] = outside[2 * q + 1] = False
        nontriv = bool((fw != ident(N)).any())
        variants = []
        for v in GATE_VARIANTS:
            if v.startswith('circuit'):
                for cls in pk.classes:
                    variants.append((v, cls))
            else:
                variants.append((v, None))
        nv_gate = vio.count()
        for v, cls in variants:
            def factory(step, v=v, cls=cls):
                step[0] = 'gate-constructor'
                g = L.mk(pk)
                if v == 'gate':
                    return g
                if v == 'gate-compiled':
                    step[0] = 'gate.compile'
                    return g.compile()
                if v == 'gate-copy':
                    step[0] = 'gate.copy'
                    return g.copy()
                if v == 'gate-used-copy':
                    x = pk.fresh(ins[-1])
                    step[0] = 'gate.forward'
                    g.forward(x)
                    if prop == 'C10':
                        step[0] = 'gate.backward'
                        g.backward(x)
                    step[0] = 'gate.copy'
                    return g.copy()
                if v.startswith('layer'):
                    lay = pk.new_layer(g)
                    if v == 'layer-compiled':
                        step[0] = 'layer.compile'
                        lay.compile(N)
                    if v == 'layer-copy':
                        step[0] = 'layer.copy'
                        lay = lay.copy()
                    return lay
                step[0] = 'take'
                circ = pk.new_circuit(cls, N)
                circ.take(g)
                if v == 'circuit-compiled':
                    step[0] = 'compile'
                    pk.compile(circ, N)
                return circ
            vs = v if cls is None else '%s.%s' % (v, 'cc' if cls == 'CliffordCircuit' else 'ct')
            c = exercise(prop, pk, (T, '%s/gate.%s/%s' % (T, L.sigkind, vs)), '%s%s' % (v, '' if cls is None else ' (' + cls + ')'),
                         factory, ins, fw, bw, vio, extra, seq=None, locality=outside if prop == 'C09' else None)
            n += c
            if nontriv:
                nt += c
            if v == 'gate' and vio.count() > nv_gate:
                break       # the bare gate already deviates; the wrapped variants would only repeat it
        extra['gates_' + L.kind] = extra.get('gates_' + L.kind, 0) + 1
        if not samples and L.kind in ('bmap', 'rotctor') and len(L.qubits) >= 2:
            tg, tp = table_of_perm(fw, N)
            samples.append({'N': N, 'gate': L.name, 'declared_qubits': list(L.qubits),
                            'reference_forward_table': [ref.g_to_str(a, b) for a, b in zip(tg, tp)]})
    return {'n': n, 'nt': nt, 'viol': viol, 'keys': keys, 'samples': samples, 'extra': extra}


# ======================================================================= single layers
LAYER_VARIANTS = ('direct', 'direct-compiled', 'taken', 'taken-compiled', 'copy', 'copy-of-compiled')


def disjoint_tuples(tag, N, maxk):
    """All ordered tuples (1..maxk letters) of pairwise disjoint base letters."""
    A = alphabet(tag, N)
    out = []
    for k in range(1, maxk + 1):
        for tup in itertools.permutations(range(len(A)), k):
            qs = [A[i].qset for i in tup]
            if all(not (a & b) for a, b in itertools.combinations(qs, 2)):
                out.append([N, list(tup)])
    return out


def run_layers(prop, tag, items):
    """items = [[N, [pairwise disjoint letter indices]]]: one CliffordLayer built directly / by take,
    uncompiled / compiled / copied."""
    pk = PKS[tag]
    n = nt = 0
    viol = []
    keys = set()
    extra = {}
    T = '%s/%s' % (prop, tag)
    for item in items:
        N, prog = int(item[0]), [int(i) for i in item[1]]
        A = alphabet(tag, N)
        letters = [A[i] for i in prog]
        names = [l.name for l in letters]
        fw = ident(N)
        for l in letters:
            fw = l.perm[fw]
        bw = inverse_perm(fw)
        keys.add(hash(fw.tobytes()))
        ins = pk.inputs(N)
        outside = np.ones(2 * N, dtype=bool)
        for l in letters:
            for q in l.qubits:
                outside[2 * q] = outside[2 * q + 1] = False

        def vio(sig, msg, obs=None, exp=None):
            viol.append(V(sig, item, 'N=%d layer %s: %s' % (N, names, msg), obs, exp))
        vio.count = lambda: len(viol)
        for v in LAYER_VARIANTS:
            def factory(step, v=v):
                step[0] = 'gate-constructor'
                gates = [l.mk(pk) for l in letters]
                if v.startswith('taken'):
                    lay = pk.new_layer()
                    step[0] = 'layer.take'
                    for g in gates:
                        lay.take(g)
                else:
                    lay = pk.new_layer(*gates)
                if v.endswith('compiled'):
                    step[0] = 'layer.compile'
                    lay.compile(N)
                if v.startswith('copy'):
                    step[0] = 'layer.copy'
                    lay = lay.copy()
                return lay
            c = exercise(prop, pk, (T, '%s/layer/%s' % (T, v)), 'CliffordLayer %s' % v, factory, ins, fw, bw, vio, extra,
                         seq=None, locality=outside if prop == 'C09' else None)
            n += c
            nt += c
    return {'n': n, 'nt': nt, 'viol': viol, 'keys': keys, 'extra': extra}


# ======================================================================= gate domains
def gate_specs(tag, N, tier, prop='C09'):
    """The single-gate domain of the `gates` legs (ascending qubit tuples only for generic gates)."""
    out = []
    quick = tier == 'quick'
    tuples = {n: [list(c) for c in itertools.combinations(range(N), n)] for n in range(1, N + 1)}
    letters = {1: ['X', 'Y', 'Z']}
    for n in (2, 3):
        letters[n] = [''.join(s) for s in itertools.product('IXYZ', repeat=n) if any(ch != 'I' for ch in s)]
    if tag == 'py':
        for q in range(N):
            for nm in 'HSXYZ':
                out.append(['named', nm, [q]])
            for k in range(24):
                out.append(['C', k, q])
        for a, b in itertools.permutations(range(N), 2):
            out.append(['named', 'CNOT', [a, b]])
    # generator gates on every ascending tuple, both signs (strings may hold identities inside the tuple)
    for n in range(1, N + 1):
        strs = letters[n]
        if tag == 'torch':
            strs = strs[::max(1, len(strs) // 4)]
        for qs in tuples[n]:
            for s in strs:
                for p in (0, 2):
                    out.append(['gen', qs, s, p])
    # clifford_rotation_gate from full-width generators (identity gaps included), both signs
    full = [''.join(s) for s in itertools.product('IXYZ', repeat=N) if any(ch != 'I' for ch in s)]
    if tag == 'torch':
        full = full[::max(1, len(full) // 3)]
    for s in full:
        for p in (0, 2):
            out.append(['rotctor', s, p])
    if tag == 'py' and N >= 2:
        out.append(['rotctorq', 'X' * N, 2, list(range(N))])
        out.append(['rotctorq', 'I' * (N - 1) + 'Y', 0, list(range(N))])
        if N >= 3:
            out += [['rotctorq', 'XZ', 0, [0, 2]], ['rotctorq', 'IX', 2, [1, 2]], ['rotctorq', 'YI', 2, [0, 2]], ['rotctorq', 'ZIX', 0, [0, 1, 2]]]
    # map gates: forward only / backward only / both
    n1 = range(24) if tag == 'py' else range(1, 24, 6)
    for qs in tuples[1]:
        for i in n1:
            for kind in ('fmap', 'bmap', 'fbmap'):
                out.append([kind, qs, 1, i])
    if N >= 2:
        if tag == 'py':     # all 11520 two-qubit maps in thorough (C10 at N=3: every third, three placements each)
            stride = 97 if quick else (3 if (prop == 'C10' and N == 3) else 1)
        else:
            stride = 2879 if quick else 577
        for qs in tuples[2]:
            for i in range(0, 11520, stride):
                out.append(['fmap', qs, 2, i])
                out.append(['bmap', qs, 2, i])
                if i % (7 * stride) == 0:
                    out.append(['fbmap', qs, 2, i])
    if N == 3 and tag == 'py':
        for prog in ([0, 8, 4, 12, 14, 1, 7, 11], [6, 7, 3, 16], [12, 13, 15], [14, 15, 16, 9, 2]):
            out.append(['fmap3', prog])
            out.append(['bmap3', prog])
    return [[N, sp] for sp in out]


# ======================================================================= reference self-check
def selfcheck():
    """The reference permutations are validated against dense matrices and against each other
    (two independent formulas) before they are used as an oracle."""
    out = {}
    for (tag, N), specs in sorted(_BASE.items()):
        A = alphabet(tag, N)
        E = np.eye(2 * N, dtype=I64)
        for l in A:
            p = l.perm
            assert sorted(p.tolist()) == list(range(4 * 4 ** N)), l.name
            tg, tp = table_of_perm(p, N)
            assert ref.is_valid_map(tg, tp), l.name
            # the permutation is the automorphism generated by its generator images (map_apply formula)
            assert (perm_table(tg, tp, N) == p).all(), l.name
            if l.kind in ('gen', 'rotctor'):
                gfull = ref.str_to_g(l.spec[1] if l.kind == 'rotctor' else full_string(l.spec[2], l.qubits, N))
                U = ref.rot_unitary(gfull, l.spec[-1] if l.kind == 'gen' else l.spec[2], N)
                for j in range(2 * N):
                    assert np.allclose(U.conj().T @ ref.mat(E[j], 0) @ U, ref.mat(tg[j], tp[j])), l.name
            if l.kind in ('fmap', 'bmap'):
                assert (p[p] != ident(N)).any() and set(l.small[1].tolist()) == {0, 2}, l.name
        out['letters_%s_N%d' % (tag, N)] = len(A)
    for N in (1, 2, 3, 4):
        tableaux_pool(N)
    out['perms_vs_dense_and_map_apply'] = True
    return out


def warmup(tag, Ns=(2, 3)):
    if tag == 'py':
        Ns = (2, 3, 4)
    """Run every base letter through every code path once in the parent, so that forked workers
    inherit all numba specialisations."""
    for N in Ns:
        A = alphabet(tag, N)
        run_programs('C09', tag, [[N, [i]] for i in range(len(A))] + [[N, [0, 1]]])
        run_programs('C10', tag, [[N, [i]] for i in range(len(A))][:4])
