#!/usr/bin/env python3
"""Prints the detection tables (markdown) for DESIGN.md section 8 from mutants/results.json,
mutants/targets.json and seeded/*/meta.json."""
import json, glob, os
V = '/verif'
res = json.load(open(V + '/mutants/results.json'))
tg = json.load(open(V + '/mutants/targets.json'))
print('| mutant (mutants/<name>.diff) | what it does | quick checks run -> exit code, first signatures |')
print('|---|---|---|')
for name in tg:
    r = res.get(name, {})
    cells = []
    for prop, v in r.items():
        if isinstance(v, dict):
            cells.append('%s -> %s %s' % (prop, v.get('rc'), ', '.join('`%s`' % s for s in v.get('signatures', [])[:2])))
        else:
            cells.append('%s: %s' % (prop, v))
    print('| %s | %s | %s |' % (name, tg[name]['what'], '; '.join(cells)))
print()
print('| seeded change | round | what it is and what it needs (summary of the author\'s notes) | demo clean/patched | baseline | own-property quick check, first run | after strengthening |')
print('|---|---|---|---|---|---|---|')
def fmt(ch):
    return '; '.join('%s -> %s %s' % (p, v['rc'], ' '.join('`%s`' % x for x in str(v.get('signatures', '')).split(',')[:2] if x)) for p, v in ch.items())
tot = {k: [0, 0, 0, 0] for k in (1, 2, 3, 4, 5, 6, 7, 8)}
for d in sorted(glob.glob(V + '/seeded/*')):
    m = json.load(open(d + '/meta.json'))
    rnd = m.get('round', 1)
    own = m['breaks_property']
    first = m.get('first_run_checks') or m['our_quick_checks']
    final = m['our_quick_checks']
    f_ok = first.get(own, {}).get('rc') == 1
    l_ok = any(v.get('rc') == 1 for v in final.values())
    th = m.get('thorough_check') or {}
    t_ok = (not l_ok) and any(v.get('rc') == 1 for v in th.values())
    tot[rnd][0] += 1; tot[rnd][1] += int(f_ok); tot[rnd][2] += int(l_ok); tot[rnd][3] += int(t_ok)
    print('| %s | %d | %s | %s/%s | %s | %s | %s |' % (m['id'], rnd, m.get('summary', ''), m['demo_rc_clean_tree'], m['demo_rc_patched_tree'],
          '58/58' if '58/58' in m['baseline_with_patch'] else m['baseline_with_patch'][:40], fmt(first), ('same' if first is final or m.get('first_run_checks') is None or first == final else fmt(final)) + ((' ; thorough tier: ' + fmt(th)) if th else '')))
print()
for r in sorted(k for k in tot if tot[k][0]):
    print('round %d: %d changes, %d reported by the own-property quick check at first run, %d reported by some quick check now%s' % (r, tot[r][0], tot[r][1], tot[r][2], (' (+%d by the thorough tier only)' % tot[r][3]) if tot[r][3] else ''))
