#!/usr/bin/env python3
"""Prints the detection tables (markdown) for DESIGN.md section 8 from mutants/results.json,
mutants/targets.json and seeded/*/meta.json."""
import json, glob, os
V = '/verif'
res = json.load(open(V + '/mutants/results.json'))
tg = json.load(open(V + '/mutants/targets.json'))
print('| mutant (mutants/<name>.diff) | what it does | quick checks run -> exit code, first signatures |')
print('|---|---|---|')
for name in tg:
    r = res.get(name, {})
    cells = []
    for prop, v in r.items():
        if isinstance(v, dict):
            cells.append('%s -> %s %s' % (prop, v.get('rc'), ', '.join('`%s`' % s for s in v.get('signatures', [])[:2])))
        else:
            cells.append('%s: %s' % (prop, v))
    print('| %s | %s | %s |' % (name, tg[name]['what'], '; '.join(cells)))
print()
print('| seeded change | breaks | needs to manifest (from the author\'s notes) | demo clean/patched | baseline with patch | our quick checks |')
print('|---|---|---|---|---|---|')
for d in sorted(glob.glob(V + '/seeded/*')):
    m = json.load(open(d + '/meta.json'))
    chk = '; '.join('%s -> %s %s' % (p, v['rc'], ' '.join('`%s`' % s for s in v['signatures'].split(',')[:2] if s)) for p, v in m['our_quick_checks'].items())
    need = m.get('summary', '')
    print('| %s | %s | %s | %s/%s | %s | %s |' % (m['id'], m['breaks_property'], need, m['demo_rc_clean_tree'], m['demo_rc_patched_tree'],
          '58/58' if '58/58' in m['baseline_with_patch'] else m['baseline_with_patch'][:40], chk))
