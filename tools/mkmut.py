#!/usr/bin/env python3
"""mkmut.py <name> <relative file> <old> <new> [count]: writes /verif/mutants/<name>.diff (patch -p1 format
relative to the repo root) replacing `old` by `new` in the given file of /repo. Does not touch /repo."""
import sys, os, difflib
name, rel, old, new = sys.argv[1:5]
cnt = int(sys.argv[5]) if len(sys.argv) > 5 else 1
src = open(os.path.join('/repo', rel)).read()
old = old.encode().decode('unicode_escape'); new = new.encode().decode('unicode_escape')
assert src.count(old) == cnt, 'occurrences: %d' % src.count(old)
dst = src.replace(old, new)
diff = difflib.unified_diff(src.splitlines(True), dst.splitlines(True), 'a/' + rel, 'b/' + rel)
open('/verif/mutants/%s.diff' % name, 'w').write(''.join(diff))
print('wrote mutants/%s.diff' % name)
