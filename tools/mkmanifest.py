#!/usr/bin/env python3
"""Regenerates /verif/MANIFEST.json from the table below (keeps it valid at all times)."""
import json
import os

HERE = os.path.dirname(os.path.dirname(os.path.abspath(__file__)))

# property -> (technique, level text, level note, design ref)
CHECKS = {
    'C01': ('explicit-state exhaustive exploration of the Pauli-group Cayley graph on the real code vs dense-matrix reference',
            'Every ordered pair of Pauli operators (all strings x 4 phases) for N<=3 (N<=4 thorough) is multiplied by the real '
            'code and compared with the matrix product; all triples for N<=2 (associativity, results fed back as operands), '
            'group-covering product chains, the kernel functions acq/ipow/acq_mat/batch_dot/pauli_combine, and the torch port. '
            'Complete for the stated N; every finite chain of products is a path through checked edges.',
            'Dense 2x2 matrices + numpy kron are the root oracle; bounded to N<=3/4 (kernels loop uniformly over qubits).',
            '3/C01'),
    'C05': ('explicit-state inductive sweep over the complete valid tableau space (N<=2) x operation menu x all coin branches on the real code, plus reachability BFS',
            'From each of the 48 / 34560 independently enumerated valid tableaux every menu operation (rotations with and without mask, '
            'map transforms, named gates forward/backward, single and pair measurements and MeasureLayer under every coin branch, '
            'state-argument measurement, post-selection, copy, map round trip) is executed on a fresh real object and the successor '
            'must again be valid; by induction the invariant holds after every finite history at those N. Constructors (random ones over '
            'the complete coin tree) and a BFS for N=3 supplement it.',
            'Bounded to N<=2 for the complete sweep (N=3 BFS is capped and reported as supplementary); RNG ownership by MT19937 state scripting.',
            '3/C05'),
    'C06': ('stateless exhaustive exploration of the measurement coin tree from every valid tableau on the real code vs density-matrix trajectory',
            'For all 34560 N=2 tableaux x all 32 signed observables, and all 544 commuting signed pairs (on one tableau per density matrix in '
            'quick, on all tableaux in thorough), every coin string the kernel consumes is enumerated; outcomes, coin count, log2prob, '
            'post-state (as density matrix), rank and repetition are compared with the projection postulate. Interleavings with unitaries '
            'follow by induction since every valid state is a source.',
            'MT19937 bits fair/independent; bounded to N<=2 complete, N=3 on BFS representatives (supplementary).',
            '3/C06'),
    'C02': ('exhaustive enumeration of (generator, operand) pairs over the complete Pauli group / map set / tableau space on the real code vs dense U^dag P U',
            'All Hermitian generators (strings x +-) x all 4*4^N operators for N<=3 (as list, single Pauli, polynomial), all masks embedding n<N qubit '
            'generators into N<=3 (4 thorough), all 11520 maps and all 34560 tableaux of N=2 x all 32 generators (+ masked ones); rotate-by-G-then-minus-G '
            'and four-fold rotation histories on live objects; torch port at N<=2 (3 thorough).',
            'Reference = exactly signed i*P*G rule cross-checked against dense exp(i pi/4 G) conjugation for N<=2; bounded N.',
            '3/C02'),
    'C03': ('exhaustive enumeration of the Clifford group (N<=2, all sign patterns) x Pauli group on the real code vs reference homomorphism and reconstructed unitary',
            'Every one of the 24 / 11520 valid maps is applied to the complete Pauli group (4 phases); identity, generator rows, multiplicativity on all '
            'pairs, phase linearity, and the literal existence of one unitary U with img(P)=U^dag P U (reconstructed from the intertwining equations) are '
            'checked per map; masks/embed for all 1-qubit maps at every position of N<=3 and 2-qubit maps on the three masks of N=3; rotation maps vs '
            'rotate_by for all generators N<=3; polynomial coefficients; state transforms; torch port.',
            'Only valid maps are in scope; N=3 maps only through masks/rotation maps.',
            '3/C03'),
    'C04': ('exhaustive enumeration of map pairs/triples and BFS group closure with the library compose, vs reference automorphism composition',
            'N=1: all 24^2 pairs and 24^3 triples; N=2: all 11520 maps x 10 generators on both sides, inverse of every map (two-sided, reference and '
            'library), neutrality, anti-homomorphism, operand immutability and aliasing; thorough: all 11520^2 ordered pairs; BFS closure of {identity} under '
            'the library compose reproduces exactly the independently enumerated group; z2inv on every 2x2 and 4x4 binary matrix (singular ones must raise); '
            'histories inverse -> in-place mutation -> inverse on one live map; N=3 maps by BFS; maps built by compile() (circuit / layer / gate level mutually inverse, lazily derived inverses).',
            'Associativity for N=2 triples follows from compose == reference composition on all pairs (thorough) / on generator pairs (quick).',
            '3/C04'),
    'C07': ('exhaustive enumeration of (tableau, observable), (pure tableau, tableau) and (tableau, bit string) pairs on the real code vs trace formulas on dense matrices',
            'All 34560 N=2 tableaux x the complete signed Pauli list and imaginary-phase Paulis; Paulis with all phases, monomials, four-term polynomials with '
            'repeated strings and unreduced products on every 8th tableau + one per density matrix (all in thorough); overlaps: pure receivers x one argument per '
            'density matrix of every rank and all arguments x every pure state; get_prob on all bit strings (sum to one); receiver/argument snapshots; N=3 tableaux of every rank; '
            'live histories (query round -> each of 312 in-place operations -> query round on one object vs a fresh object) for both packages; torch port.',
            'expect(state) on a mixed receiver raises NotImplementedError = abstention; bounded to N<=2 (N=3 supplementary in thorough).',
            '3/C07'),
    'C12': ('exhaustive enumeration of maps (N<=2, all signs), of all ordered independent commuting signed stabilizer lists (N<=3) and of constructor coin strings on the real code vs explicit density matrices',
            'to_state / zero_state.transform_by / to_map round trip / to_state(r) for all 11520 maps; zero, one, GHZ, maximally mixed for N<=4 vs explicit '
            'matrices; random_bit_state over all coin strings, random_pauli_state over the coin tree; to_qutip of tableaux N<=2; stabilizer_state on every '
            'ordered independent commuting list of N<=3 with sign patterns in three input formats (projector onto the joint +1 eigenspace, r=N-L); every '
            'anticommuting pair raises ValueError (torch: also as non-neighbours); random_*_state(N, r) has the requested rank; to_qutip for N=3..5 of every rank; torch port.',
            'Dependent lists / non-Hermitian phases are out of scope; N=3 L=3 lists use 4 sign patterns (quick: a quarter of the lists).',
            '3/C12'),
    'C14': ('stateless exhaustive exploration of (program, input, coin string) triples of Circuit with mid-circuit measurement on the real code vs dense trajectory, direct measurement and layer-order invariant',
            'All programs up to length 2 (3 thorough) over a 9-letter alphabet with four measurement letters from one input per density matrix (all ranks), '
            'longer programs on a rotating input subset, compiled and plain, single-measurement programs from all 34560 tableaux, an N=3 family; every coin '
            'string; record, log2prob, final state and rank vs the density-matrix trajectory and vs step-by-step StabilizerState.measure; layer-order '
            'invariant after construction; postselect on all pure tableaux x signed observables x outcomes; Circuit.backward with the recorded and every '
            'alternative record (adjoint trajectory or ValueError exactly when impossible); accumulation across repeated forward calls.',
            'Backward/postselect on pure states only (the library refuses mixed ones); bounded program length.',
            '3/C14'),
    'C08': ('exhaustive enumeration of all stabilizer groups (isotropic subspaces) with all ordered bases x all subsystems x input formats on the real code vs dense partial-trace entropy',
            'All 24 741 ordered independent commuting lists of N<=3 (and the empty list) x all 2^N subsystems x index list / tuple / int array / boolean mask; '
            'entropy compared with the von Neumann entropy of the partial trace; separate check points for empty / whole system, pure complement symmetry, '
            'generator independence per group, invariance under H/S/CNOT inside and outside the region; z2rank on all small binary matrices; thorough: all 1.96M '
            'lists of N=4 with L<=3 and all 2295 Lagrangian subspaces; torch port N<=2 complete, N=4 capped.',
            'Dense eigenvalue entropy is the oracle; N=4 L=4 uses every 24th ordered basis (capped, reported).',
            '3/C08'),
    'C09': ('exhaustive enumeration of gate programs x circuit configurations on the real code vs gate-by-gate application and reference automorphism product',
            'All programs up to length 2 over 17 letters at N=3, length 3 over 12 letters at N=2, length 3 over a 7-letter sub-alphabet at N=3, length 2 at N=4 '
            '(thorough: length 4 / 5); configurations {CliffordCircuit, Circuit} x {plain, layers compiled, compiled, copy, copy of compiled, composed at every split, '
            'composed then compiled}; input = the complete Pauli group with 4 phases plus signed states of every rank; oracles: bit-exact sequential gate.forward and '
            'independently the permutation of group elements derived from dense unitaries; locality per gate; structural layer invariant after every take/compose/copy; torch port.',
            'Generic gates only on ascending qubit tuples; map-less random gates excluded; N<=4.',
            '3/C09'),
    'C10': ('exhaustive enumeration of gate programs x configurations: backward-after-forward and forward-after-backward identity on the complete Pauli group and states of every rank',
            'Same program space and configurations as C09; two fresh objects per configuration: backward(forward(x)) == x, backward(x) equals the reference inverse '
            'automorphism, forward(backward(x)) == x; strings, phases mod 4 and rank compared; gates specified by generator, forward map only, backward map only, named '
            'constructor; bare, compiled, copied, in layers and one-gate circuits; torch port.',
            'As C09.',
            '3/C10'),
    'C11': ('complete enumeration of the finite gate tables x placements x the whole Pauli group / all tableaux vs textbook unitaries',
            'H,S,X,Y,Z and C(0..23) on every wire and CNOT on every ordered wire pair of N<=3 (4 thorough) applied to all 4*4^N operators and to all 34560 N=2 tableaux, '
            'compared with U P U^dag from dense matrices and with the literal sentences of the statement; the 24 indexed maps are valid, pairwise distinct, equal to the '
            'independently enumerated 1-qubit group, closed under compose and inverse (24x24 table); bad indices and wrong qubit counts are rejected; the same gates '
            'inside circuits (plain / layer-compiled / compiled / copied) and as gate copies taken after backward or compile.',
            'Rejection is read as "any exception" (type recorded).',
            '3/C11'),
    'C13': ('differential exhaustive exploration: identical enumerated well-formed inputs through pyclifford and torchclifford, representations compared',
            '24 legs: every shared kernel (acq, ipow, ps0, acq_mat, batch_dot, tokenize, combine, transform, rotate, map/state conversion, project, projection_trace, '
            'expect, entropy, z2rank, z2inv, front, condense, diagonalize1/2, mask, binary_repr, aggregate) and the class layer (parsing, algebra, rotations, transforms '
            'with masks, compose/inverse/embed, states, expectations, overlaps, constructors, gates/layers/circuits incl. compile/copy/compose, diagonalize) on complete '
            'N<=2 domains (all 64x64 operand pairs, 720 tables x sign patterns or all 11520 maps, all tableaux in thorough) plus N=3 shapes.',
            'pyclifford is the reference; measurement excluded (nondeterministic); dtypes/container types not compared; known divergences listed in known_findings.json by exact signature.',
            '3/C13'),
    'C15': ('exhaustive enumeration of expression trees over an atom pool (all ordered operand-type pairs x operators) on the real code vs dense matrices',
            'Depth<=2 expression trees (thorough partly depth 3) over a 30-atom pool for N<=2 (Paulis with 4 phases incl. phased identity, monomials, polynomials with '
            'repeated strings / unreduced products / empty, lists, numbers) x {+,-,*,/,@,neg,reduce,trace,to_qutip,casts,getitem}; balanced trees over a 9-atom core pool; '
            'reduce on all polynomials of <=2 (3) terms from 80 term types with tiny coefficients and 5 tolerances; linearity of rotate_by/transform_by; torch port.',
            'Unsupported operand combinations (TypeError/NotImplementedError) are not judged; pyclifford trace() phase defect is a known finding pinned by an existing test.',
            '3/C15'),
    'C16': ('stateless exhaustive exploration of the complete coin tree of the samplers (numba + numpy MT19937 scripted) with exact leaf counting',
            'random_pair N<=3, random_clifford_map / random_pauli_map N<=2 over the joint numba x numpy coin tree (rejection rounds bounded, residual mass reported): every leaf '
            'valid; within every coin-length class each of the 24 / 720x16 maps exactly equally often, sign coins a fair bijection independent of the table, exact '
            'product : swap : entangling ratio; random states and rcc circuits valid on every leaf; map-less gates resample (two calls use disjoint coin segments and '
            'realise all pairs); thorough: N=3 symplectic part (1 451 520 tables equally often); torch samplers through a scripted torch.randint seam.',
            'Assumes MT19937 bits fair and independent; uniformity is exact per explored length class, rejection tails beyond the bound are unexplored mass (reported).',
            '3/C16'),
    'C17': ('exhaustive catalogue exploration: object kinds x public methods x small argument domains with full before/after snapshots and copy-mutate-reobserve histories',
            'Every call snapshots receiver and arguments (all arrays, scalars, recursively through circuits/layers/gates/maps): copy() faithful and independent '
            '(shares_memory, histories copy -> in-place ops on one side -> re-observe the other, both directions); queries leave all parties bit-identical; in-place '
            'operations never change their arguments; gate memoisation accepted only if the new map is the reference inverse; Paulis, lists, polynomials, all N=1 and '
            'every 5th N=2 map, every 10th N=2 tableau (thorough all), gates, layers, circuits, measurement circuits, module-level functions; torch port.',
            'Views returned by -P, 1*P, slicing, as_list are by design and not flagged.',
            '3/C17'),
    'C18': ('exhaustive enumeration of operators x targets x modes, of all pure tableaux, and of commuting Hamiltonians on the real code vs reference rotation rule / dense matrices',
            'diagonalize: all non-identity strings x +- x every target qubit x causal on/off for N<=3 (5 thorough), Pauli and PauliMonomial: exact +-Z on the target, '
            'causal locality; kernels pauli_diagonalize1/2 on all strings / anticommuting pairs; all 11544 pure tableaux N<=2 (+N=3 BFS): forward gives |0..0>, backward '
            're-encodes, in six orders of first use (plain, backward-first, compile-first, copy-first, copy-then-compile, compile-then-copy); SBRG on every ordered tuple of <=3 commuting '
            'strings N<=3: heff I/Z only, circ.forward(H) == heff as a matrix, spectra equal; arbitrary tuples: I/Z form; torch port.',
            'Mixed input to diagonalize is only observed (statement covers pure states).',
            '3/C18'),
    'C19': ('stateless exhaustive exploration of sampler and measurement coin strings for sample / density_matrix / ClassicalShadow on the real code vs dense matrices',
            'sample(L): all numpy coin strings, all 34560 N=2 tableaux for L=1 and one per density matrix for L<=2: Tr(rho P)=+1 exactly, uniform bijection onto the '
            'group; density_matrix: every group element once with weight 2^-N, equals rho; ClassicalShadow: fixed and random (onsite, global, brickwall) circuits x base '
            'states of all ranks and signs x all sampler and measurement coins (rejection bounded): snapshot valid, non-zero overlap, stabilized up to sign by the '
            'back-evolved basis, base state bit-identical.',
            'MT19937 fairness; rejection-free sampler coins for N=2 random circuits (explored mass reported).',
            '3/C19'),
    'C20': ('exhaustive enumeration of all strings x phases x description formats and of all small lists x index expressions on the real code vs a plain Python list model',
            'All strings of N<=5 (6 thorough) x 4 phases x ~25 description forms (prefixes, code arrays with phase token at either end, dicts, tuples, arrays), '
            'repr->parse, tokenize->parse, N, weight, negation and multiplication by +-1, +-i; all lists up to (N,L)=(1,3),(2,2),(3,1) x 13 paulis() container forms x '
            'L/len/N/weight/iteration/repr/tokens x every int / slice / boolean mask / index array expression; torch port.',
            'repr text only needs the right letters and a phase-denoting prefix; N=0 and wrong-length masks are outside the statement.',
            '3/C20'),
}

# sentences appended to the level text: legs added after the seeded-change rounds 4 and 5 (DESIGN.md 8.3)
EXTRA = {
    'C01': ' Quick tier: all pairs N<=4; products between different operand classes in both orders; one operand object (list element, tensor-phase Pauli, earlier result) reused for all right operands with list, operands and kept results re-read afterwards (both packages). Use -> in-place rotate_by / transform_by (global and masked) -> use again on one operand object (Pauli, sum, reduce()d and unreduced polynomial, monomial), both packages.',
    'C02': ' Masks of size n<=N incl. the explicit all-True mask and the 3-qubit masks of N=4; the same generator object reused on single operands and checked afterwards. Generators taken as elements of a PauliList (views) used repeatedly, lender unchanged (both packages).',
    'C03': ' Use -> evolve in place -> use histories on one map object; sequences of 2-3 embeddings on disjoint masks (N<=4, holes included), both packages. Results of identity.transform_by(M) / compose(M) overwritten afterwards; rotation gate compiled, generator replaced, compiled again. Masked transform_by on single Pauli / PauliMonomial operands (both packages).',
    'C04': ' Every qubit relabeling of N<=4 as first / second operand; sign-only and identity operands with the result overwritten afterwards; inverses / compositions of N<=4 maps kept and re-read after later calls. Compiled-map checks also after compile -> extend -> compile.',
    'C05': ' take/compile/forward/backward of all short gate programs (N=2 <=3 gates, N=3 3-gate sub-alphabets) on signed states of every rank; N=3 sweep of 402 (4002) tableaux x ~990 operations. torchclifford states: every signed generator as a literal and as an element borrowed from a PauliList, applied twice with the same object, then transform_by(rotation map); invariant and U^dag rho U after every step.',
    'C06': ' Observables also given as a StabilizerState operand (every pool state), the state itself / its .stabilizers / its copy, step-slice and reversed views, Fortran arrays; the operand must be unchanged.',
    'C08': ' A sixth format (index list with a repeated entry); entropy -> operation -> entropy on one live object over the whole C05 operation menu. Region argument unchanged after every call.',
    'C09': ' All 4-gate programs over 4-letter sub-alphabets (py N=3, torch N=2,3); histories compile -> extend -> compile at every split point and compiled copy -> extend -> compile. Torch cases also on a non-contiguous view of the Pauli group. Copy histories: compile (layers / whole) -> copy -> extend one of the two -> recompile -> the other re-checked (both packages).',
    'C10': ' The 4-gate programs and compile -> extend -> compile histories of C09 are run here as well. Generator replaced between compiles (gate, circuits, copy of a compiled circuit; both packages); clifford_rotation_gate with the qubits argument in six container types.',
    'C11': ' All ordered pairs of CNOT placements N<=4 and triples N<=3 inside circuits (plain / compiled, both directions); every named gate rebuilt after another gate map was edited in place. Named gates with numpy integer qubit indices; a gate placed into an already compiled circuit and compiled again.',
    'C12': ' Every constructor called again after an earlier result was edited in place (both packages, N<=3); export -> sign-only operation -> export histories of to_qutip. Parsed operators as edit sources; torch stabilizer_state in five input formats incl. token tables.',
    'C13': ' 25 legs now: entropy on all mixed N=3 lists and all 4-gate circuit programs over CX01,S1,M02,X2 at N=3 in the quick tier. Circuit histories on both sides: compile -> extend -> compile, and the ORIGINAL recompiled after its copy was extended and compiled.',
    'C14': ' Circuit.backward with the default and every explicit record also after a second forward run on the same circuit object. Configuration compile() after every take()/measure(). numpy.int64 qubit indices.',
    'C15': ' reduce / sums at N=5..9 against a dictionary oracle; arithmetic -> in-place operation -> arithmetic on one operand object vs a fresh object. Copy -> masked operation on the copy -> original; pauli_identity / pauli_zero after earlier results were edited.',
    'C16': ' torchclifford random_clifford(3): 12 (96) of the 2016 subtrees below a first anticommuting pair; thorough: the whole coin tree of 24/26 coins (23.2 M leaves). Sampler and povm histories under forced generator states: result overwritten -> sampled again; samples of one povm call kept and re-read.',
    'C17': ' Results of compose / inverse overwritten in place or kept across later calls (operands and earlier results unchanged), both packages. clifford_rotation_gate after its source was edited in place; torch circuits of inferred size read, grown, read again.',
    'C18': ' diagonalize called again after every array of its first result was overwritten. diagonalize -> in-place change of the same state -> diagonalize again (both packages). Operator circuits also compiled, copied-then-compiled and run backward (both packages).',
    'C19': ' density_matrix for states with 8..11 (12) active stabilizers against the reference-generated group; fixed-circuit shadows on 60 (300) N=3 states of every rank. torchclifford sample (all scripted randint streams) and density_matrix on pool tableaux of every rank.',
    'C20': ' Every description also with an explicit N=; parse again after the first result was overwritten; negation / unit scalars on one reused operand in both torch phase layouts and on slice views. torch: one- and multi-element long / bool tensors as selectors.',
}

NOT_BUILT_REASON = 'check not built yet (planned: DESIGN.md section 3); model checking applies'


def main():
    props = [json.loads(l)['id'] for l in open(os.path.join(HERE, 'properties.jsonl'))]
    checks = []
    for pid in props:
        if pid not in CHECKS:
            continue
        tech, text, note, dref = CHECKS[pid]
        text = text + EXTRA.get(pid, '')
        checks.append({
            'property_id': pid,
            'quick_cmd': '/venv/bin/python check.py run %s --tier quick' % pid,
            'thorough_cmd': '/venv/bin/python check.py run %s --tier thorough' % pid,
            'evidence_file': '/verif/evidence/%s.json' % pid,
            'replay_cmd_template': '/venv/bin/python check.py replay {path}',
            'engine': 'pcverif',
            'level_claimed': {'category': 'model_checking', 'text': text, 'design_ref': 'DESIGN.md ' + dref},
            'level_note': note,
            'technique': tech,
        })
    man = {
        'version': 1,
        'setup_cmd': '/venv/bin/python check.py selftest',
        'hooks': {
            'guard': 'PYCLIFFORD_VERIF',
            'enable': 'no source hooks are needed: checks import /repo (or $PCVERIF_REPO) directly, JIT-compile it at every run, '
                      'and own the RNG from outside (numba/numpy Mersenne-Twister state scripting)',
            'baseline_off_cmd': '/verif/baseline.sh /repo',
            'source_commits': [],
            'add_only': True,
        },
        'engines': [{
            'name': 'pcverif',
            'path': '/verif/pcverif',
            'serves_properties': [c['property_id'] for c in checks],
            'kind_free_text': 'hand-written explicit-state / stateless explorer in Python driving the real library objects; '
                              'complete enumerators of Pauli group, Clifford group, tableau space, coin strings; dense-matrix reference model',
        }],
        'checks': checks,
        'not_applicable': [{'property_id': p, 'reason': NOT_BUILT_REASON} for p in props if p not in CHECKS],
        'notes': 'Exit codes: 0 held, 1 VIOLATION line printed, 2 harness error. Known findings: /verif/known_findings.json.',
    }
    with open(os.path.join(HERE, 'MANIFEST.json'), 'w') as f:
        json.dump(man, f, indent=1)
    print('MANIFEST.json: %d checks, %d not_applicable' % (len(checks), len(man['not_applicable'])))


if __name__ == '__main__':
    main()
