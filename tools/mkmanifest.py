#!/usr/bin/env python3
"""Regenerates /verif/MANIFEST.json from the table below (keeps it valid at all times)."""
import json
import os

HERE = os.path.dirname(os.path.dirname(os.path.abspath(__file__)))

# property -> (technique, level text, level note, design ref)
CHECKS = {
    'C01': ('explicit-state exhaustive exploration of the Pauli-group Cayley graph on the real code vs dense-matrix reference',
            'Every ordered pair of Pauli operators (all strings x 4 phases) for N<=3 (N<=4 thorough) is multiplied by the real '
            'code and compared with the matrix product; all triples for N<=2 (associativity, results fed back as operands), '
            'group-covering product chains, the kernel functions acq/ipow/acq_mat/batch_dot/pauli_combine, and the torch port. '
            'Complete for the stated N; every finite chain of products is a path through checked edges.',
            'Dense 2x2 matrices + numpy kron are the root oracle; bounded to N<=3/4 (kernels loop uniformly over qubits).',
            '3/C01'),
    'C05': ('explicit-state inductive sweep over the complete valid tableau space (N<=2) x operation menu x all coin branches on the real code, plus reachability BFS',
            'From each of the 48 / 34560 independently enumerated valid tableaux every menu operation (rotations with and without mask, '
            'map transforms, named gates forward/backward, single and pair measurements and MeasureLayer under every coin branch, '
            'state-argument measurement, post-selection, copy, map round trip) is executed on a fresh real object and the successor '
            'must again be valid; by induction the invariant holds after every finite history at those N. Constructors (random ones over '
            'the complete coin tree) and a BFS for N=3 supplement it.',
            'Bounded to N<=2 for the complete sweep (N=3 BFS is capped and reported as supplementary); RNG ownership by MT19937 state scripting.',
            '3/C05'),
    'C06': ('stateless exhaustive exploration of the measurement coin tree from every valid tableau on the real code vs density-matrix trajectory',
            'For all 34560 N=2 tableaux x all 32 signed observables, and all 544 commuting signed pairs (on one tableau per density matrix in '
            'quick, on all tableaux in thorough), every coin string the kernel consumes is enumerated; outcomes, coin count, log2prob, '
            'post-state (as density matrix), rank and repetition are compared with the projection postulate. Interleavings with unitaries '
            'follow by induction since every valid state is a source.',
            'MT19937 bits fair/independent; bounded to N<=2 complete, N=3 on BFS representatives (supplementary).',
            '3/C06'),
    'C02': ('exhaustive enumeration of (generator, operand) pairs over the complete Pauli group / map set / tableau space on the real code vs dense U^dag P U',
            'All Hermitian generators (strings x +-) x all 4*4^N operators for N<=3 (as list, single Pauli, polynomial), all masks embedding n<N qubit '
            'generators into N<=3 (4 thorough), all 11520 maps and all 34560 tableaux of N=2 x all 32 generators (+ masked ones); rotate-by-G-then-minus-G '
            'and four-fold rotation histories on live objects; torch port at N<=2 (3 thorough).',
            'Reference = exactly signed i*P*G rule cross-checked against dense exp(i pi/4 G) conjugation for N<=2; bounded N.',
            '3/C02'),
    'C03': ('exhaustive enumeration of the Clifford group (N<=2, all sign patterns) x Pauli group on the real code vs reference homomorphism and reconstructed unitary',
            'Every one of the 24 / 11520 valid maps is applied to the complete Pauli group (4 phases); identity, generator rows, multiplicativity on all '
            'pairs, phase linearity, and the literal existence of one unitary U with img(P)=U^dag P U (reconstructed from the intertwining equations) are '
            'checked per map; masks/embed for all 1-qubit maps at every position of N<=3 and 2-qubit maps on the three masks of N=3; rotation maps vs '
            'rotate_by for all generators N<=3; polynomial coefficients; state transforms; torch port.',
            'Only valid maps are in scope; N=3 maps only through masks/rotation maps.',
            '3/C03'),
    'C04': ('exhaustive enumeration of map pairs/triples and BFS group closure with the library compose, vs reference automorphism composition',
            'N=1: all 24^2 pairs and 24^3 triples; N=2: all 11520 maps x 10 generators on both sides, inverse of every map (two-sided, reference and '
            'library), neutrality, anti-homomorphism, operand immutability and aliasing; thorough: all 11520^2 ordered pairs; BFS closure of {identity} under '
            'the library compose reproduces exactly the independently enumerated group; z2inv on every 2x2 and 4x4 binary matrix (singular ones must raise).',
            'Associativity for N=2 triples follows from compose == reference composition on all pairs (thorough) / on generator pairs (quick).',
            '3/C04'),
    'C07': ('exhaustive enumeration of (tableau, observable), (pure tableau, tableau) and (tableau, bit string) pairs on the real code vs trace formulas on dense matrices',
            'All 34560 N=2 tableaux x the complete signed Pauli list and imaginary-phase Paulis; Paulis with all phases, monomials, four-term polynomials with '
            'repeated strings and unreduced products on every 8th tableau + one per density matrix (all in thorough); overlaps: pure receivers x one argument per '
            'density matrix of every rank and all arguments x every pure state; get_prob on all bit strings (sum to one); receiver/argument snapshots; torch port.',
            'expect(state) on a mixed receiver raises NotImplementedError = abstention; bounded to N<=2 (N=3 supplementary in thorough).',
            '3/C07'),
    'C12': ('exhaustive enumeration of maps (N<=2, all signs), of all ordered independent commuting signed stabilizer lists (N<=3) and of constructor coin strings on the real code vs explicit density matrices',
            'to_state / zero_state.transform_by / to_map round trip / to_state(r) for all 11520 maps; zero, one, GHZ, maximally mixed for N<=4 vs explicit '
            'matrices; random_bit_state over all coin strings, random_pauli_state over the coin tree; to_qutip of tableaux N<=2; stabilizer_state on every '
            'ordered independent commuting list of N<=3 with sign patterns in three input formats (projector onto the joint +1 eigenspace, r=N-L); every '
            'anticommuting pair raises ValueError; torch port.',
            'Dependent lists / non-Hermitian phases are out of scope; N=3 L=3 lists use 4 sign patterns (quick: a quarter of the lists).',
            '3/C12'),
    'C14': ('stateless exhaustive exploration of (program, input, coin string) triples of Circuit with mid-circuit measurement on the real code vs dense trajectory, direct measurement and layer-order invariant',
            'All programs up to length 2 (3 thorough) over a 9-letter alphabet with four measurement letters from one input per density matrix (all ranks), '
            'longer programs on a rotating input subset, compiled and plain, single-measurement programs from all 34560 tableaux, an N=3 family; every coin '
            'string; record, log2prob, final state and rank vs the density-matrix trajectory and vs step-by-step StabilizerState.measure; layer-order '
            'invariant after construction; postselect on all pure tableaux x signed observables x outcomes; Circuit.backward with the recorded and every '
            'alternative record (adjoint trajectory or ValueError exactly when impossible); accumulation across repeated forward calls.',
            'Backward/postselect on pure states only (the library refuses mixed ones); bounded program length.',
            '3/C14'),
}

NOT_BUILT_REASON = 'check not built yet in this session (planned: DESIGN.md section 3); model checking applies'


def main():
    props = [json.loads(l)['id'] for l in open(os.path.join(HERE, 'properties.jsonl'))]
    checks = []
    for pid in props:
        if pid not in CHECKS:
            continue
        tech, text, note, dref = CHECKS[pid]
        checks.append({
            'property_id': pid,
            'quick_cmd': '/venv/bin/python check.py run %s --tier quick' % pid,
            'thorough_cmd': '/venv/bin/python check.py run %s --tier thorough' % pid,
            'evidence_file': '/verif/evidence/%s.json' % pid,
            'replay_cmd_template': '/venv/bin/python check.py replay {path}',
            'engine': 'pcverif',
            'level_claimed': {'category': 'model_checking', 'text': text, 'design_ref': 'DESIGN.md ' + dref},
            'level_note': note,
            'technique': tech,
        })
    man = {
        'version': 1,
        'setup_cmd': '/venv/bin/python check.py selftest',
        'hooks': {
            'guard': 'PYCLIFFORD_VERIF',
            'enable': 'no source hooks are needed: checks import /repo (or $PCVERIF_REPO) directly, JIT-compile it at every run, '
                      'and own the RNG from outside (numba/numpy Mersenne-Twister state scripting)',
            'baseline_off_cmd': '/verif/baseline.sh /repo',
            'source_commits': [],
            'add_only': True,
        },
        'engines': [{
            'name': 'pcverif',
            'path': '/verif/pcverif',
            'serves_properties': [c['property_id'] for c in checks],
            'kind_free_text': 'hand-written explicit-state / stateless explorer in Python driving the real library objects; '
                              'complete enumerators of Pauli group, Clifford group, tableau space, coin strings; dense-matrix reference model',
        }],
        'checks': checks,
        'not_applicable': [{'property_id': p, 'reason': NOT_BUILT_REASON} for p in props if p not in CHECKS],
        'notes': 'Exit codes: 0 held, 1 VIOLATION line printed, 2 harness error. Known findings: /verif/known_findings.json.',
    }
    with open(os.path.join(HERE, 'MANIFEST.json'), 'w') as f:
        json.dump(man, f, indent=1)
    print('MANIFEST.json: %d checks, %d not_applicable' % (len(checks), len(man['not_applicable'])))


if __name__ == '__main__':
    main()
