#!/bin/bash
# Runs every mutants/<name>.diff (or the names given) against the checks listed in mutants/targets.json,
# records exit codes and the first signatures in mutants/results.json.
cd /verif
NAMES="$@"
[ -z "$NAMES" ] && NAMES=$(python3 -c "import json;print(' '.join(json.load(open('mutants/targets.json')).keys()))")
for M in $NAMES; do
  PROPS=$(python3 -c "import json;print(' '.join(json.load(open('mutants/targets.json'))['$M']['props']))")
  LEGS=$(python3 -c "import json;print(json.load(open('mutants/targets.json'))['$M']['legs'])")
  OUT=$(LEGS="$LEGS" tools/mutest.sh mutants/$M.diff $PROPS 2>&1)
  python3 - "$M" "$OUT" <<'PY'
import sys, json, re, os
m, out = sys.argv[1], sys.argv[2]
p = '/verif/mutants/results.json'
res = json.load(open(p)) if os.path.exists(p) else {}
entry = {}
cur = None
for line in out.splitlines():
    mm = re.match(r'== (C\d+) rc=(\d+)', line)
    if mm:
        cur = mm.group(1); entry[cur] = {'rc': int(mm.group(2)), 'signatures': []}
    elif cur and 'violation sig=' in line:
        s = re.search(r'violation sig=(\S+)', line).group(1)
        if len(entry[cur]['signatures']) < 4: entry[cur]['signatures'].append(s)
if 'PATCH FAILED' in out: entry = {'error': 'patch does not apply'}
res[m] = entry
json.dump(res, open(p, 'w'), indent=1, sort_keys=True)
print(m, {k: v.get('rc') if isinstance(v, dict) else v for k, v in entry.items()})
PY
done
