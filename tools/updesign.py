#!/usr/bin/env python3
"""Replaces the two generated tables of DESIGN.md section 8 (own mutants; seeded changes + round totals) with the
current output of tools/mkreport.py.  Text around the tables is left alone."""
import subprocess, re
V = '/verif'
rep = subprocess.run(['python3', V + '/tools/mkreport.py'], capture_output=True, text=True, check=True).stdout
t1, rest = rep.split('\n\n', 1)
t2, totals = rest.split('\n\n', 1)
totals = totals.strip('\n')
L = open(V + '/DESIGN.md').read().split('\n')
def block(start_pred, end_pred):
    i = next(k for k, l in enumerate(L) if start_pred(l))
    j = i
    while j + 1 < len(L) and end_pred(L[j + 1]):
        j += 1
    return i, j
i, j = block(lambda l: l.startswith('| mutant (mutants/<name>.diff)'), lambda l: l.startswith('|'))
L[i:j + 1] = t1.split('\n')
i, j = block(lambda l: l.startswith('| seeded change | round |'), lambda l: l.startswith('|'))
L[i:j + 1] = t2.split('\n')
i, j = block(lambda l: re.match(r'round 1: \d+ changes', l) is not None, lambda l: re.match(r'round \d+: \d+ changes', l) is not None)
L[i:j + 1] = totals.split('\n')
open(V + '/DESIGN.md', 'w').write('\n'.join(L))
print('DESIGN.md tables regenerated')
