#!/bin/bash
# usage: mutest.sh <patch.diff> <prop> [<prop>...]   (env LEGS=..., TIER=quick)
# Applies the patch to a scratch copy of the two packages (never to /repo), runs the given
# checks against the copy, prints their exit codes, removes the copy.
PATCH=$(readlink -f "$1"); shift
D=$(mktemp -d /tmp/pcv-mut-XXXXXX)
cp -r /repo/pyclifford /repo/torchclifford "$D"/
find "$D" -name __pycache__ -prune -exec rm -rf {} +
( cd "$D" && patch -p1 -s < "$PATCH" ) || { echo "PATCH FAILED"; rm -rf "$D"; exit 3; }
cd /verif
for P in "$@"; do
  OUT=$(PCVERIF_REPO="$D" PCVERIF_EVID_DIR="$D/evidence" PCVERIF_REPLAY_DIR="$D/replays" PCVERIF_LEGS="$LEGS" /venv/bin/python check.py run "$P" --tier "${TIER:-quick}" 2>&1)
  RC=$?
  echo "== $P rc=$RC"
  echo "$OUT" | grep -E "violation sig|VIOLATION|HARNESS|KNOWN" | head -8
done
rm -rf "$D"
