#!/bin/bash
# usage: seedeval.sh <dir with patch.diff demo.py notes.md> <seed id> <property> [more properties to run...]
# Confirms a seeded faulty change in a scratch worktree (never in /repo): demo passes on the clean tree and
# fails with the patch, repository baseline still passes with the patch, then runs our quick checks against it.
# Writes /verif/seeded/<id>/ (patch.diff, demo.py, notes.md, meta.json).  env: LEGS (restrict legs), SKIP_BASELINE=1
SRC=$(readlink -f "$1"); ID="$2"; shift 2
PROPS=("$@")
W=$(mktemp -d /tmp/pcv-eval-XXXXXX); rmdir "$W"
git -C /repo worktree add --detach "$W" HEAD >/dev/null 2>&1 || { echo "worktree failed"; exit 3; }
mkdir -p "$W/out/X"; cp "$SRC"/patch.diff "$SRC"/demo.py "$W/out/X/" 2>/dev/null; cp "$SRC"/notes.md "$W/out/X/" 2>/dev/null
cd "$W"
/venv/bin/python out/X/demo.py > "$W/demo_clean.log" 2>&1; RC_CLEAN=$?
git apply out/X/patch.diff 2>/dev/null || git apply --3way out/X/patch.diff || { echo "PATCH DOES NOT APPLY"; cd /; git -C /repo worktree remove --force "$W"; exit 3; }
/venv/bin/python out/X/demo.py > "$W/demo_patched.log" 2>&1; RC_PATCHED=$?
if [ -z "$SKIP_BASELINE" ]; then BASE=$(/verif/baseline.sh "$W" 2>&1 | tail -2 | tr '\n' ' '); else BASE="skipped"; fi
echo "demo clean rc=$RC_CLEAN patched rc=$RC_PATCHED ; $BASE"
cd /verif
RES="{"
for P in "${PROPS[@]}"; do
  OUT=$(PCVERIF_REPO="$W" PCVERIF_EVID_DIR="$W/evidence" PCVERIF_REPLAY_DIR="$W/replays" PCVERIF_LEGS="$LEGS" /venv/bin/python check.py run "$P" --tier "${TIER:-quick}" 2>&1)
  RC=$?
  echo "== $P rc=$RC"
  echo "$OUT" | grep -E "violation sig|HARNESS" | cut -c1-260 | head -5
  SIGS=$(echo "$OUT" | grep -oE "violation sig=[^ ]+" | sed 's/violation sig=//' | head -6 | tr '\n' ',' )
  RES="$RES\"$P\": {\"rc\": $RC, \"signatures\": \"$SIGS\"},"
done
RES="${RES%,}}"
D=/verif/seeded/$ID; mkdir -p "$D"
cp "$SRC"/patch.diff "$SRC"/demo.py "$D"/ ; cp "$SRC"/notes.md "$D"/ 2>/dev/null
python3 - "$D" "$ID" "$RC_CLEAN" "$RC_PATCHED" "$BASE" "$RES" "${PROPS[0]}" <<'PY'
import sys, json, os
d, sid, rcc, rcp, base, res, prop = sys.argv[1:8]
meta = {'id': sid, 'breaks_property': prop, 'demo_rc_clean_tree': int(rcc), 'demo_rc_patched_tree': int(rcp),
        'baseline_with_patch': base.strip(), 'our_quick_checks': json.loads(res),
        'ran': 'tools/seedeval.sh: scratch git worktree of /repo HEAD, demo on clean tree, git apply patch.diff, demo again, /verif/baseline.sh, check.py run <prop> --tier quick with PCVERIF_REPO=<worktree>',
        'needs_to_manifest': 'see notes.md'}
old = {}
if os.path.exists(os.path.join(d, 'meta.json')):
    try: old = json.load(open(os.path.join(d, 'meta.json')))
    except Exception: pass
old.update(meta)
json.dump(old, open(os.path.join(d, 'meta.json'), 'w'), indent=1)
PY
cd /; git -C /repo worktree remove --force "$W"
