#!/bin/bash
# Runs the repository's own stable baseline (guard off; there are no hooks) and compares with BASELINE.json.
# usage: baseline.sh [repo_dir]
REPO=${1:-/repo}
OUT=$(mktemp /tmp/pcv-baseline-XXXX.xml)
cd "$REPO" && /venv/bin/python -m pytest -ra -q -p no:cacheprovider --timeout=900 --continue-on-collection-errors --junitxml="$OUT" >/dev/null 2>&1
/venv/bin/python - "$OUT" <<'PY'
import sys, json, xml.etree.ElementTree as ET
base = json.load(open('/root/.vp/BASELINE.json'))
root = ET.parse(sys.argv[1]).getroot()
passed = set()
for tc in root.iter('testcase'):
    name = tc.get('classname') + '::' + tc.get('name')
    if not any(ch.tag in ('failure', 'error', 'skipped') for ch in tc):
        passed.add(name)
missing = [t for t in base['stable_pass'] if t not in passed]
print('baseline: %d/%d stable tests pass; newly passing: %s' % (len(base['stable_pass']) - len(missing), len(base['stable_pass']), sorted(passed - set(base['stable_pass']))))
if missing:
    print('MISSING:', missing); sys.exit(1)
PY
RC=$?
rm -f "$OUT"
exit $RC
